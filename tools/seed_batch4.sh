#!/bin/bash
# evaluate every delivered wave-4 seed (E: shared infrastructure, F: data files) that has not been evaluated yet
cd "$(dirname "$0")/.."
for d in /tmp/seed4_out/C*/[EF]; do
  [ -f "$d/patch.diff" ] && [ -f "$d/meta.json" ] && [ -f "$d/demo.py" ] || continue
  pid=$(basename $(dirname $d)); x=$(basename $d)
  [ -f "seeded/$pid-$x/meta.json" ] && continue
  echo "=== $pid $x"
  python3 tools/seed_eval.py $pid $x --src /tmp/seed4_out 2>&1 | grep -v "^WARNING" | grep -E "^(verified|caught_by|C[0-9]+ quick rc)" | cut -c1-260
done
echo BATCH-DONE
