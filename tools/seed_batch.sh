#!/bin/bash
# evaluate every delivered wave-2 seed that has not been evaluated yet (sequentially: each one patches /repo temporarily)
cd "$(dirname "$0")/.."
for d in /tmp/seed2_out/C*/[CD]; do
  [ -f "$d/patch.diff" ] && [ -f "$d/meta.json" ] && [ -f "$d/demo.py" ] || continue
  pid=$(basename $(dirname $d)); x=$(basename $d)
  [ -f "seeded/$pid-$x/meta.json" ] && continue
  echo "=== $pid $x"
  python3 tools/seed_eval.py $pid $x --src /tmp/seed2_out 2>&1 | grep -v "^WARNING" | tail -2 | cut -c1-300
done
echo BATCH-DONE
