#!/usr/bin/env python3
"""Evaluate one behaviour-preserving refactoring:  tools/benign_eval.py C12 R [--src /tmp/seed3_out] [--all]

1. confirms in a scratch worktree of /repo that the 104 tests pass with the patch and that the author's equivalence
   digest (equiv.py) is the same with and without it;
2. applies the patch to /repo, runs ./check for the property (with --all: every registered check), ALWAYS undoes it;
3. stores the change under /verif/seeded/benign/<id>-<X>/ with which checks stayed quiet (exit 0) and which raised an alarm.
An alarm on a change that keeps the property is a false alarm of the machinery and has to be investigated.
"""
import argparse, json, os, shutil, subprocess, sys, time
from concurrent.futures import ThreadPoolExecutor
ROOT = os.path.dirname(os.path.dirname(os.path.abspath(__file__)))


def sh(cmd, cwd=None, env=None, timeout=3600):
    p = subprocess.run(cmd, shell=True, cwd=cwd, env=env, capture_output=True, text=True, timeout=timeout)
    return p.returncode, (p.stdout + p.stderr)


def main():
    ap = argparse.ArgumentParser()
    ap.add_argument("pid"); ap.add_argument("variant")
    ap.add_argument("--src", default="/tmp/seed3_out")
    ap.add_argument("--all", action="store_true")
    ap.add_argument("--checks", default=None)
    ap.add_argument("--skip-verify", action="store_true")
    a = ap.parse_args()
    src = os.path.join(a.src, a.pid, a.variant)
    patch, equiv = os.path.join(src, "patch.diff"), os.path.join(src, "equiv.py")
    meta = json.load(open(os.path.join(src, "meta.json")))
    out = {"property": a.pid, "variant": a.variant, "kind": "benign refactoring", "what": meta.get("what"),
           "why_equivalent": meta.get("why_equivalent"), "files": meta.get("files")}
    sw = f"/tmp/bw_{a.pid}_{a.variant}"
    env = {**os.environ, "PYTHONDONTWRITEBYTECODE": "1"}
    if not a.skip_verify:
        sh(f"git -C /repo worktree remove --force {sw}")
        sh(f"git -C /repo worktree add {sw} HEAD")
        try:
            def digest():
                rc, o = sh(f"PYTHONPATH={sw} /venv/bin/python {equiv}", cwd=sw, env=env, timeout=1800)
                d = [l for l in o.splitlines() if l.startswith("DIGEST")]
                return rc, (d[-1] if d else "no digest: " + o[-200:])
            rc0, d0 = digest()
            rc, o = sh(f"git apply {patch}", cwd=sw)
            if rc != 0:
                out["verified"] = {"ok": False, "why": "patch does not apply: " + o[-300:]}
            else:
                rct, ot = sh("/venv/bin/python -m pytest -q -p no:cacheprovider 2>&1 | tail -1", cwd=sw, env=env)
                rc1, d1 = digest()
                out["verified"] = {"ok": rc0 == 0 and rc1 == 0 and d0 == d1 and d0.startswith("DIGEST") and "104 passed" in ot,
                                   "digest_without": d0, "digest_with": d1, "tests_with_patch": ot.strip()[-60:]}
        finally:
            sh(f"git -C /repo worktree remove --force {sw}")
        print("verified:", out["verified"])
        if not out["verified"]["ok"]:
            print(json.dumps(out, indent=1)); return 1
    ids = sorted(os.path.basename(f)[:-5] for f in os.listdir(os.path.join(ROOT, "checks.d")) if f.endswith(".json"))
    checks = ids if a.all else (a.checks.split(",") if a.checks else [a.pid])
    rc, o = sh("git status --porcelain", cwd="/repo")
    if o.strip():
        print("/repo is not clean, refusing"); return 2
    rc, o = sh(f"git apply {patch}", cwd="/repo")
    if rc != 0:
        print("patch does not apply to /repo:", o); return 2
    results = {}
    ev_backup = {}
    for c in checks:
        fn = os.path.join(ROOT, "evidence", c + ".json")
        ev_backup[fn] = open(fn).read() if os.path.exists(fn) else None
    try:
        def one(c):
            t = time.time()
            rc, o = sh(f"./check {c} --tier quick", cwd=ROOT)
            lines = [l for l in o.splitlines() if l.startswith(("VIOLATION", "HARNESS-ERROR")) or "machinery" in l.lower()]
            return c, {"rc": rc, "lines": lines[:6], "wall_s": round(time.time() - t, 1), "tail": o.strip().splitlines()[-1][-200:] if o.strip() else ""}
        with ThreadPoolExecutor(max_workers=8 if len(checks) > 1 else 1) as ex:
            for c, r in ex.map(one, checks):
                results[c] = r
                print(c, "rc", r["rc"], r["lines"][:2])
    finally:
        for fn, txt in ev_backup.items():
            if txt is None:
                if os.path.exists(fn):
                    os.remove(fn)
            else:
                open(fn, "w").write(txt)
        sh("git checkout -- .", cwd="/repo")
        rc, o = sh("git status --porcelain", cwd="/repo")
        assert not o.strip(), "could not restore /repo: " + o
    d = os.path.join(ROOT, "seeded", "benign", f"{a.pid}-{a.variant}")
    prev = os.path.join(d, "meta.json")
    if os.path.exists(prev):           # a re-run after the machinery was corrected: keep what the first pass saw
        old = json.load(open(prev))
        out["first_pass_alarms"] = old.get("first_pass_alarms", old.get("alarms", []))
        if not out.get("verified") and old.get("verified"):
            out["verified"] = old["verified"]
        results = {**old.get("ran", {}), **results}
    out["ran"] = results
    out["quiet"] = sorted(c for c, r in results.items() if r["rc"] == 0)
    out["alarms"] = sorted(c for c, r in results.items() if r["rc"] == 1)
    out["machinery_failures"] = sorted(c for c, r in results.items() if r["rc"] not in (0, 1))
    os.makedirs(d, exist_ok=True)
    shutil.copy(patch, os.path.join(d, "patch.diff")); shutil.copy(equiv, os.path.join(d, "equiv.py"))
    json.dump(out, open(os.path.join(d, "meta.json"), "w"), indent=1)
    print("alarms:", out["alarms"], "machinery failures:", out["machinery_failures"])
    return 0


if __name__ == "__main__":
    sys.exit(main())
