#!/usr/bin/env python3
"""Regression over the kept seeded changes:  tools/seed_regress.py [--only C13] [--waves ABCDEF]

For every seeded/<id>-<X>/ whose meta.json names the check(s) that caught it, the patch is applied to /repo, the FIRST of
those checks is run again, and /repo is restored (always). Evidence files are restored afterwards, meta.json is not touched.
Result: out/regress.json  {seed: {"check": id, "rc": n, "still_caught": bool}}; exit 1 if a seed is no longer caught.
"""
import argparse, glob, json, os, subprocess, sys
ROOT = os.path.dirname(os.path.dirname(os.path.abspath(__file__)))


def sh(cmd, cwd=None, timeout=3600):
    p = subprocess.run(cmd, shell=True, cwd=cwd, capture_output=True, text=True, timeout=timeout)
    return p.returncode, p.stdout + p.stderr


def main():
    ap = argparse.ArgumentParser()
    ap.add_argument("--only", default=None)
    ap.add_argument("--waves", default="ABCDEF")
    a = ap.parse_args()
    out_fn = os.path.join(ROOT, "out", "regress.json")
    res = json.load(open(out_fn)) if os.path.exists(out_fn) else {}
    rc, o = sh("git status --porcelain", cwd="/repo")
    if o.strip():
        print("/repo is not clean, refusing"); return 2
    for d in sorted(glob.glob(os.path.join(ROOT, "seeded", "C??-?"))):
        sid = os.path.basename(d)
        if sid[-1] not in a.waves or (a.only and not sid.startswith(a.only)) or sid in res:
            continue
        m = json.load(open(os.path.join(d, "meta.json")))
        caught = m.get("caught_by") or []
        if not caught:
            res[sid] = {"check": None, "still_caught": None, "note": "documented miss"}
            continue
        chk = caught[0].split(":")[0]
        ev = os.path.join(ROOT, "evidence", chk + ".json")
        ev_txt = open(ev).read() if os.path.exists(ev) else None
        rc, o = sh(f"git apply {os.path.join(d, 'patch.diff')}", cwd="/repo")
        if rc != 0:
            res[sid] = {"check": chk, "still_caught": None, "note": "patch does not apply: " + o[-200:]}
            sh("git checkout -- .", cwd="/repo")
            continue
        try:
            rc, o = sh(f"./check {chk} --tier quick", cwd=ROOT)
        finally:
            sh("git checkout -- .", cwd="/repo")
            if ev_txt is not None:
                open(ev, "w").write(ev_txt)
        res[sid] = {"check": chk, "rc": rc, "still_caught": rc == 1,
                    "with_failing_input": any(l.startswith("VIOLATION") and "no-failing-input-found" not in l for l in o.splitlines())}
        print(sid, chk, "rc", rc, flush=True)
        json.dump(res, open(out_fn, "w"), indent=1)
    json.dump(res, open(out_fn, "w"), indent=1)
    lost = [k for k, v in res.items() if v.get("still_caught") is False]
    print("no longer caught:", lost)
    return 1 if lost else 0


if __name__ == "__main__":
    sys.exit(main())
