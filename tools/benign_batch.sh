#!/bin/bash
# evaluate every delivered behaviour-preserving refactoring (wave 3): all registered checks must stay quiet
cd "$(dirname "$0")/.."
for d in ${BENIGN_SRC:-/tmp/seed3_out}/C*/[${BENIGN_LETTERS:-RS}]; do
  [ -f "$d/patch.diff" ] && [ -f "$d/meta.json" ] && [ -f "$d/equiv.py" ] || continue
  pid=$(basename $(dirname $d)); x=$(basename $d)
  [ -f "seeded/benign/$pid-$x/meta.json" ] && continue
  echo "=== $pid $x"
  python3 tools/benign_eval.py $pid $x --src ${BENIGN_SRC:-/tmp/seed3_out} --all 2>&1 | grep -v "^WARNING" | grep -E "^(verified|alarms|C[0-9]+ rc [12])" | cut -c1-400
done
echo BATCH-DONE
