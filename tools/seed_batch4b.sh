#!/bin/bash
# wave 4: the seeds not evaluated yet, then the first-pass misses again (own check, then the checks whose subject they are)
cd "$(dirname "$0")/.."
run() { echo "=== $1 $2 ${3:-}"; python3 tools/seed_eval.py $1 $2 --src /tmp/seed4_out ${3:+--checks $3} $4 2>&1 | grep -v "^WARNING" | grep -E "^(verified|caught_by)" | cut -c1-260; }
for d in /tmp/seed4_out/C*/[EF]; do
  pid=$(basename $(dirname $d)); x=$(basename $d)
  [ -f "seeded/$pid-$x/meta.json" ] && continue
  run $pid $x "" ""
done
run C02 E "" --skip-verify
run C04 F "" --skip-verify
run C05 E C05,C11,C14 --skip-verify
run C07 E "" --skip-verify
run C07 F C07,C06,C03 --skip-verify
run C09 E "" --skip-verify
run C09 F "" --skip-verify
run C10 E "" --skip-verify
run C11 E "" --skip-verify
run C12 E C12,C03 --skip-verify
run C01 E C01,C04,C07,C19,C03 --skip-verify
run C01 F C01,C03,C04 --skip-verify
run C02 F C02,C05,C03 --skip-verify
run C12 F C12,C10,C03 --skip-verify
echo BATCH-DONE
