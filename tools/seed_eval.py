#!/usr/bin/env python3
"""Evaluate one seeded breaking change:  tools/seed_eval.py C12 A [--checks C12,C04] [--thorough]

1. confirms the sub-agent's three claims in a scratch worktree of /repo (demo passes without the patch, the 104 tests pass with
   it, the demo fails with it);
2. applies the patch to /repo, runs ./check for the property (and any extra checks), and ALWAYS undoes it (git checkout -- .);
3. stores the change under /verif/seeded/<id>-<X>/ with what was run and which check caught it.
"""
import argparse, json, os, shutil, subprocess, sys, time
ROOT = os.path.dirname(os.path.dirname(os.path.abspath(__file__)))
SRC = "/tmp/seed_out"


def sh(cmd, cwd=None, env=None, timeout=3600):
    p = subprocess.run(cmd, shell=True, cwd=cwd, env=env, capture_output=True, text=True, timeout=timeout)
    return p.returncode, (p.stdout + p.stderr)


def main():
    ap = argparse.ArgumentParser()
    ap.add_argument("pid"); ap.add_argument("variant")
    ap.add_argument("--checks", default=None)
    ap.add_argument("--thorough", action="store_true")
    ap.add_argument("--skip-verify", action="store_true")
    ap.add_argument("--src", default=SRC)
    a = ap.parse_args()
    src = os.path.join(a.src, a.pid, a.variant)
    patch = os.path.join(src, "patch.diff")
    demo = os.path.join(src, "demo.py")
    meta = json.load(open(os.path.join(src, "meta.json")))
    out = {"property": a.pid, "variant": a.variant, "what": meta.get("what"), "needs": meta.get("needs"), "files": meta.get("files")}
    sw = f"/tmp/sw_{a.pid}_{a.variant}"
    env = {**os.environ, "PYTHONDONTWRITEBYTECODE": "1"}
    if not a.skip_verify:
        sh(f"git -C /repo worktree remove --force {sw}")
        rc, o = sh(f"git -C /repo worktree add {sw} HEAD")
        try:
            rc0, o0 = sh(f"PYTHONPATH={sw} /venv/bin/python {demo}", cwd=sw, env=env)
            rc, o = sh(f"git apply {patch}", cwd=sw)
            if rc != 0:
                out["verified"] = {"ok": False, "why": "patch does not apply on the current tree: " + o[-300:]}
            else:
                rct, ot = sh("/venv/bin/python -m pytest -q -p no:cacheprovider 2>&1 | tail -1", cwd=sw, env=env)
                rc1, o1 = sh(f"PYTHONPATH={sw} /venv/bin/python {demo}", cwd=sw, env=env)
                out["verified"] = {"ok": rc0 == 0 and rc1 != 0 and "104 passed" in ot, "demo_without_patch_rc": rc0, "tests_with_patch": ot.strip()[-60:],
                                   "demo_with_patch_rc": rc1, "demo_with_patch_tail": o1.strip()[-200:]}
        finally:
            sh(f"git -C /repo worktree remove --force {sw}")
        print("verified:", out["verified"])
        if not out["verified"]["ok"]:
            print(json.dumps(out, indent=1)); return 1
    checks = (a.checks.split(",") if a.checks else [a.pid])
    rc, o = sh("git status --porcelain", cwd="/repo")
    if o.strip():
        print("/repo is not clean, refusing"); return 2
    rc, o = sh(f"git apply {patch}", cwd="/repo")
    if rc != 0:
        print("patch does not apply to /repo:", o); return 2
    results = {}
    ev_backup = {}
    for c in checks:
        fn = os.path.join(ROOT, "evidence", c + ".json")
        ev_backup[fn] = open(fn).read() if os.path.exists(fn) else None
    try:
        for c in checks:
            for tier in (["quick", "thorough"] if a.thorough else ["quick"]):
                t = time.time()
                rc, o = sh(f"./check {c} --tier {tier}", cwd=ROOT)
                lines = [l for l in o.splitlines() if l.startswith(("VIOLATION", "KNOWN-FINDING", "HARNESS-ERROR"))]
                results[f"{c}:{tier}"] = {"rc": rc, "lines": lines[:6], "wall_s": round(time.time() - t, 1)}
                print(c, tier, "rc", rc, lines[:3])
                if rc == 1:
                    break
    finally:
        for fn, txt in ev_backup.items():          # evidence must only ever describe runs on the real tree
            if txt is None:
                if os.path.exists(fn):
                    os.remove(fn)
            else:
                open(fn, "w").write(txt)
        sh("git checkout -- .", cwd="/repo")
        rc, o = sh("git status --porcelain", cwd="/repo")
        assert not o.strip(), "could not restore /repo: " + o
    caught = [k for k, v in results.items() if v["rc"] == 1]
    out["ran"] = results
    out["caught_by"] = caught
    out["caught_with_failing_input"] = [k for k in caught if any("no-failing-input-found" not in l and l.startswith("VIOLATION") for l in results[k]["lines"])]
    d = os.path.join(ROOT, "seeded", f"{a.pid}-{a.variant}")
    os.makedirs(d, exist_ok=True)
    old_fn = os.path.join(d, "meta.json")
    if os.path.exists(old_fn):                      # a re-evaluation after strengthening keeps what the first pass found
        old = json.load(open(old_fn))
        out["first_pass_caught_by"] = old.get("first_pass_caught_by", old.get("caught_by", []))
        if "verified" not in out and "verified" in old:
            out["verified"] = old["verified"]
    shutil.copy(patch, os.path.join(d, "patch.diff")); shutil.copy(demo, os.path.join(d, "demo.py"))
    json.dump(out, open(os.path.join(d, "meta.json"), "w"), indent=1)
    print("caught_by:", caught)
    return 0


if __name__ == "__main__":
    sys.exit(main())
