"""Generator `presentation` (C19): the per-version effect / condition tables the rendering code reads, as Lean data.

Reads (never writes) the repository:
  * versions/DE/v*/effects.json, conditions.json   -> `attributes`, names, `attribute_presentation` per type (key -1 = defaults)
  * datasets/effects.py, datasets/conditions.py     -> `empty_attributes` (attribute list used for unknown types)
  * objects/support/attr_presentation.py            -> the five dispatch dictionaries of `transform_value_by_representation`
  * Effect / Condition instances                     -> which attribute names `getattr` finds
  * ConditionId.DIFFICULTY_LEVEL, hidden_attribute

Output: lean/Aoe/Generated/Presentation.lean (tables `Aoe.Render.Table`, attribute and representation names interned to
Nat, identical tables of different versions emitted once) and gen/presentation.json (the same interning for the harness).
"""
import glob, hashlib, json, os, re, sys


def _lean_str(s):
    return '"' + s.replace('\\', '\\\\').replace('"', '\\"') + '"'


def _nat_list(l):
    return "[" + ", ".join(str(x) for x in l) + "]"


def generate(repo, outdir_lean, outdir_json, write_if_changed):
    if repo not in sys.path:
        sys.path.insert(0, repo)
    from AoE2ScenarioParser.datasets import effects as eds, conditions as cds
    from AoE2ScenarioParser.datasets.conditions import ConditionId
    from AoE2ScenarioParser.objects.support import attr_presentation as ap
    from AoE2ScenarioParser.objects.data_objects.effect import Effect
    from AoE2ScenarioParser.objects.data_objects.condition import Condition

    vdir = os.path.join(repo, "AoE2ScenarioParser", "versions", "DE")
    versions = sorted(os.path.basename(d)[1:] for d in glob.glob(os.path.join(vdir, "v*")) if os.path.isdir(d))

    raw = {}
    for v in versions:
        raw[v] = {k: json.load(open(os.path.join(vdir, "v" + v, k + ".json"))) for k in ("effects", "conditions")}

    # ---- interning -----------------------------------------------------------------------------------------
    def attr_names(kind, empty):
        names = list(empty)
        for v in versions:
            for ty, st in raw[v][kind].items():
                for a in list(st.get("attributes", [])) + list(st.get("attribute_presentation", {})):
                    if a not in names:
                        names.append(a)
        return names

    e_names = attr_names("effects", eds.empty_attributes)
    c_names = attr_names("conditions", cds.empty_attributes)
    rep_names = [""]
    for v in versions:
        for kind in ("effects", "conditions"):
            for ty, st in raw[v][kind].items():
                for r in st.get("attribute_presentation", {}).values():
                    if r not in rep_names:
                        rep_names.append(r)

    # ---- dispatch of transform_value_by_representation (priority order of the if/elif chain) ----------------
    store_kind = {"_format_trigger_id_representation": "triggerId",
                  "_format_unit_reference_representation": "unitRef",
                  "_format_variable_id_representation": "variableId"}
    other_kind = {"bool": "bool", "PlayerId": "playerId", "PlayerColorId": "playerColorId", "str": "str"}
    snap_fn = os.path.join(os.path.dirname(os.path.abspath(__file__)), "presentation_dispatch.json")
    try:
        dispatch = [("", "raw")]
        for n in ap._datasets:
            dispatch.append((n, "dataset"))
        for n in ap._combined_info_datasets:
            dispatch.append((n, "combined"))
        for n in ap._other_info_datasets:
            dispatch.append((n, "otherInfo"))
        for n, f in ap._store_references.items():
            dispatch.append((n, store_kind.get(getattr(f, "__name__", ""), "unhandled")))
        for n in ap._other:
            dispatch.append((n, other_kind.get(n, "unhandled")))
        dispatch_source = "module tables"
    except AttributeError:
        # the module no longer keeps its five private dispatch dictionaries (a restructuring): the representation kinds as
        # read from the pinned tree are used instead; that they still describe `transform_value_by_representation` is
        # decided by the C19 correspondence run (every representation x value pool), not assumed
        dispatch = [tuple(x) for x in json.load(open(snap_fn))]
        dispatch_source = "snapshot (tools/presentation_dispatch.json)"
    for n, _ in dispatch:
        if n not in rep_names:
            rep_names.append(n)
    rid = {n: i for i, n in enumerate(rep_names)}

    # ---- which attributes exist on instances ------------------------------------------------------------------
    base = dict(area_x1=-1, area_y1=-1, area_x2=-1, area_y2=-1, technology=-1)
    e_obj = Effect(object_list_unit_id=-1, object_list_unit_id_2=-1, **base)
    c_obj = Condition(object_list=-1, **base)
    e_class = [i for i, a in enumerate(e_names) if hasattr(e_obj, a)]
    c_class = [i for i, a in enumerate(c_names) if hasattr(c_obj, a)]

    def table(kind, v):
        names = e_names if kind == "effects" else c_names
        idx = {a: i for i, a in enumerate(names)}
        attrs, tnames, pres = [], [], []
        for ty, st in raw[v][kind].items():
            t = int(ty)
            if t != -1:
                attrs.append((t, [idx[a] for a in st["attributes"]]))
                tnames.append(t)
            pres.append((t, [(idx[a], rid[r]) for a, r in st.get("attribute_presentation", {}).items()]))
        return {"attrs": attrs, "names": tnames, "pres": pres}

    distinct, vmap = {}, {}
    for v in versions:
        for kind in ("effects", "conditions"):
            t = table(kind, v)
            h = kind[0] + hashlib.sha256(json.dumps(t, sort_keys=True).encode()).hexdigest()[:8]
            distinct.setdefault(h, (kind, t, v))
            vmap[(v, kind)] = h

    # ---- Lean ---------------------------------------------------------------------------------------------------
    L = []
    L.append("import Aoe.Model.Render")
    L.append("/-! GENERATED by tools/gen_presentation.py from the repository – do not edit. -/")
    L.append("namespace Aoe.Generated.Presentation")
    L.append("open Aoe.Render")
    L.append("")
    L.append("def repNames : List String := [" + ", ".join(_lean_str(n) for n in rep_names) + "]")
    L.append("def eAttrNames : List String := [" + ", ".join(_lean_str(n) for n in e_names) + "]")
    L.append("def cAttrNames : List String := [" + ", ".join(_lean_str(n) for n in c_names) + "]")
    L.append("def dispatch : List (Nat × Rep) := [" + ", ".join(f"({rid[n]}, .{k})" for n, k in dispatch) + "]")
    L.append("def eEmpty : List Nat := " + _nat_list([e_names.index(a) for a in eds.empty_attributes]))
    L.append("def cEmpty : List Nat := " + _nat_list([c_names.index(a) for a in cds.empty_attributes]))
    L.append("def eClass : List Nat := " + _nat_list(e_class))
    L.append("def cClass : List Nat := " + _nat_list(c_class))
    L.append("")
    order = sorted(distinct, key=lambda h: (distinct[h][0], distinct[h][2]))
    for h in order:
        kind, t, v0 = distinct[h]
        e = kind == "effects"
        names = e_names if e else c_names
        L.append(f"/-- {kind} table first seen in version {v0} -/")
        L.append(f"def attrs_{h} : List (Int × List Nat) := [")
        L.append(",\n".join(f"  ({ty}, {_nat_list(al)})" for ty, al in t["attrs"]))
        L.append("]")
        L.append(f"def pres_{h} : List (Int × List (Nat × Nat)) := [")
        L.append(",\n".join("  (%d, [%s])" % (ty, ", ".join(f"({a}, {r})" for a, r in pl)) for ty, pl in t["pres"]))
        L.append("]")
        hidden = names.index(Effect.hidden_attribute if e else Condition.hidden_attribute)
        qty = names.index("quantity")
        aaq = names.index("armour_attack_quantity") if e else 0
        aac = names.index("armour_attack_class") if e else 0
        diff = "none" if e else f"some {int(ConditionId.DIFFICULTY_LEVEL)}"
        L.append(f"def table_{h} : Table := {{ isEffect := {'true' if e else 'false'}, attrs := attrs_{h}, "
                 f"names := {_nat_list(t['names'])}, pres := pres_{h}, empty := {'eEmpty' if e else 'cEmpty'}, "
                 f"classAttrs := {'eClass' if e else 'cClass'}, hidden := {hidden}, qtyAttr := {qty}, aaQ := {aaq}, aaC := {aac}, "
                 f"difficulty := {diff}, dispatch := dispatch }}")
        L.append("")
    for v in versions:
        vv = v.replace(".", "_")
        L.append(f"def e_{vv} : Table := table_{vmap[(v, 'effects')]}")
        L.append(f"def c_{vv} : Table := table_{vmap[(v, 'conditions')]}")
    L.append("/-- interned attribute names and a few dataset constants, for readable witnesses -/")
    for i, a in enumerate(e_names):
        L.append(f"def eA_{a} : Nat := {i}")
    for i, a in enumerate(c_names):
        L.append(f"def cA_{a} : Nat := {i}")
    from AoE2ScenarioParser.datasets.effects import EffectId
    from AoE2ScenarioParser.datasets.trigger_lists import ObjectAttribute
    L.append(f"def activateTrigger : Int := {int(EffectId.ACTIVATE_TRIGGER)}")
    L.append(f"def modifyAttribute : Int := {int(EffectId.MODIFY_ATTRIBUTE)}")
    L.append(f"def attackAttribute : Int := {int(ObjectAttribute.ATTACK)}")
    L.append("")
    L.append("/-- scenario version ↦ (effect table, condition table) -/")
    L.append("def versions : List (String × Table × Table) := [")
    L.append(",\n".join(f"  ({_lean_str(v)}, table_{vmap[(v, 'effects')]}, table_{vmap[(v, 'conditions')]})" for v in versions))
    L.append("]")
    L.append("/-- the distinct tables (each version uses two of them) -/")
    L.append("def tables : List Table := [" + ", ".join("table_" + h for h in order) + "]")
    L.append("")
    L.append("end Aoe.Generated.Presentation")
    lean = "\n".join(L) + "\n"
    f1 = os.path.join(outdir_lean, "Presentation.lean")
    write_if_changed(f1, lean)

    js = {"versions": versions, "rep_names": rep_names, "e_names": e_names, "c_names": c_names,
          "dispatch": dispatch, "dispatch_source": dispatch_source, "tables": {f"{v}:{k}": vmap[(v, k)] for (v, k) in vmap},
          "distinct": {h: {"kind": distinct[h][0], "first": distinct[h][2]} for h in order},
          "difficulty": int(ConditionId.DIFFICULTY_LEVEL)}
    f2 = os.path.join(outdir_json, "presentation.json")
    write_if_changed(f2, json.dumps(js, indent=1, sort_keys=True) + "\n")
    return [f1, f2]
