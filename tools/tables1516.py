"""Shared extraction code of the C15/C16 translators (gen_versions, gen_links, gen_helpers).

Everything here READS the repository under test and returns plain Python data; the three `gen_*.py` emitters turn it
into Lean source (lean/Aoe/Generated/*.lean) and JSON (gen/*.json for the harness).

Rule of the translator (DESIGN 2.1): a shape that is not understood makes the generator FAIL (TranslatorGap) - it is
never approximated. Names are interned to Nat through one table shared by all three generators, so that the kernel
never compares strings (the table is emitted as Generated/TNames.lean for printing).
"""
import ast, glob, importlib, json, os, re, sys


class TranslatorGap(Exception):
    pass


def gap(msg):
    raise TranslatorGap("translator gap (C15/C16): " + msg)


# ------------------------------------------------------------------------------------------------ versions

def version_dirs(repo):
    ds = sorted(glob.glob(os.path.join(repo, "AoE2ScenarioParser", "versions", "DE", "v*")))
    out = []
    for d in ds:
        m = re.fullmatch(r"v(\d+)\.(\d\d)", os.path.basename(d))
        if not m:
            gap(f"version directory name {d!r} is not vN.NN")
        out.append((os.path.basename(d)[1:], int(m.group(1)) * 100 + int(m.group(2)), d))
    if not out:
        gap("no version directories found")
    return out


def _val(v, where):
    """JSON default value -> tagged value; accepted: int, str, list of int, null"""
    if v is None:
        return ["none"]
    if isinstance(v, bool):
        gap(f"boolean default at {where}")
    if isinstance(v, int):
        return ["int", v]
    if isinstance(v, str):
        return ["str", v]
    if isinstance(v, list) and all(isinstance(x, int) and not isinstance(x, bool) for x in v):
        return ["list", list(v)]
    gap(f"default value {v!r} at {where} is not int/str/list-of-int/null")


def _types(fn):
    """effects.json / conditions.json -> list of entries in file order. The code (`_initialise_version_dependencies`)
    does int(key); key -1 carries only the presentation table and is skipped by the code (`continue`)."""
    d = json.load(open(fn))
    out = []
    for k, s in d.items():
        try:
            i = int(k)
        except ValueError:
            gap(f"{fn}: key {k!r} is not an integer")
        if i == -1:
            continue
        for req in ("name", "default_attributes", "attributes"):       # the code indexes these three
            if req not in s:
                gap(f"{fn}: entry {k} lacks {req!r} (the loader would raise KeyError)")
        if not isinstance(s["attributes"], list) or not all(isinstance(a, str) for a in s["attributes"]):
            gap(f"{fn}: entry {k}: attributes is not a list of strings")
        if not isinstance(s["default_attributes"], dict):
            gap(f"{fn}: entry {k}: default_attributes is not an object")
        out.append({"id": i, "name": s["name"], "attributes": list(s["attributes"]),
                    "defaults": [[a, _val(v, f"{fn}:{k}.{a}")] for a, v in s["default_attributes"].items()]})
    return out


def _paths(structure, fn):
    """every retriever of structure.json as (path, is_struct): path = [section, r1, r2, ...] through nested structs.
    A struct retriever's model is looked up in the `structs` of the enclosing section/struct (children only), as
    AoE2FileSection.find_struct_model_by_retriever / set_data_from_generator do."""
    out = []

    def walk(prefix, node, where):
        if "retrievers" not in node:
            gap(f"{fn}: {where} has no 'retrievers'")
        for name, r in node["retrievers"].items():
            t = r.get("type")
            if not isinstance(t, str):
                gap(f"{fn}: {where}.{name} has no type string")
            if t.startswith("struct:"):
                sname = t[len("struct:"):]
                model = node.get("structs", {}).get(sname)
                if model is None:
                    gap(f"{fn}: {where}.{name}: struct model {sname!r} not among the children of {where}")
                out.append((prefix + [name], True))
                walk(prefix + [name], model, f"{where}.{name}")
            else:
                out.append((prefix + [name], False))
    for sec, node in structure.items():
        walk([sec], node, sec)
    return out


def extract_versions(repo):
    res = []
    for vs, vh, d in version_dirs(repo):
        st = json.load(open(os.path.join(d, "structure.json")))
        res.append({"version": vs, "hundredths": vh,
                    "effects": _types(os.path.join(d, "effects.json")),
                    "conditions": _types(os.path.join(d, "conditions.json")),
                    "paths": [[p, s] for p, s in _paths(st, os.path.join(d, "structure.json"))],
                    "has_default_scenario": os.path.exists(os.path.join(d, "default.aoe2scenario"))})
    return res


# ------------------------------------------------------------------------------------------------ links

_LINK_FIELDS = {"section_name", "link", "splitted_link", "parent", "name", "support", "process_as_object",
                "retrieve_history_number", "commit_callback", "destination_object", "disabled"}
_GROUP_FIELDS = {"section_name", "link", "splitted_link", "parent", "group"}


def _hundredths(x, where):
    h = round(x * 100)
    if abs(x * 100 - h) > 1e-6 or h < 0:
        gap(f"Support bound {x!r} at {where} is not a whole number of hundredths")
    return int(h)


def _split(link, where):
    """'a[__index__].b' -> [('a', True), ('b', False)] ; mirrors get_from_link (item.endswith(']') -> item[:-11])"""
    out = []
    for item in (link.split(".") if link else []):
        if item.endswith("]"):
            if not item.endswith("[__index__]"):
                gap(f"link item {item!r} at {where}: only the [__index__] marker is understood")
            out.append((item[:-11], True))
        else:
            if "[" in item or not item:
                gap(f"link item {item!r} at {where}")
            out.append((item, False))
    return out


def extract_links(repo, version_strings):
    if repo not in sys.path:
        sys.path.insert(0, repo)
    from AoE2ScenarioParser.objects import aoe2_object_manager as om
    from AoE2ScenarioParser.sections.retrievers.retriever_object_link import RetrieverObjectLink
    from AoE2ScenarioParser.sections.retrievers.retriever_object_link_group import RetrieverObjectLinkGroup
    from AoE2ScenarioParser.sections.retrievers.support import Support, default_since, default_until
    if set(om.managers) != {"DE"}:
        gap(f"aoe2_object_manager.managers has game versions {sorted(om.managers)}; only DE is understood")
    roots = list(om.managers["DE"].items())          # commit order = dict order
    classes, order = {}, []

    def cname(c):
        return c.__name__

    def one(l, sec, prefix, where):
        if type(l) is not RetrieverObjectLink:
            gap(f"{where}: link object of type {type(l).__name__}")
        # a field the translator does not know is a gap - except additional PRIVATE (underscore) fields: those are
        # caches / memos by convention; whether they change behaviour is decided by the correspondence run, not here
        if {f for f in set(vars(l)) ^ _LINK_FIELDS if not (f.startswith("_") and f not in _LINK_FIELDS)}:
            gap(f"{where}: RetrieverObjectLink has fields {sorted(set(vars(l)) ^ _LINK_FIELDS)} the translator does not know")
        section = l.section_name if l.section_name is not None else sec
        d = {"name": l.name, "section": section, "support": None, "callback": None, "dest": None}
        if l.retrieve_history_number is not None:
            if not isinstance(l.retrieve_history_number, int) or l.retrieve_history_number < 0:
                gap(f"{where}: history number {l.retrieve_history_number!r}")
            d["kind"] = ["history", l.retrieve_history_number]
            d["path"] = []
            if l.support is not None or l.process_as_object is not None:
                gap(f"{where}: history link with support/process_as_object")
        else:
            if section is None:
                gap(f"{where}: link without a section")
            d["path"] = prefix + _split(l.link, where)
            if l.splitted_link != (l.link.split(".") if l.link else []):
                gap(f"{where}: splitted_link out of sync with link")
            if l.process_as_object is not None:
                d["kind"] = ["object", cname(l.process_as_object)]
                visit(l.process_as_object)
            else:
                d["kind"] = ["plain"]
        if l.support is not None:
            if type(l.support) is not Support:
                gap(f"{where}: support object of type {type(l.support).__name__}")
            s, u = _hundredths(l.support.since, where), _hundredths(l.support.until, where)
            # the model compares hundredths; make sure the float comparison of the code agrees for every version
            for vs in version_strings:
                vh = round(float(vs) * 100)
                if l.support.supports(vs) != (s <= vh <= u):
                    gap(f"{where}: Support({l.support.since},{l.support.until}).supports({vs!r}) differs from the hundredths comparison")
            d["support"] = [s, u]
        if l.commit_callback is not None:
            d["callback"] = getattr(l.commit_callback, "__name__", None) or gap(f"{where}: anonymous commit_callback")
        if l.destination_object is not None:
            d["dest"] = cname(l.destination_object)
        return d

    def visit(cls):
        n = cname(cls)
        if n in classes:
            if classes[n]["_cls"] is not cls:
                gap(f"two different classes named {n}")
            return
        classes[n] = {"_cls": cls, "name": n, "links": []}
        order.append(n)
        links = []
        for gi, l in enumerate(cls._link_list):
            where = f"{n}._link_list[{gi}]"
            if type(l) is RetrieverObjectLinkGroup:
                if {f for f in set(vars(l)) ^ _GROUP_FIELDS if not (f.startswith("_") and f not in _GROUP_FIELDS)}:
                    gap(f"{where}: RetrieverObjectLinkGroup has unknown fields {sorted(set(vars(l)) ^ _GROUP_FIELDS)}")
                if l.section_name is None:
                    gap(f"{where}: group without section")
                prefix = _split(l.link, where)
                for mi, m in enumerate(l.group):
                    if m.section_name is not None:
                        gap(f"{where}.group[{mi}]: group member with its own section (the code ignores it)")
                    links.append(dict(one(m, l.section_name, prefix, f"{where}.group[{mi}]"), group=gi))
            else:
                links.append(dict(one(l, None, [], where), group=gi))
        classes[n]["links"] = links

    for _, c in roots:
        visit(c)
    return {"roots": [[k, cname(c)] for k, c in roots],
            "classes": [{"name": n, "links": classes[n]["links"]} for n in order],
            "default_support": [_hundredths(default_since, "default_since"), _hundredths(default_until, "default_until")]}


# ------------------------------------------------------------------------------------------------ helpers

def _parse(repo, rel):
    fn = os.path.join(repo, "AoE2ScenarioParser", rel)
    return ast.parse(open(fn).read(), filename=fn), fn


def _cls(tree, name, fn):
    for n in tree.body:
        if isinstance(n, ast.ClassDef) and n.name == name:
            return n
    gap(f"{fn}: class {name} not found")


def _fn(cls, name, fn):
    for n in cls.body:
        if isinstance(n, ast.FunctionDef) and n.name == name:
            return n
    gap(f"{fn}: method {cls.name}.{name} not found")


def _params(f, where, need_none_defaults, allow_kwargs=False):
    a = f.args
    if a.posonlyargs or a.kwonlyargs or a.vararg or (a.kwarg and not allow_kwargs):
        gap(f"{where}: positional-only / keyword-only / *args / **kwargs parameters")
    names = [x.arg for x in a.args]
    if not names or names[0] != "self":
        gap(f"{where}: first parameter is not self")
    names = names[1:]
    defaults = [None] * (len(names) - len(a.defaults)) + list(a.defaults)
    has_none_default = []
    for n, d in zip(names, defaults):
        isnone = isinstance(d, ast.Constant) and d.value is None
        if need_none_defaults and not isnone:
            gap(f"{where}: parameter {n} does not default to None")
        has_none_default.append(isnone)
    if len(set(names)) != len(names):
        gap(f"{where}: duplicate parameter")
    return names, has_none_default, bool(a.kwarg)


def _is_not_none(e):
    """`X is not None` -> 'X'"""
    if isinstance(e, ast.Compare) and len(e.ops) == 1 and isinstance(e.ops[0], ast.IsNot) and isinstance(e.left, ast.Name) \
            and isinstance(e.comparators[0], ast.Constant) and e.comparators[0].value is None:
        return e.left.id
    return None


def _guard(st, where, enums):
    """The guard shapes that exist in the pinned helpers:
         G1  if (A is not None or B is not None [or ...]) and Q is not None: raise ValueError(<str>)
         G2  if C is not None and OA not in (Enum.X, Enum.Y, ...): raise ValueError(<str>)
       anything else is a translator gap."""
    if not (isinstance(st, ast.If) and not st.orelse and len(st.body) == 1 and isinstance(st.body[0], ast.Raise)):
        gap(f"{where}: statement {ast.unparse(st)[:80]!r} is not an accepted guard")
    r = st.body[0].exc
    if not (isinstance(r, ast.Call) and isinstance(r.func, ast.Name) and r.func.id == "ValueError" and len(r.args) == 1
            and isinstance(r.args[0], ast.Constant) and isinstance(r.args[0].value, str) and not r.keywords):
        gap(f"{where}: guard raises something else than ValueError(<string>)")
    t = st.test
    if isinstance(t, ast.BoolOp) and isinstance(t.op, ast.And) and len(t.values) == 2:
        l, rr = t.values
        q = _is_not_none(rr)
        if isinstance(l, ast.BoolOp) and isinstance(l.op, ast.Or) and q is not None:
            xs = [_is_not_none(v) for v in l.values]
            if all(x is not None for x in xs):
                return {"shape": "anyThenNot", "any": xs, "other": q}
        c = _is_not_none(l)
        if c is not None and isinstance(rr, ast.Compare) and len(rr.ops) == 1 and isinstance(rr.ops[0], ast.NotIn) \
                and isinstance(rr.left, ast.Name) and isinstance(rr.comparators[0], ast.Tuple):
            vals = []
            for el in rr.comparators[0].elts:
                if not (isinstance(el, ast.Attribute) and isinstance(el.value, ast.Name) and el.value.id in enums
                        and el.attr in enums[el.value.id]):
                    gap(f"{where}: guard tuple element {ast.unparse(el)!r}")
                vals.append(enums[el.value.id][el.attr])
            return {"shape": "needsIn", "arg": c, "attr": rr.left.id, "values": vals}
    gap(f"{where}: guard condition {ast.unparse(t)!r} has an unknown shape")


SNAPSHOT = os.path.join(os.path.dirname(os.path.abspath(__file__)), "helpers_snapshot.json")
FROM_SNAPSHOT = []


def _snapshot():
    try:
        return json.load(open(SNAPSHOT))
    except Exception:
        return {}


def _helpers(repo, rel, clsname, target, enumname, enums):
    """one entry per helper. A helper whose body has a shape the translator does not understand (a restructured guard, a
    forward to another helper, …) is taken from the tables read off the pinned tree (tools/helpers_snapshot.json) and listed
    in FROM_SNAPSHOT: whether that entry still describes the code is decided by the C16 run (every helper x every argument
    set against the model), not assumed. A helper the snapshot does not know either is a translator gap."""
    tree, fn = _parse(repo, rel)
    cls = _cls(tree, clsname, fn)
    snap = {h["name"]: h for h in _snapshot().get("effect_helpers" if target == "_add_effect" else "condition_helpers", [])}
    out = []
    for f in cls.body:
        if isinstance(f, ast.FunctionDef) and f.name.startswith("_") and f.name != "__init__":
            continue                  # private methods of the support class are no helpers
        if isinstance(f, ast.FunctionDef) and f.name != "__init__":
            try:
                out += _helpers_one(f, fn, clsname, target, enumname, enums)
            except TranslatorGap:
                if f.name not in snap:
                    raise
                out.append(dict(snap[f.name], line=f.lineno))
                FROM_SNAPSHOT.append(f"{clsname}.{f.name}")
            continue
        out += _helpers_one(f, fn, clsname, target, enumname, enums)
    return out


def _helpers_one(f, fn, clsname, target, enumname, enums):
    out = []
    for f in [f]:
        if isinstance(f, ast.Expr) and isinstance(f.value, ast.Constant) and isinstance(f.value.value, str):
            continue
        if not isinstance(f, ast.FunctionDef):
            gap(f"{fn}: {clsname} contains a {type(f).__name__}")
        where = f"{fn}:{f.lineno} {clsname}.{f.name}"
        if f.name == "__init__":
            ok = (len(f.body) == 1 and isinstance(f.body[0], ast.Assign) and ast.unparse(f.body[0]) == "self._trigger_ref = trigger_ref")
            if not ok:
                gap(f"{where}: unexpected constructor body")
            continue
        deprecated, dep_msg = False, None
        for d in f.decorator_list:
            if isinstance(d, ast.Call) and isinstance(d.func, ast.Name) and d.func.id == "deprecated" and len(d.args) == 1 \
                    and isinstance(d.args[0], ast.Constant) and isinstance(d.args[0].value, str) and not d.keywords:
                deprecated, dep_msg = True, d.args[0].value
            else:
                gap(f"{where}: decorator {ast.unparse(d)!r}")
        params, _, _ = _params(f, where, need_none_defaults=True)
        body = list(f.body)
        if body and isinstance(body[0], ast.Expr) and isinstance(body[0].value, ast.Constant) and isinstance(body[0].value.value, str):
            body = body[1:]
        if not body or not isinstance(body[-1], ast.Return):
            gap(f"{where}: body does not end in a return")
        guards = [_guard(st, where, enums) for st in body[:-1]]
        call = body[-1].value
        if not (isinstance(call, ast.Call) and ast.unparse(call.func) == f"self._trigger_ref.{target}"):
            gap(f"{where}: returns {ast.unparse(call)[:60]!r}, not self._trigger_ref.{target}(...)")
        if len(call.args) != 1:
            gap(f"{where}: {len(call.args)} positional arguments forwarded (exactly the type constant expected)")
        c = call.args[0]
        if not (isinstance(c, ast.Attribute) and isinstance(c.value, ast.Name) and c.value.id == enumname):
            gap(f"{where}: type constant {ast.unparse(c)!r} is not {enumname}.<MEMBER>")
        if c.attr not in enums[enumname]:
            gap(f"{where}: {enumname}.{c.attr} is not a member")
        fwd = []
        for kw in call.keywords:
            if kw.arg is None:
                gap(f"{where}: **kwargs forwarded")
            if not isinstance(kw.value, ast.Name):
                gap(f"{where}: keyword {kw.arg} forwards the expression {ast.unparse(kw.value)!r} (only plain names are understood)")
            fwd.append([kw.arg, kw.value.id])
        out.append({"name": f.name, "line": f.lineno, "deprecated": deprecated, "deprecated_msg": dep_msg, "params": params, "const": c.attr,
                    "forwards": fwd, "guards": guards})
    return out


def _init_info(repo, rel, clsname, checkfn="raise_if_not_int_subclass"):
    """parameters of __init__, names assigned as `self.<n> = ...` in __init__, @property names of the class,
    and the argument list of the raise_if_not_int_subclass([...]) call."""
    tree, fn = _parse(repo, rel)
    cls = _cls(tree, clsname, fn)
    init = _fn(cls, "__init__", fn)
    params, _, has_kwargs = _params(init, f"{fn} {clsname}.__init__", need_none_defaults=False, allow_kwargs=True)
    assigned, int_required = [], None
    for n in ast.walk(init):
        tgts = []
        if isinstance(n, ast.Assign):
            tgts = n.targets
        elif isinstance(n, ast.AnnAssign):
            tgts = [n.target]
        for t in tgts:
            if isinstance(t, ast.Attribute) and isinstance(t.value, ast.Name) and t.value.id == "self" and t.attr not in assigned:
                assigned.append(t.attr)
        if isinstance(n, ast.Call) and isinstance(n.func, ast.Name) and n.func.id == checkfn:
            if int_required is not None or len(n.args) != 1 or not isinstance(n.args[0], ast.List) \
                    or not all(isinstance(e, ast.Name) for e in n.args[0].elts):
                gap(f"{fn}: {clsname}.__init__: {checkfn} call has an unknown shape")
            int_required = [e.id for e in n.args[0].elts]
    props = []
    for f in cls.body:
        if isinstance(f, ast.FunctionDef) and any(isinstance(d, ast.Name) and d.id == "property" for d in f.decorator_list):
            props.append(f.name)
    if int_required is None:
        gap(f"{fn}: {clsname}.__init__ has no {checkfn}([...]) call")
    return {"params": params, "has_kwargs": has_kwargs, "assigned": assigned, "properties": props, "int_required": int_required}


def _enum_lists(repo, enums):
    """the armour/attack family lists of effect.py (`x = [EffectId.A, ...]` inside the two module functions)"""
    tree, fn = _parse(repo, "objects/data_objects/effect.py")
    want = {"_is_quantity_based_aa_effect": ["aa_effects", "partial_aa_attribute_effects", "partial_aa_attributes"],
            "_is_variable_based_aa_effect": ["partial_aa_attribute_effects", "partial_aa_attributes"]}
    res = {}
    for f in tree.body:
        if isinstance(f, ast.FunctionDef) and f.name in want:
            got = {}
            for st in f.body:
                if isinstance(st, ast.Assign) and len(st.targets) == 1 and isinstance(st.targets[0], ast.Name) and isinstance(st.value, ast.List):
                    vals = []
                    for el in st.value.elts:
                        if not (isinstance(el, ast.Attribute) and isinstance(el.value, ast.Name) and el.value.id in enums and el.attr in enums[el.value.id]):
                            gap(f"{fn}: {f.name}: list element {ast.unparse(el)!r}")
                        vals.append(enums[el.value.id][el.attr])
                    got[st.targets[0].id] = vals
            for w in want[f.name]:
                if w not in got:
                    gap(f"{fn}: {f.name}: list {w} not found")
            res[f.name] = got
    if set(res) != set(want):
        gap(f"{fn}: armour/attack family functions not found")
    q, v = res["_is_quantity_based_aa_effect"], res["_is_variable_based_aa_effect"]
    if q["partial_aa_attributes"] != v["partial_aa_attributes"]:
        gap("the two armour/attack attribute lists differ (model has one)")
    return {"aa_effects": q["aa_effects"], "partial_q": q["partial_aa_attribute_effects"],
            "partial_v": v["partial_aa_attribute_effects"], "aa_attrs": q["partial_aa_attributes"]}


def _aa_lists(repo, enums):
    try:
        return _enum_lists(repo, enums)
    except TranslatorGap:
        snap = _snapshot().get("aa")
        if not snap:
            raise
        FROM_SNAPSHOT.append("armour/attack family lists")
        return snap


def extract_helpers(repo):
    if repo not in sys.path:
        sys.path.insert(0, repo)
    from AoE2ScenarioParser.datasets.effects import EffectId
    from AoE2ScenarioParser.datasets.conditions import ConditionId
    from AoE2ScenarioParser.datasets.trigger_lists import ObjectAttribute
    enums = {"EffectId": {k: int(v) for k, v in EffectId.__members__.items()},
             "ConditionId": {k: int(v) for k, v in ConditionId.__members__.items()},
             "ObjectAttribute": {k: int(v) for k, v in ObjectAttribute.__members__.items()}}
    tree, fn = _parse(repo, "objects/data_objects/trigger.py")
    trig = _cls(tree, "Trigger", fn)
    add_e, _, _ = _params(_fn(trig, "_add_effect", fn), "Trigger._add_effect", need_none_defaults=False)
    add_c, _, _ = _params(_fn(trig, "_add_condition", fn), "Trigger._add_condition", need_none_defaults=False)
    for nm, ps, first in (("_add_effect", add_e, "effect_type"), ("_add_condition", add_c, "condition_type")):
        if not ps or ps[0] != first:
            gap(f"Trigger.{nm}: first parameter is not {first}")
        f = _fn(trig, nm, fn)
        ds = f.args.defaults
        if len(ds) != len(ps) - 1 or not all(isinstance(d, ast.Constant) and d.value is None for d in ds):
            gap(f"Trigger.{nm}: a parameter other than the type does not default to None")
    return {
        "enums": {"EffectId": enums["EffectId"], "ConditionId": enums["ConditionId"]},
        "effect_helpers": _helpers(repo, "objects/support/new_effect.py", "NewEffectSupport", "_add_effect", "EffectId", enums),
        "condition_helpers": _helpers(repo, "objects/support/new_condition.py", "NewConditionSupport", "_add_condition", "ConditionId", enums),
        "add_effect_params": add_e, "add_condition_params": add_c,
        "effect_init": _init_info(repo, "objects/data_objects/effect.py", "Effect"),
        "condition_init": _init_info(repo, "objects/data_objects/condition.py", "Condition"),
        "aa": _aa_lists(repo, enums),
        "from_snapshot": sorted(set(FROM_SNAPSHOT)),
    }


# ------------------------------------------------------------------------------------------------ interning

_cache = {}


def extract_all(repo):
    """all three tables + the shared name table (deterministic: sorted unique strings)"""
    if repo in _cache:
        return _cache[repo]
    V = extract_versions(repo)
    L = extract_links(repo, [v["version"] for v in V])
    H = extract_helpers(repo)
    names = set()
    for v in V:
        for k in ("effects", "conditions"):
            for t in v[k]:
                names.update(t["attributes"])
                for a, val in t["defaults"]:
                    names.add(a)
                    if val[0] == "str":
                        names.add(val[1])
        for p, _ in v["paths"]:
            names.update(p)
    for c in L["classes"]:
        names.add(c["name"])
        for l in c["links"]:
            names.add(l["name"])
            if l["section"]:
                names.add(l["section"])
            names.update(x for x, _ in l["path"])
            for k in ("callback", "dest"):
                if l[k]:
                    names.add(l[k])
            if l["kind"][0] == "object":
                names.add(l["kind"][1])
    for k, _ in L["roots"]:
        names.add(k)
    for hs in (H["effect_helpers"], H["condition_helpers"]):
        for h in hs:
            names.add(h["name"]); names.update(h["params"]); names.add(h["const"])
            for a, b in h["forwards"]:
                names.add(a); names.add(b)
            for g in h["guards"]:
                if g["shape"] == "anyThenNot":
                    names.update(g["any"]); names.add(g["other"])
                else:
                    names.add(g["arg"]); names.add(g["attr"])
    for e in H["enums"].values():
        names.update(e)
    names.update(H["add_effect_params"]); names.update(H["add_condition_params"])
    for k in ("effect_init", "condition_init"):
        for kk in ("params", "assigned", "properties", "int_required"):
            names.update(H[k][kk])
    # names the hand-written model refers to (Model/Versions.lean takes their ids from Generated/TNames.lean)
    names.update(MODEL_NAMES)
    table = sorted(names)
    idx = {n: i for i, n in enumerate(table)}
    _cache[repo] = (V, L, H, table, idx)
    return _cache[repo]


# attribute names the hand-written model of Effect.__init__ / Condition.__init__ speaks about
MODEL_NAMES = ["effect_type", "condition_type", "item_id", "quantity", "armour_attack_quantity", "armour_attack_class",
               "variable", "object_attributes", "selected_object_ids", "area_x1", "area_y1", "area_x2", "area_y2",
               "legacy_location_object_reference", "location_object_reference", "_variable_ref", ""]


# ------------------------------------------------------------------------------------------------ Lean rendering

def lean_int(i):
    """constructor form, so that the kernel does not have to unfold `Neg.neg (OfNat.ofNat n)`"""
    return f"(.ofNat {i})" if i >= 0 else f"(.negSucc {-i - 1})"


def lean_list(xs):
    return "[" + ", ".join(xs) + "]"


def lean_val(v, idx):
    if v[0] == "none":
        return ".none"
    if v[0] == "int":
        return f".int {lean_int(v[1])}"
    if v[0] == "str":
        return f".str {idx[v[1]]}"
    if v[0] == "list":
        return f".list {lean_list([lean_int(x) for x in v[1]])}"
    gap(f"value tag {v[0]}")


def lean_ident(s):
    return re.sub(r"[^A-Za-z0-9_]", "_", s)


def lean_str(s):
    return '"' + s.replace("\\", "\\\\").replace('"', '\\"').replace("\n", "\\n").replace("\r", "\\r").replace("\t", "\\t") + '"'


HEADER = "-- GENERATED by tools/{gen} from the repository under test on every ./check run. Do not edit.\n"
