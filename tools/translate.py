#!/usr/bin/env python3
"""Translator: /repo -> lean/Aoe/Generated/*.lean (+ gen/*.json for the harness).

usage: translate.py --repo /repo <generator> [<generator> ...] | all
Each generator lives in tools/gen_<name>.py and exposes `generate(repo, outdir_lean, outdir_json) -> list of files`.
Files are written atomically and only when their content changed (so an unchanged repo costs a no-op lake build).
"""
import argparse, importlib, os, sys, glob
ROOT = os.path.dirname(os.path.dirname(os.path.abspath(__file__)))
sys.path.insert(0, os.path.join(ROOT, "tools"))


def write_if_changed(path, content):
    os.makedirs(os.path.dirname(path), exist_ok=True)
    if os.path.exists(path) and open(path).read() == content:
        return False
    tmp = path + ".tmp%d" % os.getpid()
    with open(tmp, "w") as f:
        f.write(content)
    os.replace(tmp, path)
    return True


def main():
    ap = argparse.ArgumentParser()
    ap.add_argument("--repo", default=os.environ.get("AOE2_REPO", "/repo"))
    ap.add_argument("gens", nargs="*")
    a = ap.parse_args()
    gens = a.gens
    if gens == ["all"] or not gens:
        gens = sorted(os.path.basename(f)[4:-3] for f in glob.glob(os.path.join(ROOT, "tools", "gen_*.py")))
    if a.repo not in sys.path:
        sys.path.insert(0, a.repo)
    for g in gens:
        mod = importlib.import_module("gen_" + g)
        files = mod.generate(a.repo, os.path.join(ROOT, "lean", "Aoe", "Generated"), os.path.join(ROOT, "gen"), write_if_changed)
        print(f"generated {g}: {len(files)} file(s)")


if __name__ == "__main__":
    main()
