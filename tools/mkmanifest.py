#!/usr/bin/env python3
"""Assemble /verif/MANIFEST.json from checks.d/*.json (one fragment per claimed property).
Properties without a fragment are listed under not_applicable with the reason kept in tools/not_claimed.json."""
import json, os, glob
ROOT = os.path.dirname(os.path.dirname(os.path.abspath(__file__)))
props = [json.loads(l)["id"] for l in open(os.path.join(ROOT, "properties.jsonl")) if l.strip()]
reasons = {}
nc = os.path.join(ROOT, "tools", "not_claimed.json")
if os.path.exists(nc):
    reasons = json.load(open(nc))
checks, na = [], []
for pid in props:
    fn = os.path.join(ROOT, "checks.d", pid + ".json")
    if not os.path.exists(fn):
        na.append({"property_id": pid, "reason": reasons.get(pid, "no check built yet for this property (machinery under construction; see DESIGN.md section 5 for the plan)")})
        continue
    c = json.load(open(fn))
    checks.append({
        "property_id": pid,
        "quick_cmd": f"./check {pid} --tier quick",
        "thorough_cmd": f"./check {pid} --tier thorough",
        "evidence_file": f"/verif/evidence/{pid}.json",
        "replay_cmd_template": f"./check {pid} --replay {{path}}",
        "engine": "lean4-proof+correspondence",
        "level_claimed": {"category": c.get("level", "proof"), "text": c["level_text"], "design_ref": c.get("design_ref", "5")},
        "level_note": "; ".join(c.get("trusted_base", []) + ["assumes: " + a for a in c.get("assumptions", [])]),
        "technique": c.get("technique", "Lean 4 proof + correspondence check"),
    })
m = {
    "version": 1,
    "setup_cmd": "PYTHONPATH=/repo PYTHONDONTWRITEBYTECODE=1 /venv/bin/python tools/translate.py --repo /repo all && (cd lean && lake build Aoe Driver " + " ".join(sorted({json.load(open(f)).get("driver") for f in glob.glob(os.path.join(ROOT, "checks.d", "*.json")) if json.load(open(f)).get("driver")})) + ")",
    "hooks": {"guard": "AOE2SP_VERIF", "enable": "no source hooks: the harness monkey-patches from its own process (AOE2SP_VERIF=1 is exported by ./check for completeness)",
              "baseline_off_cmd": "cd /repo && /venv/bin/python -m pytest -ra -q -p no:cacheprovider --timeout=900 --continue-on-collection-errors",
              "source_commits": [], "add_only": True},
    "engines": [{"name": "lean4-proof+correspondence", "path": "/verif/check",
                 "serves_properties": [c["property_id"] for c in checks],
                 "kind_free_text": "Lean 4 theorems about hand-written models and tables regenerated from /repo (lake build + per-theorem axiom audit), tied to the code by a differential correspondence run of compiled model drivers against the real library, with direct property oracles as the failing-input search"}],
    "checks": checks,
    "not_applicable": na,
    "notes": "Every check: ./check <id> --tier quick|thorough. Exit 0 pass / 1 VIOLATION / 2 machinery failure. Known findings: known_findings.json.",
}
json.dump(m, open(os.path.join(ROOT, "MANIFEST.json"), "w"), indent=1)
print(f"MANIFEST.json: {len(checks)} checks, {len(na)} not claimed")
