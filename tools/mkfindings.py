#!/usr/bin/env python3
"""Assemble /verif/known_findings.json from known_findings.d/*.json (one fragment per property).
The assembled file is the committed known-findings file the checks read; nothing is added at run time."""
import json, os, glob
ROOT = os.path.dirname(os.path.dirname(os.path.abspath(__file__)))
out = {"findings": [], "fixed": []}
for fn in sorted(glob.glob(os.path.join(ROOT, "known_findings.d", "*.json"))):
    d = json.load(open(fn))
    out["findings"] += d.get("findings", [])
    out["fixed"] += d.get("fixed", [])
json.dump(out, open(os.path.join(ROOT, "known_findings.json"), "w"), indent=1)
print(f"known_findings.json: {len(out['findings'])} finding(s), {len(out['fixed'])} fixed")
