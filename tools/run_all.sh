#!/bin/bash
# Re-run every registered check (quick tier) on the real tree, in parallel, and report; evidence files are rewritten.
cd "$(dirname "$0")/.."
tier=${1:-quick}
ids=$(ls checks.d/*.json | xargs -n1 basename | sed 's/.json//')
mkdir -p out/runall
for id in $ids; do
  ( ./check $id --tier $tier > out/runall/$id.log 2>&1; echo "$id rc=$? $(grep -c '^VIOLATION' out/runall/$id.log) violation(s) $(grep -c '^KNOWN-FINDING' out/runall/$id.log) known $(grep -o 'wall=[0-9.]*s' out/runall/$id.log | tail -1)" ) &
  # the Lean build is serialised by a lock; harnesses run in parallel
  sleep 1
done
wait
