"""Generator: the `_link_list` declarations of the library's object classes  ->  lean/Aoe/Generated/M1xx.lean (+ MgrTables.lean,
gen/mgr.json): per scenario version the class table the commit/construct engine (Aoe/Model/Commit.lean) interprets.

The classes are imported (PYTHONPATH = repo) and their RetrieverObjectLink / RetrieverObjectLinkGroup objects walked - they are
declarative data. Groups are flattened in declaration order; every link path is resolved against the version's structure.json
to positions (section index, retriever indices, index-history positions); links whose `Support` excludes the version become
`.skip`; the `on_commit` dependencies of the retriever a link pushes to are resolved to refresh actions (target retriever +
its `on_refresh SET_VALUE` eval). Anything the engine does not model makes the generator FAIL.
"""
import ast, glob, json, os, re, sys

sys.path.insert(0, os.path.dirname(os.path.abspath(__file__)))
import gen_structure as GS

Gap = GS.Gap


def flatten(cls):
    from AoE2ScenarioParser.sections.retrievers.retriever_object_link_group import RetrieverObjectLinkGroup
    out = []
    for l in cls._link_list:
        if isinstance(l, RetrieverObjectLinkGroup):
            for m in l.group:
                if any(it.endswith("]") for it in m.splitted_link):
                    raise Gap(f"{cls.__name__}.{m.name}: indexed item inside a group member link")
                out.append((m, l.section_name, list(l.splitted_link), list(m.splitted_link), True))
        else:
            out.append((l, l.section_name, [], list(l.splitted_link), False))
    return out


class MgrGen:
    def __init__(self, repo, version, structure, names, attr_names, no_trail):
        self.repo, self.version, self.st, self.N = repo, version, structure, names
        self.secs = list(structure.keys())
        self.A = attr_names
        self.tr = GS.Translator(repo, names, no_trail)
        self.class_ids = {}
        self.class_defs = []
        self.meta = {}

    def names_of(self, defn):
        return [k for k in defn["retrievers"] if k != "__END_OF_FILE_MARK__"]

    def expr_commit(self, dep, defn):
        """translate a dependency eval for commit-time evaluation: self -> the record `defn`, Sec -> that section"""
        t = dep.get("target")
        tl = t if isinstance(t, list) else [t]
        env, order = {}, []
        for s in tl:
            sec, name = s.split(":")
            if sec == "self":
                ty = defn["retrievers"].get(name, {}).get("type")
                ref = f"(.self {self.N(name)})"
            else:
                if sec not in self.st:
                    raise Gap(f"unknown section in dependency target {s}")
                ty = self.st[sec]["retrievers"].get(name, {}).get("type")
                ref = f"(.sec {self.N(sec)} {self.N(name)})"
            if ty is None:
                raise Gap(f"dependency target {s} does not exist")
            kind = 'f' if ty.startswith('f') else ('s' if ty.startswith('str') or ty.startswith('c') else 'o')
            env[name] = (ref, kind); order.append(name)
        code = dep.get("eval")
        if code is None:
            return f"(.ref {env[order[0]][0]})"
        return self.tr.expr(ast.parse(code, mode="eval").body, env)

    def acts_of(self, r, defn, via_group, nested):
        deps = r.get("dependencies", {})
        oc = deps.get("on_commit")
        if oc is None:
            return []
        if isinstance(oc, list):
            raise Gap("list-valued on_commit")
        if nested and not via_group:
            raise Gap("on_commit of a nested retriever reached through a non-group link (the library passes the top-level section)")
        names = self.names_of(defn)
        acts = []
        if oc["action"] == "SET_VALUE":
            raise Gap("on_commit SET_VALUE on a manager-linked retriever")
        if oc["action"] != "REFRESH":
            raise Gap(f"on_commit action {oc['action']}")
        tg = oc["target"] if isinstance(oc["target"], list) else [oc["target"]]
        for t in tg:
            sec, name = t.split(":")
            tdefn = defn if sec == "self" else self.st[sec]
            tr = tdefn["retrievers"].get(name)
            if tr is None:
                raise Gap(f"refresh target {t} does not exist")
            orf = tr.get("dependencies", {}).get("on_refresh")
            if orf is None:
                continue
            if isinstance(orf, list):
                raise Gap(f"refresh target {t} has a list of on_refresh entries (AttributeError in the library)")
            if orf["action"] == "SET_REPEAT":
                continue
            if orf["action"] != "SET_VALUE":
                raise Gap(f"on_refresh action {orf['action']}")
            # NB: the eval's own targets are resolved relative to the record that holds the PUSHED retriever (`section` argument)
            e = self.expr_commit(orf, defn)
            if sec == "self":
                dest = f"(.self {names.index(name)})"
            else:
                dest = f"(.sec {self.secs.index(sec)} {self.names_of(self.st[sec]).index(name)})"
            acts.append(f"{{ dest := {dest}, expr := {e} }}")
        return acts

    def resolve(self, cls, link, section, gitems, mitems, via_group):
        """-> (lean path, defn of the record holding the final retriever, retriever dict, prefix, nested?)"""
        if section not in self.st:
            raise Gap(f"{cls.__name__}.{link.name}: section {section} not in version {self.version}")
        defn = self.st[section]
        prefix = section
        path = [f".fld {self.secs.index(section)}"]
        items = [(it, i) for i, it in enumerate(gitems)] + [(it, j) for j, it in enumerate(mitems)]
        nested = False
        for n, (item, hpos) in enumerate(items):
            indexed = item.endswith("]")
            name = item[:-11] if indexed else item
            names = self.names_of(defn)
            if name not in names:
                raise Gap(f"{cls.__name__}.{link.name}: no retriever {name!r} in {prefix} (version {self.version})")
            r = defn["retrievers"][name]
            path.append(f".fld {names.index(name)}")
            last = n == len(items) - 1
            if indexed:
                path.append(f".hidx {hpos}")
            if last:
                if indexed:
                    raise Gap(f"{cls.__name__}.{link.name}: link ends in an indexed item")
                return path, defn, r, prefix, nested
            if r["type"].startswith("struct:"):
                if not indexed:
                    raise Gap(f"{cls.__name__}.{link.name}: struct item {name} without index")
                sname = r["type"][7:]
                defn = defn["structs"][sname]
                prefix += "_" + sname
                nested = True
            elif indexed:
                # an indexed leaf list in the middle of a path cannot be followed further
                raise Gap(f"{cls.__name__}.{link.name}: path continues after leaf list {name}")
        raise Gap("empty link")

    def cls_id(self, cls):
        if cls in self.class_ids:
            return self.class_ids[cls]
        cid = len(self.class_ids)
        self.class_ids[cls] = cid
        self.class_defs.append(None)
        links, lmeta = [], []
        for (link, section, gitems, mitems, via_group) in flatten(cls):
            aid = self.A(link.name)
            if link.retrieve_history_number is not None:
                links.append(f"({aid}, .hist {link.retrieve_history_number})")
                lmeta.append({"name": link.name, "kind": "hist"})
                continue
            if link.support is not None and not link.support.supports(self.version):
                links.append(f"({aid}, .skip)")
                lmeta.append({"name": link.name, "kind": "skip"})
                continue
            path, defn, r, prefix, nested = self.resolve(cls, link, section, gitems, mitems, via_group)
            rec_names = "[" + ", ".join(str(self.N(k)) for k in self.names_of(defn)) + "]"
            acts = "[" + ", ".join(self.acts_of(r, defn, via_group, nested)) + "]"
            lpath = "[" + ", ".join(path) + "]"
            if link.process_as_object is not None:
                if not r["type"].startswith("struct:"):
                    raise Gap(f"{cls.__name__}.{link.name}: process_as_object on a non-struct retriever")
                sname = r["type"][7:]
                child = defn["structs"][sname]
                cprefix = prefix + "_" + sname
                cnames = self.names_of(child)
                guards = []
                for gi, cn in enumerate(cnames):
                    oc = child["retrievers"][cn].get("dependencies", {}).get("on_construct")
                    if isinstance(oc, dict) and oc["action"] == "SET_REPEAT":
                        guards.append(f"({gi}, {self.expr_commit(oc, child)})")
                ccid = self.cls_id(link.process_as_object)
                mod = "V" + self.version.replace(".", "")
                links.append(f"({aid}, .objs {lpath} {ccid} Aoe.Generated.{mod}.d_{cprefix} "
                             f"[{', '.join(str(self.N(k)) for k in cnames)}] [{', '.join(guards)}] {acts} {rec_names})")
                lmeta.append({"name": link.name, "kind": "objs", "cls": link.process_as_object.__name__, "callback": False})
            else:
                links.append(f"({aid}, .plain {lpath} {acts} {rec_names})")
                lmeta.append({"name": link.name, "kind": "plain", "callback": link.commit_callback is not None})
        self.plain_only = getattr(self, "plain_only", {})
        self.plain_only[cid] = all((" .hist " in l or l.endswith(".skip)") or (" .plain " in l and "] [] [" in l)) for l in links)
        # do the plain links address pairwise different retrievers? (mirrors Aoe.Props.Links.PDiverge)
        import re as _re
        paths = []
        for l in links:
            m_ = _re.search(r"\.plain \[([^\]]*)\]", l)
            if m_:
                paths.append([tuple(x.strip().lstrip(".").split()) for x in m_.group(1).split(",") if x.strip()])

        def pdiv(p_, q_):
            if not p_ or not q_:
                return False
            a_, b_ = p_[0], q_[0]
            if a_[0] == "fld" and b_[0] == "fld":
                return a_[1] != b_[1] or pdiv(p_[1:], q_[1:])
            if a_[0] == "hidx" and b_[0] == "hidx":
                return a_[1] == b_[1] and pdiv(p_[1:], q_[1:])
            return True
        self.paths_distinct = getattr(self, "paths_distinct", {})
        self.paths_distinct[cid] = all(pdiv(paths[i], paths[j]) and pdiv(paths[j], paths[i]) for i in range(len(paths)) for j in range(i + 1, len(paths)))
        self.class_defs[cid] = (cls.__name__, links)
        self.meta[cls.__name__] = {"id": cid, "links": lmeta}
        return cid


def generate(repo, outdir_lean, outdir_json, write_if_changed):
    if repo not in sys.path:
        sys.path.insert(0, repo)
    from AoE2ScenarioParser.objects.aoe2_object_manager import managers
    mgr_classes = list(managers["DE"].values())
    no_trail = GS.no_trail_names(repo)
    # the same name interning as gen_structure (sorted union of all names)
    names = GS.Names()
    allnames = set()
    structures = {}
    for vd in sorted(glob.glob(os.path.join(repo, "AoE2ScenarioParser", "versions", "DE", "v*"))):
        v = os.path.basename(vd)[1:]
        s = json.load(open(os.path.join(vd, "structure.json")))
        structures[v] = s

        def collect(rec):
            for k in rec["retrievers"]:
                allnames.add(k)
            for sn, x in rec.get("structs", {}).items():
                allnames.add(sn); collect(x)
        for sn, sec in s.items():
            allnames.add(sn); collect(sec)
    for n in sorted(allnames):
        names(n)
    attr_names = GS.Names()
    files, meta_all, mods = [], {}, []
    laws_src = []
    for v, s in structures.items():
        g = MgrGen(repo, v, s, names, attr_names, no_trail)
        mids = [g.cls_id(c) for c in mgr_classes]
        mod = "M" + v.replace(".", "")
        vmod = "V" + v.replace(".", "")
        src = [f"import Aoe.Model.Commit", f"import Aoe.Generated.{vmod}",
               f"/-! GENERATED by tools/gen_mgr.py from the `_link_list`s of the library's classes and versions/DE/v{v}/structure.json – do not edit. -/",
               "set_option maxRecDepth 100000", f"namespace Aoe.Generated.{mod}", "open Aoe Aoe.Codec Aoe.Commit", ""]
        for cid, (cname, links) in enumerate(g.class_defs):
            src.append(f"/-- {cname} -/\ndef c{cid} : ClassSpec := {{ name := {cid}, links := [\n  " + ",\n  ".join(links) + "] }\n")
        src.append("def classes : List ClassSpec := [" + ", ".join(f"c{i}" for i in range(len(g.class_defs))) + "]")
        src.append("def managers : List Nat := [" + ", ".join(str(i) for i in mids) + "]")
        secnames = ", ".join(f"({names(sn)}, [{', '.join(str(names(k)) for k in g.names_of(s[sn]))}])" for sn in g.secs)
        src.append(f"def secNames : List (Nat × List Nat) := [{secnames}]")
        src.append(f"\nend Aoe.Generated.{mod}\n")
        fn = os.path.join(outdir_lean, mod + ".lean")
        write_if_changed(fn, "\n".join(src)); files.append(fn)
        laws_src.append(f"/-! version {v} -/")
        for cid, (cname, links) in enumerate(g.class_defs):
            if g.plain_only.get(cid):
                laws_src.append(f"theorem plainOnly_{mod}_{cname} : Aoe.Props.Links.ClassSpec.plainOnly {mod}.c{cid} = true := by decide")
                laws_src.append(f"/-- committing exactly what was constructed leaves every section unchanged ({cname}, version {v}) -/\n"
                                f"theorem commit_construct_id_{mod}_{cname} (fuel : Nat) (hist : List Nat) (s : Sections) (obj : Val)\n"
                                f"    (h : constructObj {mod}.classes (fuel + 1) {cid} hist s = .ok obj) :\n"
                                f"    commitObj {mod}.classes (fuel + 1) {cid} hist obj s = .ok s :=\n"
                                f"  Aoe.Props.Links.commit_construct_id {mod}.classes fuel {cid} hist s obj {mod}.c{cid} rfl plainOnly_{mod}_{cname} h\n")
                if g.paths_distinct.get(cid):
                    laws_src.append(f"theorem pathsDistinct_{mod}_{cname} : Aoe.Props.Links.ClassSpec.pathsDistinct {mod}.c{cid}.links = true := by decide")
                    laws_src.append(f"/-- every value pushed by a commit of a {cname} (version {v}) is pulled back by the same link -/\n"
                                    f"theorem pull_after_commit_{mod}_{cname} (fuel : Nat) (hist : List Nat) (s s' : Sections) (vals : List Val)\n"
                                    f"    (h : commitObj {mod}.classes (fuel + 1) {cid} hist (.strct vals) s = .ok s')\n"
                                    f"    (rp : Nat → List Nat → Except Err Val) (a : Nat) (path : List PStep) (names : List Nat) (v : Val)\n"
                                    f"    (hm : ((a, LinkKind.plain path [] names), v) ∈ {mod}.c{cid}.links.zip vals) :\n"
                                    f"    pullLink rp hist s' (a, .plain path [] names) = .ok v :=\n"
                                    f"  Aoe.Props.Links.pull_after_commit {mod}.classes fuel {cid} hist s s' vals {mod}.c{cid} rfl plainOnly_{mod}_{cname}\n"
                                    f"    pathsDistinct_{mod}_{cname} h rp a path names v hm\n")
                    laws_src.append(f"/-- two commits of a {cname} (version {v}) from the same sections differ only inside the retrievers of its links -/\n"
                                    f"theorem edit_lands_{mod}_{cname} (fuel : Nat) (hist : List Nat) (s s1 s2 : Sections) (vals1 vals2 : List Val)\n"
                                    f"    (h1 : commitObj {mod}.classes (fuel + 1) {cid} hist (.strct vals1) s = .ok s1)\n"
                                    f"    (h2 : commitObj {mod}.classes (fuel + 1) {cid} hist (.strct vals2) s = .ok s2)\n"
                                    f"    (q : List Step)\n"
                                    f"    (hq : ∀ a path acts names p, (a, LinkKind.plain path acts names) ∈ {mod}.c{cid}.links → resolve hist path = some p →\n"
                                    f"      Aoe.Props.C05.Diverge p q) : getAt q s1.root = getAt q s2.root :=\n"
                                    f"  (Aoe.Props.Links.edit_lands_only_there {mod}.classes fuel {cid} hist s s1 s2 vals1 vals2 {mod}.c{cid} rfl\n"
                                    f"    plainOnly_{mod}_{cname} pathsDistinct_{mod}_{cname} h1 h2 (fun _ _ => .error .shape)).2 q hq\n")
        # every manager: construct after commit returns the (normalised) object - the whole class tree under it is `tableSafe`
        for mid in mids:
            cname = g.class_defs[mid][0]
            laws_src.append(f"theorem tableSafe_{mod}_{cname} : Aoe.Props.CommitHolds.tableSafe {mod}.classes 4 {mid} 0 = true := by decide")
            laws_src.append(f"/-- committing a {cname} (version {v}) and constructing it again from the resulting sections returns the object\n"
                            f"(index links read from the history, links the version lacks `None`), whatever its values and however many objects it holds -/\n"
                            f"theorem construct_after_commit_{mod}_{cname} (obj : Val) (s s' : Sections)\n"
                            f"    (hwf : Aoe.Props.CommitHolds.WF {mod}.classes 4 {mid} [] obj)\n"
                            f"    (h : commitObj {mod}.classes 4 {mid} [] obj s = .ok s') :\n"
                            f"    constructObj {mod}.classes 4 {mid} [] s' = .ok (Aoe.Props.CommitHolds.normalize {mod}.classes 4 {mid} [] obj) :=\n"
                            f"  Aoe.Props.CommitHolds.construct_after_commit {mod}.classes 4 {mid} [] obj s s' tableSafe_{mod}_{cname} hwf h\n")
            laws_src.append(f"theorem namesOk_{mod}_{cname} : Aoe.Props.CommitCounts.namesOk {mod}.classes 4 {mid} = true := by decide")
            laws_src.append(f"/-- after the commit of a {cname} (version {v}) every counted object list of its object tree, at every depth, is stored\n"
                            f"with a count equal to its number of objects (`Counts`), and with one record per object (`Holds`) -/\n"
                            f"theorem counts_after_commit_{mod}_{cname} (obj : Val) (s s' : Sections)\n"
                            f"    (h : commitObj {mod}.classes 4 {mid} [] obj s = .ok s') :\n"
                            f"    Aoe.Props.CommitCounts.Counts {mod}.classes 4 {mid} [] obj s'.root ∧\n"
                            f"    Aoe.Props.CommitHolds.Holds {mod}.classes 4 {mid} [] obj s'.root :=\n"
                            f"  ⟨Aoe.Props.CommitCounts.commit_counts {mod}.classes 4 {mid} [] obj s s' tableSafe_{mod}_{cname} namesOk_{mod}_{cname} h,\n"
                            f"   Aoe.Props.CommitHolds.commit_holds {mod}.classes 4 {mid} [] obj s s' tableSafe_{mod}_{cname} h⟩\n")
        # the whole reconstruct: what the sections hold of manager i after ALL managers were committed
        for i, mid in enumerate(mids):
            cname = g.class_defs[mid][0]
            later_ok = cname != "MapManagerDE"        # the Option manager writes two retrievers of the Map manager as well
            if not later_ok:
                continue
            laws_src.append(f"theorem mgrSafe_{mod}_{cname} : Aoe.Props.CommitAll.mgrSafe {mod}.classes {mod}.managers {i} = true := by decide")
            laws_src.append(f"/-- after a whole reconstruct of a version {v} scenario, constructing the {cname} again returns what was saved -/\n"
                            f"theorem construct_after_commitAll_{mod}_{cname} (objs : List Val) (s s' : Sections) (obj : Val)\n"
                            f"    (h : commitAll {mod}.classes {mod}.managers objs s = .ok s') (ho : objs[{i}]? = some obj)\n"
                            f"    (hwf : Aoe.Props.CommitHolds.WF {mod}.classes 4 {mid} [] obj) :\n"
                            f"    constructObj {mod}.classes 4 {mid} [] s' = .ok (Aoe.Props.CommitHolds.normalize {mod}.classes 4 {mid} [] obj) :=\n"
                            f"  Aoe.Props.CommitAll.construct_after_commitAll {mod}.classes {mod}.managers objs s s' h {i} mgrSafe_{mod}_{cname} {mid} obj rfl ho hwf\n")
            laws_src.append(f"theorem mgrSafeC_{mod}_{cname} : Aoe.Props.CommitAll.mgrSafeC {mod}.classes {mod}.managers {i} = true := by decide")
            laws_src.append(f"/-- after a whole reconstruct of a version {v} scenario every counted object list of the {cname}'s object tree is stored\n"
                            f"with one record per object and a count equal to the number of objects -/\n"
                            f"theorem counts_after_commitAll_{mod}_{cname} (objs : List Val) (s s' : Sections) (obj : Val)\n"
                            f"    (h : commitAll {mod}.classes {mod}.managers objs s = .ok s') (ho : objs[{i}]? = some obj) :\n"
                            f"    Aoe.Props.CommitCounts.Counts {mod}.classes 4 {mid} [] obj s'.root ∧\n"
                            f"    Aoe.Props.CommitHolds.Holds {mod}.classes 4 {mid} [] obj s'.root :=\n"
                            f"  ⟨Aoe.Props.CommitAll.commitAll_counts {mod}.classes {mod}.managers objs s s' h {i} mgrSafeC_{mod}_{cname} {mid} obj rfl ho,\n"
                            f"   Aoe.Props.CommitAll.commitAll_holds {mod}.classes {mod}.managers objs s s' h {i} mgrSafe_{mod}_{cname} {mid} obj rfl ho⟩\n")
        # every class: each plain link reads back what was pushed (side conditions by `decide`); depth = number of index steps
        for cid, (cname, links) in enumerate(g.class_defs):
            depth = max([m2.group(1).count(".hidx") for l2 in links for m2 in [re.search(r"\.(?:plain|objs) \[([^\]]*)\]", l2)] if m2] + [0])
            laws_src.append(f"theorem allPlainSafe_{mod}_{cname} : Aoe.Props.CommitFrame.allPlainSafe {mod}.classes 3 {mod}.c{cid} {depth} = true := by decide")
            laws_src.append(f"/-- after the commit of a {cname} (version {v}) the retriever of every plain link holds the value that was pushed through it -/\n"
                            f"theorem plain_values_{mod}_{cname} (hist : List Nat) (hh : hist.length = {depth}) (vals : List Val) (s s' : Sections)\n"
                            f"    (h : commitObj {mod}.classes 4 {cid} hist (.strct vals) s = .ok s')\n"
                            f"    (j a : Nat) (path : List PStep) (acts : List RefreshAct) (names : List Nat) (v : Val)\n"
                            f"    (hl : {mod}.c{cid}.links[j]? = some (a, .plain path acts names)) (hv : vals[j]? = some v)\n"
                            f"    (p : List Step) (hp : resolve hist path = some p) : getAt p s'.root = some v :=\n"
                            f"  Aoe.Props.CommitFrame.commit_plain_values {mod}.classes 3 {cid} hist vals s s' {mod}.c{cid} rfl h\n"
                            f"    (by rw [hh]; exact allPlainSafe_{mod}_{cname}) j a path acts names v hl hv p hp\n")
        # object-list links: the struct list ends up with as many records as there are objects (side conditions by `decide`)
        for cid, (cname, links) in enumerate(g.class_defs):
            for j, l in enumerate(links):
                m_ = re.search(r"\.objs \[([^\]]*)\]", l)
                if not m_:
                    continue
                depth = m_.group(1).count(".hidx")
                laws_src.append(f"theorem listSafe_{mod}_{cname}_{j} : Aoe.Props.CommitFrame.listSafe {mod}.classes 3 {mod}.c{cid} {depth} {j} = true := by decide")
                laws_src.append(f"/-- after the commit of a {cname} (version {v}) the struct list of its object-list link number {j} holds exactly as many\n"
                                f"records as the {cname} holds objects there -/\n"
                                f"theorem list_len_{mod}_{cname}_{j} (hist : List Nat) (hh : hist.length = {depth}) (vals : List Val) (s s' : Sections)\n"
                                f"    (h : commitObj {mod}.classes 4 {cid} hist (.strct vals) s = .ok s') (os : List Val) (hv : vals[{j}]? = some (.list os)) :\n"
                                f"    ∃ a path ccls defaults childNames guards acts names,\n"
                                f"      {mod}.c{cid}.links[{j}]? = some (a, .objs path ccls defaults childNames guards acts names) ∧\n"
                                f"      ∀ p, resolve hist path = some p → Aoe.Props.CommitFrame.ListLen p os.length s'.root :=\n"
                                f"  Aoe.Props.CommitFrame.commit_objs_len_of_safe {mod}.classes 3 {cid} hist vals s s' {mod}.c{cid} rfl h {j}\n"
                                f"    (by rw [hh]; exact listSafe_{mod}_{cname}_{j}) os hv\n")
                mc = re.search(r"\[\{ dest := \(\.self (\d+)\), expr := \(\.len \(\.ref \(\.self \d+\)\)\) \}\] \[", l)

                def _steps(txt):
                    return [tuple(x.strip().lstrip(".").split()) for x in txt.split(",") if x.strip()]

                def _pdiv(p_, q_):
                    if not p_ or not q_:
                        return False
                    a_, b_ = p_[0], q_[0]
                    if a_[0] == "fld" and b_[0] == "fld":
                        return a_[1] != b_[1] or _pdiv(p_[1:], q_[1:])
                    if a_[0] == "hidx" and b_[0] == "hidx":
                        return a_[1] == b_[1] and _pdiv(p_[1:], q_[1:])
                    return True
                # the count is only the number of objects at the END of the commit when no link that is pushed later (= declared
                # earlier) writes the count retriever itself (e.g. _PlayerUnits.unit_count is a link of its own: the object's value wins)
                own = None
                if mc:
                    cpath = _steps(m_.group(1))[:-1] + [("fld", mc.group(1))]
                    for j2, l2 in enumerate(links[:j]):
                        m2 = re.search(r"\.(?:plain|objs) \[([^\]]*)\]", l2)
                        if m2 and not _pdiv(_steps(m2.group(1)), cpath):
                            mc = None
                            if ".plain [" in l2 and _steps(m2.group(1)) == cpath:
                                own = j2
                            break
                # the count is a link of its own (`_PlayerUnits.unit_count`): what the object hands to that link is what is stored
                if own is not None:
                    laws_src.append(f"theorem tableSafeAt_{mod}_{cname} : Aoe.Props.CommitHolds.tableSafe {mod}.classes 4 {cid} {depth} = true := by decide")
                    laws_src.append(f"/-- the count of a {cname} (version {v}) is a link of its own (link {own}); when the object hands the number of its objects\n"
                                    f"to that link (`len(self.<list>)`), the stored count equals the number of stored records of link {j} -/\n"
                                    f"theorem own_count_{mod}_{cname}_{j} (hist : List Nat) (hh : hist.length = {depth}) (vals : List Val) (s s' : Sections)\n"
                                    f"    (h : commitObj {mod}.classes 4 {cid} hist (.strct vals) s = .ok s') (os : List Val)\n"
                                    f"    (hvc : vals[{own}]? = some (.int os.length)) (hvl : vals[{j}]? = some (.list os)) :\n"
                                    f"    ∃ nc pc ac namesc nl pl ccls d nm g al namesl p q,\n"
                                    f"      {mod}.c{cid}.links[{own}]? = some (nc, .plain pc ac namesc) ∧ {mod}.c{cid}.links[{j}]? = some (nl, .objs pl ccls d nm g al namesl) ∧\n"
                                    f"      resolve hist pc = some p ∧ resolve hist pl = some q ∧\n"
                                    f"      getAt p s'.root = some (.int os.length) ∧ Aoe.Props.CommitFrame.ListLen q os.length s'.root :=\n"
                                    f"  Aoe.Props.Hooks.count_link_of_table {mod}.classes 3 {cid} hist vals s s' {mod}.c{cid} {own} {j} os\n"
                                    f"    (by rw [hh]; exact tableSafeAt_{mod}_{cname}) h rfl (by decide) hvc hvl\n")
                if mc:
                    laws_src.append(f"theorem countSafe_{mod}_{cname}_{j} : Aoe.Props.CommitFrame.countSafe {mod}.classes 3 {mod}.c{cid} {depth} {j} = true := by decide")
                    laws_src.append(f"/-- after the commit of a {cname} (version {v}) the count retriever of its object-list link number {j} holds the number of objects -/\n"
                                    f"theorem count_{mod}_{cname}_{j} (hist : List Nat) (hh : hist.length = {depth}) (vals : List Val) (s s' : Sections)\n"
                                    f"    (h : commitObj {mod}.classes 4 {cid} hist (.strct vals) s = .ok s') (os : List Val) (hv : vals[{j}]? = some (.list os)) :\n"
                                    f"    ∃ a path ccls defaults childNames guards names ci nm,\n"
                                    f"      {mod}.c{cid}.links[{j}]? = some (a, .objs path ccls defaults childNames guards\n"
                                    f"        [{{ dest := .self ci, expr := .len (.ref (.self nm)) }}] names) ∧\n"
                                    f"      ∀ p, resolve hist path = some p → getAt (dropLastStep p ++ [Step.fld ci]) s'.root = some (.int os.length) :=\n"
                                    f"  Aoe.Props.CommitFrame.commit_objs_count_of_safe {mod}.classes 3 {cid} hist vals s s' {mod}.c{cid} rfl h {j}\n"
                                    f"    (by rw [hh]; exact countSafe_{mod}_{cname}_{j}) os hv\n")
        # the armour/attack slice of Effect: positions of the four links from the link names; side conditions by `decide`
        em = g.meta.get("Effect")
        if em:
            pos = {l["name"]: i for i, l in enumerate(em["links"])}
            need = ("effect_type", "object_attributes", "quantity", "_variable_ref")
            if all(n in pos and em["links"][pos[n]]["kind"] == "plain" for n in need) and \
                    all(l["kind"] in ("plain", "skip") for l in em["links"]):
                cid = em["id"]
                it, ia, iq, iv = (pos[n] for n in need)
                laws_src.append(f"def effSlots_{mod} : Aoe.Props.Hooks.Slots := {{ it := {it}, ia := {ia}, iq := {iq}, iv := {iv} }}")
                laws_src.append(f"theorem tableSafeAt_{mod}_Effect : Aoe.Props.CommitHolds.tableSafe {mod}.classes 4 {cid} 2 = true := by decide")
                laws_src.append(f"theorem allPlainSkip_{mod}_Effect : Aoe.Props.Hooks.allPlainSkip {mod}.c{cid} = true := by decide")
                laws_src.append(f"/-- set → save → load of an armour/attack effect (version {v}): class, amount / variable and every other link value come back\n"
                                f"from commit + construct, for every layout width `k`, every family table `f`, every effect of the domain -/\n"
                                f"theorem effect_roundtrip_{mod} (k : Nat) (f : Aoe.AA.Family) (hist : List Nat) (hh : hist.length = 2)\n"
                                f"    (o : Aoe.Props.Hooks.EffectObj) (ho : Aoe.Props.Hooks.EffDom k f effSlots_{mod} {mod}.c{cid}.links o) (s s' : Sections)\n"
                                f"    (h : commitObj {mod}.classes 4 {cid} hist (Aoe.Props.Hooks.effToVal k effSlots_{mod} o) s = .ok s') :\n"
                                f"    (constructObj {mod}.classes 4 {cid} hist s').toOption.bind (Aoe.Props.Hooks.effOfVal k f effSlots_{mod}) = some o :=\n"
                                f"  Aoe.Props.Hooks.effect_roundtrip k f effSlots_{mod} (by decide) {mod}.classes 3 {cid} hist {mod}.c{cid} rfl\n"
                                f"    allPlainSkip_{mod}_Effect (by decide) (by rw [hh]; exact tableSafeAt_{mod}_Effect) o ho s s' h\n")
                # ... and at full nesting, after the whole reconstruct: effect j of trigger i of the trigger manager
                tmn = next((n for n in g.meta if n.startswith("TriggerManager")), None)
                tr = g.meta.get("Trigger")
                if tmn and tr:
                    tm = g.meta[tmn]
                    jt = next((i for i, l in enumerate(tm["links"]) if l["name"] == "triggers"), None)
                    je = next((i for i, l in enumerate(tr["links"]) if l["name"] == "effects"), None)
                    mi = mids.index(tm["id"]) if tm["id"] in mids else None
                    if None not in (jt, je, mi):
                        H = "Aoe.Props.Hooks"
                        laws_src.append(f"/-- **an armour/attack effect survives the whole save** (version {v}): after ALL managers were committed, constructing the\n"
                                        f"{tmn} again returns an object tree in which effect `j` of trigger `i` decodes to the effect that was handed over -/\n"
                                        f"theorem effect_saved_{mod} (k : Nat) (f : Aoe.AA.Family) (objs : List Val) (s s' : Sections)\n"
                                        f"    (h : commitAll {mod}.classes {mod}.managers objs s = .ok s') (mvals tvals : List Val) (i j : Nat) (o : {H}.EffectObj)\n"
                                        f"    (hobj : objs[{mi}]? = some (.strct mvals)) (hwf : Aoe.Props.CommitHolds.WF {mod}.classes 4 {tm['id']} [] (.strct mvals))\n"
                                        f"    (hti : {H}.childAt (.strct mvals) {jt} i = some (.strct tvals))\n"
                                        f"    (hej : {H}.childAt (.strct tvals) {je} j = some ({H}.effToVal k effSlots_{mod} o))\n"
                                        f"    (ho : {H}.EffDom k f effSlots_{mod} {mod}.c{cid}.links o) :\n"
                                        f"    ∃ r t' e', constructObj {mod}.classes 4 {tm['id']} [] s' = .ok r ∧ {H}.childAt r {jt} i = some t' ∧\n"
                                        f"      {H}.childAt t' {je} j = some e' ∧ {H}.effOfVal k f effSlots_{mod} e' = some o := by\n"
                                        f"  obtain ⟨t', e', h1, h2, h3⟩ := {H}.effect_in_manager k f effSlots_{mod} (by decide) {mod}.classes 1 {tm['id']}\n"
                                        f"    {mod}.c{tm['id']} {mod}.c{tr['id']} {mod}.c{cid} {jt} {je} _ _ {tr['id']} {cid} _ _ _ _ _ _ _ _ _ _ _ _ rfl rfl rfl rfl rfl\n"
                                        f"    allPlainSkip_{mod}_Effect (by decide) mvals tvals i j o hti hej ho\n"
                                        f"  exact ⟨_, t', e', construct_after_commitAll_{mod}_{tmn} objs s s' _ h hobj hwf, h1, h2, h3⟩\n")
        # the map: width and height are links of their own next to the terrain list (whose refresh writes isqrt(len) first)
        for mname, mm in g.meta.items():
            pos = {l["name"]: i for i, l in enumerate(mm["links"])}
            if not all(n in pos for n in ("map_width", "map_height", "terrain")):
                continue
            cid = mm["id"]
            jw, jh, jl = pos["map_width"], pos["map_height"], pos["terrain"]
            laws_src.append(f"/-- the saved map of a {mname} (version {v}) is the square the manager holds: when it hands the side `n` to the width and\n"
                            f"height links and `n * n` tiles to the terrain link, the file stores width = height = n and exactly n * n terrain records -/\n"
                            f"theorem map_square_{mod}_{mname} (vals : List Val) (s s' : Sections)\n"
                            f"    (h : commitObj {mod}.classes 4 {cid} [] (.strct vals) s = .ok s') (n : Nat) (os : List Val)\n"
                            f"    (hw : vals[{jw}]? = some (.int n)) (hh : vals[{jh}]? = some (.int n)) (hl : vals[{jl}]? = some (.list os))\n"
                            f"    (hsq : os.length = n * n) :\n"
                            f"    (∃ a path acts names p, {mod}.c{cid}.links[{jw}]? = some (a, .plain path acts names) ∧ resolve [] path = some p ∧\n"
                            f"      getAt p s'.root = some (.int n)) ∧\n"
                            f"    (∃ a path acts names p, {mod}.c{cid}.links[{jh}]? = some (a, .plain path acts names) ∧ resolve [] path = some p ∧\n"
                            f"      getAt p s'.root = some (.int n)) ∧\n"
                            f"    (∃ a path ccls d nm g acts names q, {mod}.c{cid}.links[{jl}]? = some (a, .objs path ccls d nm g acts names) ∧\n"
                            f"      resolve [] path = some q ∧ Aoe.Props.CommitFrame.ListLen q (n * n) s'.root) :=\n"
                            f"  ⟨Aoe.Props.Hooks.plain_of_table {mod}.classes 3 {cid} [] vals s s' {mod}.c{cid} {jw} _ tableSafe_{mod}_{mname} h rfl (by decide) hw,\n"
                            f"   Aoe.Props.Hooks.plain_of_table {mod}.classes 3 {cid} [] vals s s' {mod}.c{cid} {jh} _ tableSafe_{mod}_{mname} h rfl (by decide) hh,\n"
                            f"   hsq ▸ Aoe.Props.Hooks.list_of_table {mod}.classes 3 {cid} [] vals s s' {mod}.c{cid} {jl} os tableSafe_{mod}_{mname} h rfl (by decide) hl⟩\n")
        mods.append((v, mod))
        meta_all[v] = {"classes": g.meta, "managers": [c.__name__ for c in mgr_classes]}
    agg = "\n".join(f"import Aoe.Generated.{m}" for _, m in mods) + "\n/-! GENERATED by tools/gen_mgr.py -/\nnamespace Aoe.Generated\nopen Aoe.Commit\n"
    agg += "def mgrOf (v : String) : Option (List ClassSpec × List Nat × List (Nat × List Nat)) :=\n"
    agg += "\n".join(f"  {'if' if i == 0 else 'else if'} v == \"{v}\" then some ({m}.classes, {m}.managers, {m}.secNames)" for i, (v, m) in enumerate(mods))
    agg += "\n  else none\nend Aoe.Generated\n"
    fn = os.path.join(outdir_lean, "MgrTables.lean"); write_if_changed(fn, agg); files.append(fn)
    laws = ("import Aoe.Props.Links\nimport Aoe.Props.CommitFrame\nimport Aoe.Props.CommitHolds\nimport Aoe.Props.CommitCounts\nimport Aoe.Props.CommitAll\nimport Aoe.Props.Hooks\nimport Aoe.Generated.MgrTables\n/-! GENERATED by tools/gen_mgr.py – `commit ∘ construct = id` instantiated at every generated class "
            "whose links are plain value links without refresh actions (side condition closed by `decide`). -/\n"
            "namespace Aoe.Generated.MgrLaws\nopen Aoe Aoe.Codec Aoe.Lens Aoe.Commit Aoe.Generated\n\n" + "\n".join(laws_src) + "\nend Aoe.Generated.MgrLaws\n")
    fn = os.path.join(outdir_lean, "MgrLaws.lean"); write_if_changed(fn, laws); files.append(fn)
    os.makedirs(outdir_json, exist_ok=True)
    fn = os.path.join(outdir_json, "mgr.json")
    write_if_changed(fn, json.dumps({"attr_names": [k for k, _ in sorted(attr_names.ids.items(), key=lambda kv: kv[1])], "versions": meta_all}))
    files.append(fn)
    return files
