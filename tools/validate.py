#!/usr/bin/env python3
"""python3-vt tools/validate.py  - validates MANIFEST.json and every evidence file against the schemas."""
import json, glob, sys, jsonschema
ok = True
try:
    jsonschema.validate(json.load(open('MANIFEST.json')), json.load(open('/root/.vp/MANIFEST.schema.json')))
except Exception as e:
    ok = False; print("MANIFEST invalid:", e)
for f in sorted(glob.glob('evidence/*.json')):
    try:
        jsonschema.validate(json.load(open(f)), json.load(open('/root/.vp/EVIDENCE.schema.json')))
    except Exception as e:
        ok = False; print(f, "invalid:", str(e)[:300])
print("all valid" if ok else "INVALID")
sys.exit(0 if ok else 1)
