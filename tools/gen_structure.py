"""Generator: versions/DE/v*/structure.json  ->  lean/Aoe/Generated/V1xx.lean (+ Names.lean, Tables.lean, gen/structure.json)

Every version table is emitted as a term of the codec combinators of Aoe/Model/Codec.lean, so the round-trip law holds
for it by construction. The translation mirrors how the library reads the JSON (Retriever.from_structure,
RetrieverDependency.from_structure, DataType / datatype_to_type_length, AoE2StructModel lookup by name among the
CHILD structs of the current record). Anything outside the whitelisted shapes makes the generator FAIL (never approximated).
"""
import ast, glob, json, os, re, struct, sys

NO_TRAIL_SRC = "AoE2ScenarioParser/helper/bytes_conversions.py"


class Gap(Exception):
    pass


def no_trail_names(repo):
    src = open(os.path.join(repo, NO_TRAIL_SRC)).read()
    tree = ast.parse(src)
    for node in ast.walk(tree):
        if isinstance(node, ast.Assign) and any(isinstance(t, ast.Name) and t.id == "_no_string_trail" for t in node.targets):
            return [ast.literal_eval(e) for e in node.value.elts]
    raise Gap("_no_string_trail not found")


def type_length(var):
    """datatype_to_type_length, transcribed"""
    if var[:7] == "struct:":
        return "struct", 0
    var_len = int(''.join(filter(str.isnumeric, var)))
    var_type = ''.join(filter(str.isalpha, var))
    if var_type == '':
        var_type = "data"
    if var_type not in ["s", "u", "f", "c", "str", "data"]:
        raise Gap(f"unknown variable type {var!r}")
    if var_type not in ["c", "data"]:
        var_len = int(var_len / 8)
    return var_type, var_len


class Names:
    def __init__(self):
        self.ids = {}

    def __call__(self, s):
        if s not in self.ids:
            self.ids[s] = len(self.ids)
        return self.ids[s]


def lean_bytes(b: bytes) -> str:
    if len(b) == 0:
        return "[]"
    # run-length for long constant runs
    if len(b) > 24 and len(set(b)) == 1:
        return f"(List.replicate {len(b)} {b[0]})"
    if len(b) > 64:
        runs, i = [], 0
        while i < len(b):
            j = i
            while j < len(b) and b[j] == b[i]:
                j += 1
            if j - i >= 16:
                runs.append(f"List.replicate {j - i} {b[i]}")
                i = j
            else:
                k = i
                lit = []
                while k < len(b):
                    # stop literal run when a long constant run starts
                    m = k
                    while m < len(b) and b[m] == b[k]:
                        m += 1
                    if m - k >= 16:
                        break
                    lit.append(b[k]); k += 1
                runs.append("[" + ", ".join(str(x) for x in lit) + "]")
                i = k
        return "(" + " ++ ".join(runs) + ")"
    return "[" + ", ".join(str(x) for x in b) + "]"


def lean_int(i):
    return f"({i})" if i < 0 else str(i)


def lean_float(f: float) -> str:
    bits = struct.unpack("<Q", struct.pack("<d", f))[0]
    return f"(Float.ofBits {bits})"


class Translator:
    def __init__(self, repo, names, no_trail):
        self.repo, self.N, self.no_trail = repo, names, no_trail

    # ---- eval strings -> Expr ----------------------------------------------------------------------
    def expr(self, node, env):
        """env: name -> (lean Ref term, kind) where kind in {'f','i','o'} (float typed / other)"""
        if isinstance(node, ast.Name):
            if node.id not in env:
                raise Gap(f"name {node.id!r} is not a dependency target")
            return f"(.ref {env[node.id][0]})"
        if isinstance(node, ast.Constant):
            v = node.value
            if isinstance(v, bool):
                raise Gap("bool constant")
            if isinstance(v, int):
                return f"(.lit {lean_int(v)})"
            if isinstance(v, float):
                return f"(.litF {lean_float(v)})"
            if isinstance(v, str):
                return f"(.litS {lean_bytes(v.encode('utf-8'))})"
            raise Gap(f"constant {v!r}")
        if isinstance(node, ast.UnaryOp) and isinstance(node.op, ast.USub) and isinstance(node.operand, ast.Constant) \
                and isinstance(node.operand.value, int) and not isinstance(node.operand.value, bool):
            return f"(.lit {lean_int(-node.operand.value)})"
        if isinstance(node, ast.Call):
            f = node.func
            if isinstance(f, ast.Name) and f.id == "len" and len(node.args) == 1:
                return f"(.len {self.expr(node.args[0], env)})"
            if isinstance(f, ast.Name) and f.id == "int" and len(node.args) == 1:
                a = node.args[0]
                if (isinstance(a, ast.Call) and isinstance(a.func, ast.Attribute) and a.func.attr == "sqrt"
                        and isinstance(a.func.value, ast.Name) and a.func.value.id == "math"
                        and isinstance(a.args[0], ast.Call) and isinstance(a.args[0].func, ast.Name) and a.args[0].func.id == "len"):
                    return f"(.isqrtLen {self.expr(a.args[0].args[0], env)})"
            raise Gap("call " + ast.dump(node))
        if isinstance(node, ast.BinOp):
            if isinstance(node.op, ast.Mult):
                return f"(.mul {self.expr(node.left, env)} {self.expr(node.right, env)})"
            if isinstance(node.op, ast.Add):
                # [len(x) for x in [a, b, ...]] + [0, 0, ...]
                l, r = node.left, node.right
                if (isinstance(l, ast.ListComp) and len(l.generators) == 1 and isinstance(l.elt, ast.Call)
                        and isinstance(l.elt.func, ast.Name) and l.elt.func.id == "len"
                        and isinstance(l.elt.args[0], ast.Name) and isinstance(l.generators[0].target, ast.Name)
                        and l.elt.args[0].id == l.generators[0].target.id and not l.generators[0].ifs
                        and isinstance(l.generators[0].iter, ast.List)
                        and isinstance(r, ast.List) and all(isinstance(e, ast.Constant) and e.value == 0 for e in r.elts)):
                    refs = []
                    for e in l.generators[0].iter.elts:
                        if not isinstance(e, ast.Name) or e.id not in env:
                            raise Gap("lens element " + ast.dump(e))
                        refs.append(env[e.id][0])
                    return f"(.lens [{', '.join(refs)}] {len(r.elts)})"
                if self.is_str(l, env) or self.is_str(r, env):
                    return f"(.cat {self.expr(l, env)} {self.expr(r, env)})"
            raise Gap("binop " + ast.dump(node))
        if isinstance(node, ast.Subscript):
            if isinstance(node.slice, ast.Constant) and isinstance(node.slice.value, int) and node.slice.value >= 0:
                return f"(.idx {self.expr(node.value, env)} {node.slice.value})"
            raise Gap("subscript " + ast.dump(node))
        if isinstance(node, ast.IfExp):
            return f"(.ite {self.cond(node.test, env)} {self.expr(node.body, env)} {self.expr(node.orelse, env)})"
        raise Gap("expression " + ast.dump(node))

    def is_str(self, node, env):
        if isinstance(node, ast.Constant) and isinstance(node.value, str):
            return True
        if isinstance(node, ast.Name) and node.id in env and env[node.id][1] == 's':
            return True
        if isinstance(node, ast.IfExp):
            return self.is_str(node.body, env) and self.is_str(node.orelse, env)
        return False

    def is_float(self, node, env):
        if isinstance(node, ast.Name) and node.id in env and env[node.id][1] == 'f':
            return True
        return False

    CMP = {ast.LtE: ".le", ast.GtE: ".ge", ast.Eq: ".eq", ast.NotEq: ".ne", ast.Gt: ".gt", ast.Lt: ".lt"}

    def cond(self, node, env):
        if isinstance(node, ast.Compare) and len(node.ops) == 1:
            op, l, r = node.ops[0], node.left, node.comparators[0]
            if isinstance(op, ast.Is):
                # type(x) is list
                if (isinstance(l, ast.Call) and isinstance(l.func, ast.Name) and l.func.id == "type"
                        and isinstance(r, ast.Name) and r.id == "list"):
                    return f"(.isList {self.expr(l.args[0], env)})"
                raise Gap("is-compare " + ast.dump(node))
            if type(op) not in self.CMP:
                raise Gap("compare op " + ast.dump(node))
            cop = self.CMP[type(op)]
            if isinstance(r, ast.List) and not r.elts and isinstance(op, ast.NotEq):
                return f"(.neEmptyList {self.expr(l, env)})"
            # float compare: left is a float-typed target (optionally round(x, 2)), right a numeric literal
            round2 = False
            ll = l
            if (isinstance(l, ast.Call) and isinstance(l.func, ast.Name) and l.func.id == "round" and len(l.args) == 2
                    and isinstance(l.args[1], ast.Constant) and l.args[1].value == 2):
                round2, ll = True, l.args[0]
            if self.is_float(ll, env):
                if not (isinstance(r, ast.Constant) and isinstance(r.value, (int, float)) and not isinstance(r.value, bool)):
                    raise Gap("float compare against non literal " + ast.dump(node))
                return f"(.fcmp {cop} {self.expr(ll, env)} {lean_float(float(r.value))} {'true' if round2 else 'false'})"
            if round2:
                raise Gap("round() of a non-float target")
            return f"(.icmp {cop} {self.expr(l, env)} {self.expr(r, env)})"
        if isinstance(node, (ast.Name, ast.BinOp, ast.Call)):
            return f"(.truthy {self.expr(node, env)})"
        raise Gap("condition " + ast.dump(node))

    # ---- dependencies ------------------------------------------------------------------------------
    def targets(self, dep, sec_name, scope_types, top_types, all_secs):
        """dependency target(s) -> env {name: (Ref term, kind)} in the order given"""
        t = dep.get("target")
        if t is None:
            return {}, []
        tl = t if isinstance(t, list) else [t]
        env, order = {}, []
        for s in tl:
            sec, name = s.split(":")
            if sec == "self":
                ref = f"(.self {self.N(name)})"
                ty = scope_types.get(name)
            elif sec == sec_name:
                ref = f"(.root {self.N(name)})"
                ty = top_types.get(name)
            else:
                if sec not in all_secs:
                    raise Gap(f"dependency target section {sec!r} unknown")
                ref = f"(.sec {self.N(sec)} {self.N(name)})"
                ty = all_secs[sec].get(name)
            if ty is None:
                raise Gap(f"dependency target {s!r} does not exist (from section {sec_name})")
            kind = 'f' if ty.startswith('f') else ('s' if ty.startswith('str') or ty.startswith('c') else 'o')
            env[name] = (ref, kind)
            order.append(name)
        return env, order

    def dep_expr(self, dep, ctx):
        env, order = self.targets(dep, *ctx)
        code = dep.get("eval")
        if code is None:
            if not order:
                raise Gap("SET_* dependency without target")
            return f"(.ref {env[order[0]][0]})"           # DependencyEval(target name)
        node = ast.parse(code, mode="eval").body
        return self.expr(node, env)

    def count(self, r, ctx):
        deps = r.get("dependencies", {})
        rep0 = r.get("repeat", 1)
        oc = deps.get("on_construct")
        if oc is None:
            return f"(.static {lean_int(rep0)})"
        if isinstance(oc, list):
            raise Gap("list-valued on_construct")
        act = oc["action"]
        if act == "SET_REPEAT":
            return f"(.expr {self.dep_expr(oc, ctx)})"
        if act == "REFRESH_SELF":
            orf = deps.get("on_refresh")
            if orf is None:
                return f"(.static {lean_int(rep0)})"
            if isinstance(orf, list):
                return ".bad"
            if orf["action"] == "SET_REPEAT":
                return f"(.expr {self.dep_expr(orf, ctx)})"
            if orf["action"] == "SET_VALUE":
                return f"(.static {lean_int(rep0)})"
            raise Gap(f"on_refresh action {orf['action']} under REFRESH_SELF")
        raise Gap(f"on_construct action {act}")

    @staticmethod
    def is_list(r):
        il = r.get("is_list", None)
        if il is not None:
            return "(some true)" if il else "(some false)"
        for d in r.get("dependencies", {}).values():
            for x in (d if isinstance(d, list) else [d]):
                if x["action"] == "SET_REPEAT":
                    return "(some true)"
        return "none"

    def default(self, name, r):
        t, n = type_length(r["type"])
        d = r.get("default", None)

        def one(x):
            # the default is carried as the Python value it is (by JSON type); an ill-typed default (e.g. the string
            # '0' on an int retriever) stays ill-typed, and encoding it fails in the model as it does in the library
            if x is None:
                return ".none"
            if isinstance(x, bool):
                return f"(.int {int(x)})"
            if isinstance(x, int):
                if t == "f":
                    return f"(.flt {lean_bytes(struct.pack('<f' if n == 4 else '<d', float(x)))})"
                return f"(.int {lean_int(x)})"
            if isinstance(x, float):
                return f"(.flt {lean_bytes(struct.pack('<f' if (t == 'f' and n == 4) else '<d', x))})"
            if isinstance(x, str):
                return f"(.str {lean_bytes(x.encode('utf-8'))})"
            raise Gap(f"default of retriever {name}: {x!r}")
        if t == "struct":
            if d not in ([], None):
                raise Gap(f"struct retriever {name} with default {d!r}")
            return ".none" if d is None else "(.list [])"
        if t == "data":
            # NB: `set_data_to_default` does bytes.fromhex(default); a list / int default would raise there. Such
            # defaults only occur on retrievers the library never default-constructs (top-level sections, AIStruct);
            # they are read here the obvious way because the defaults of top-level sections are only used by the
            # harness to synthesise base files for versions that ship no default scenario.
            if d is None:
                return ".none"
            if isinstance(d, list):
                return "(.list [" + ", ".join(f"(.data {lean_bytes(bytes.fromhex(x))})" for x in d) + "])"
            if isinstance(d, int) and not isinstance(d, bool):
                if d != 0:
                    raise Gap(f"data retriever {name} with int default {d}")
                return f"(.data {lean_bytes(bytes(n))})"
            return f"(.data {lean_bytes(bytes.fromhex(d))})"
        if isinstance(d, list):
            return "(.list [" + ", ".join(one(x) for x in d) + "])"
        return one(d)

    def item(self, name, r, struct_defs):
        t, n = type_length(r["type"])
        if t == "struct":
            sname = r["type"][7:]
            if sname not in struct_defs:
                raise Gap(f"struct model {sname!r} not found among the child structs (retriever {name})")
            return f"(record false {struct_defs[sname]})", True
        if t in ("u", "s"):
            return f"(intC {'true' if t == 's' else 'false'} {n})", False
        if t == "f":
            if n not in (4, 8):
                raise Gap(f"float width {n}")
            return f"(rawC true {n})", False
        if t == "data":
            return f"(rawC false {n})", False
        if t == "c":
            return f"(charsC {n})", False
        if t == "str":
            trail = "false" if name in self.no_trail else "true"
            return f"(pstrC {n} {trail})", False
        raise Gap(t)

    def record(self, prefix, rec, sec_name, top_types, all_secs, out, meta, drop_eof=False):
        """emit nested struct defs first, then this record's field list; returns the def name"""
        struct_defs = {}
        for sname, sdef in rec.get("structs", {}).items():
            struct_defs[sname] = self.record(prefix + "_" + sname, sdef, sec_name, top_types, all_secs, out, meta)
        scope_types = {k: v["type"] for k, v in rec["retrievers"].items()}
        ctx = (sec_name, scope_types, top_types, all_secs)
        fields, defaults, bases, fmeta = [], [], [], []
        items = list(rec["retrievers"].items())
        for idx, (name, r) in enumerate(items):
            if name == "__END_OF_FILE_MARK__":
                if not drop_eof or idx != len(items) - 1 or r.get("type") != "1" or r.get("dependencies"):
                    raise Gap("__END_OF_FILE_MARK__ must be the last plain 1-byte retriever of the last section")
                continue
            if r.get("log"):
                pass
            it, is_struct = self.item(name, r, struct_defs)
            cnt = self.count(r, ctx)
            fields.append(f"  ({self.N(name)}, field {it} {cnt} {self.is_list(r)} {'true' if is_struct else 'false'})")
            defaults.append("  " + self.default(name, r))
            m = re.fullmatch(r"\(\.static \(?(-?\d+)\)?\)", cnt)
            if is_struct and m and int(m.group(1)) > 0:
                bases.append(f"  (.list (List.replicate {int(m.group(1))} (.strct b_{prefix}_{r['type'][7:]})))")
            else:
                bases.append("  " + self.default(name, r))
            fmeta.append({"name": name, "type": r["type"], "struct": r["type"][7:] if is_struct else None})
        dn = f"f_{prefix}"
        out.append(f"def {dn} : List (Nat × FCodec) := [\n" + ",\n".join(fields) + "]\n")
        out.append(f"def d_{prefix} : List Val := [\n" + ",\n".join(defaults) + "]\n")
        out.append(f"def b_{prefix} : List Val := [\n" + ",\n".join(bases) + "]\n")
        meta[prefix] = fmeta
        return dn


def generate(repo, outdir_lean, outdir_json, write_if_changed):
    files = []
    names = Names()
    no_trail = no_trail_names(repo)
    vdirs = sorted(glob.glob(os.path.join(repo, "AoE2ScenarioParser", "versions", "DE", "v*")))
    versions = []
    allmeta = {}
    # intern names in a stable order: sorted union over all versions
    allnames = set()

    def collect(rec):
        for k in rec["retrievers"]:
            allnames.add(k)
        for sn, s in rec.get("structs", {}).items():
            allnames.add(sn); collect(s)
    structures = {}
    for vd in vdirs:
        v = os.path.basename(vd)[1:]
        s = json.load(open(os.path.join(vd, "structure.json")))
        structures[v] = s
        for sn, sec in s.items():
            allnames.add(sn); collect(sec)
    for n in sorted(allnames):
        names(n)
    for v, s in structures.items():
        tr = Translator(repo, names, no_trail)
        mod = "V" + v.replace(".", "")
        out, meta = [], {}
        secs = list(s.keys())
        if secs[0] != "FileHeader":
            raise Gap(f"{v}: first section must be FileHeader")
        all_secs = {sn: {k: r["type"] for k, r in sec["retrievers"].items()} for sn, sec in s.items()}
        defs = {}
        for i, sn in enumerate(secs):
            # a section may only target sections that precede it (or itself)
            visible = {k: all_secs[k] for k in secs[:i + 1]}
            defs[sn] = tr.record(sn, s[sn], sn, all_secs[sn], visible, out, meta, drop_eof=(i == len(secs) - 1))
        last = s[secs[-1]]["retrievers"]
        has_eof = list(last.keys())[-1] == "__END_OF_FILE_MARK__"      # 1.36/1.37/1.40 have no end-of-file mark
        for sn2 in secs:
            def chk(rec, top):
                for k2 in list(rec["retrievers"].keys())[:-1] if (top and sn2 == secs[-1]) else rec["retrievers"].keys():
                    if k2 == "__END_OF_FILE_MARK__":
                        raise Gap(f"{v}: __END_OF_FILE_MARK__ somewhere else than at the very end")
                for s2 in rec.get("structs", {}).values():
                    chk(s2, False)
            chk(s[sn2], True)
        body = ",\n".join(f"    {{ name := {names(sn)}, fields := {defs[sn]} }}" for sn in secs[1:])
        src = (f"import Aoe.Model.Codec\n/-! GENERATED by tools/gen_structure.py from versions/DE/v{v}/structure.json – do not edit. -/\n"
               f"set_option maxRecDepth 100000\nnamespace Aoe.Generated.{mod}\nopen Aoe Aoe.Codec\n\n" + "\n".join(out) +
               f"\ndef table : Table := {{\n  header := {{ name := {names('FileHeader')}, fields := {defs['FileHeader']} }},\n  hasEof := {'true' if has_eof else 'false'},\n  body := [\n{body}] }}\n\n"
               f"/-- defaults of the top-level sections with statically repeated structs expanded (base-file synthesis only) -/\ndef defaults : List (List Val) := [{', '.join('b_' + sn for sn in secs)}]\n\nend Aoe.Generated.{mod}\n")
        fn = os.path.join(outdir_lean, mod + ".lean")
        write_if_changed(fn, src); files.append(fn)
        versions.append((v, mod))
        allmeta[v] = {"sections": secs, "records": meta}
    inv = sorted(names.ids.items(), key=lambda kv: kv[1])
    src = ("/-! GENERATED by tools/gen_structure.py – interned retriever / struct / section names. -/\nnamespace Aoe.Generated\n"
           "def names : Array String := #[\n" + ",\n".join('  "' + k + '"' for k, _ in inv) + "]\n"
           "def nameOf (n : Nat) : String := names.getD n s!\"#{n}\"\n"
           "def idOf (s : String) : Option Nat := names.findIdx? (· == s)\nend Aoe.Generated\n")
    fn = os.path.join(outdir_lean, "Names.lean"); write_if_changed(fn, src); files.append(fn)
    src = ("\n".join(f"import Aoe.Generated.{m}" for _, m in versions) + "\nimport Aoe.Generated.Names\n"
           "/-! GENERATED by tools/gen_structure.py – version string ↦ table. -/\nnamespace Aoe.Generated\nopen Aoe.Codec\n"
           "def tableOf (v : String) : Option Table :=\n" +
           "\n".join(f"  {'if' if i == 0 else 'else if'} v == \"{v}\" then some {m}.table" for i, (v, m) in enumerate(versions)) +
           "\n  else none\n"
           "def defaultsOf (v : String) : Option (List (List Val)) :=\n" +
           "\n".join(f"  {'if' if i == 0 else 'else if'} v == \"{v}\" then some {m}.defaults" for i, (v, m) in enumerate(versions)) +
           "\n  else none\n"
           f"def versions : List String := [{', '.join(chr(34) + v + chr(34) for v, _ in versions)}]\nend Aoe.Generated\n")
    fn = os.path.join(outdir_lean, "Tables.lean"); write_if_changed(fn, src); files.append(fn)
    laws = ["import Aoe.Props.Codec", "import Aoe.Generated.Tables",
            "/-! GENERATED by tools/gen_structure.py – the file-level round-trip law instantiated at every regenerated table.",
            "If a `structure.json` changes in a way the combinators cannot express, the table (or this file) stops compiling. -/",
            "namespace Aoe.Generated.Laws", "open Aoe Aoe.Codec", ""]
    for v, m in versions:
        laws.append(f"theorem roundtrip_{m} (tr : Tree) (hb bb z : Bytes) (hc : Consistent {m}.table tr)\n"
                    f"    (h1 : serializeHeader {m}.table tr = .ok hb) (h2 : serializeBody {m}.table tr = .ok bb) :\n"
                    f"    parseHeader {m}.table (hb ++ z) = .ok (tr.header, z) ∧ parseBody {m}.table tr.header bb = .ok (tr.body, .list [], []) :=\n"
                    f"  Aoe.Props.Codec.parse_serialize {m}.table tr hb bb z hc h1 h2\n")
    laws.append("end Aoe.Generated.Laws\n")
    fn = os.path.join(outdir_lean, "Laws.lean"); write_if_changed(fn, "\n".join(laws)); files.append(fn)
    os.makedirs(outdir_json, exist_ok=True)
    fn = os.path.join(outdir_json, "structure.json")
    write_if_changed(fn, json.dumps({"names": [k for k, _ in inv], "no_trail": no_trail, "versions": allmeta}, indent=0))
    files.append(fn)
    return files
