#!/usr/bin/env python3
"""print the DESIGN I.4 table rows from seeded/<id>-<X>/meta.json and seeded/notes.json"""
import glob, json, os, sys
ROOT = os.path.dirname(os.path.dirname(os.path.abspath(__file__)))
notes = json.load(open(os.path.join(ROOT, "seeded", "notes.json")))
want = sys.argv[1] if len(sys.argv) > 1 else "AB"
print("| seed | change | caught by | strengthening it prompted |\n|---|---|---|---|")
for d in sorted(glob.glob(os.path.join(ROOT, "seeded", "C??-?"))):
    sid = os.path.basename(d)
    if sid[-1] not in want:
        continue
    m = json.load(open(os.path.join(d, "meta.json")))
    what = (m.get("what") or m.get("agent_meta", {}).get("what") or "").replace("|", "/").replace("\n", " ")
    what = what[:150] + ("…" if len(what) > 150 else "")
    print(f"| {sid} | {what} | {', '.join(m.get('caught_by') or []) or '**missed**'} | {notes.get(sid, '')} |")
