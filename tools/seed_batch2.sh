#!/bin/bash
# re-evaluate the wave-2 seeds the first pass missed (after strengthening), then the ones not evaluated yet
cd "$(dirname "$0")/.."
run() { echo "=== $1 $2 ${3:-}"; python3 tools/seed_eval.py $1 $2 --src /tmp/seed2_out ${3:+--checks $3} $4 2>&1 | grep -v "^WARNING" | tail -2 | cut -c1-300; }
for s in "C01 C" "C01 D" "C05 D" "C06 C" "C08 C" "C09 C" "C10 C" "C11 D" "C13 C" "C14 D" "C15 D" "C16 D" "C17 D" "C18 D" "C19 D"; do
  set -- $s; run $1 $2 "" --skip-verify
done
run C11 C C11,C18,C04,C03 --skip-verify
run C12 C C12,C17,C03,C01 --skip-verify
for s in "C03 C" "C03 D" "C04 C" "C04 D" "C20 C" "C20 D"; do set -- $s; run $1 $2 "" ""; done
echo BATCH-DONE
