"""Translator: objects/support/new_effect.py, new_condition.py (helpers by `ast`), the signatures of
Trigger._add_effect/_add_condition, Effect.__init__, Condition.__init__, the EffectId/ConditionId members and the
armour/attack family lists of effect.py -> lean/Aoe/Generated/Helpers.lean + gen/helpers.json."""
import json, os
import tables1516 as T


def _chars(s):
    return T.lean_list([str(ord(c)) for c in s])


def generate(repo, outdir_lean, outdir_json, write_if_changed):
    V, L, H, table, idx = T.extract_all(repo)
    nl = lambda xs: T.lean_list([str(idx[x]) for x in xs])
    il = lambda xs: T.lean_list([T.lean_int(x) for x in xs])
    src = T.HEADER.format(gen="gen_helpers.py") + "import Aoe.Model.Versions\nset_option maxRecDepth 100000\n"
    src += "namespace Aoe.Generated.Helpers\nopen Aoe.Versions\n\n"

    def sig(name, typekey, addp, init, enum):
        attrs = list(dict.fromkeys(init["assigned"] + init["properties"]))
        return (f"def {name} : Sig := {{ typeKey := {idx[typekey]}, addParams := {nl(addp)}, initParams := {nl(init['params'])}, "
                f"initKwargs := {'true' if init['has_kwargs'] else 'false'}, attrs := {nl(attrs)}, "
                f"intRequired := {nl(init['int_required'])}, enumVals := {il(list(enum.values()))} }}\n\n")
    src += sig("effectSig", "effect_type", H["add_effect_params"], H["effect_init"], H["enums"]["EffectId"])
    src += sig("conditionSig", "condition_type", H["add_condition_params"], H["condition_init"], H["enums"]["ConditionId"])
    n = idx
    src += ("def attrNames : AttrNames := { itemId := %d, quantity := %d, aaQuantity := %d, aaClass := %d, varAttr := %d, "
            "variableRef := %d, objectAttributes := %d, selectedIds := %d, x1 := %d, y1 := %d, x2 := %d, y2 := %d, "
            "legacyLoc := %d, locRef := %d }\n\n") % tuple(n[k] for k in (
                "item_id", "quantity", "armour_attack_quantity", "armour_attack_class", "variable", "_variable_ref",
                "object_attributes", "selected_object_ids", "area_x1", "area_y1", "area_x2", "area_y2",
                "legacy_location_object_reference", "location_object_reference"))
    aa = H["aa"]
    src += (f"def fam : AAFamily := {{ aaEffects := {il(aa['aa_effects'])}, partialQ := {il(aa['partial_q'])}, "
            f"partialV := {il(aa['partial_v'])}, aaAttrs := {il(aa['aa_attrs'])} }}\n\n")
    src += f"/-- interned id of the empty string -/\ndef emptyStr : Nat := {idx['']}\n\n"
    src += ("def ctxE (width : Nat) : Ctx := { sig := effectSig, names := attrNames, fam := fam, width := width, emptyStr := emptyStr, isEffect := true }\n"
            "def ctxC : Ctx := { sig := conditionSig, names := attrNames, fam := fam, width := 16, emptyStr := emptyStr, isEffect := false }\n\n")
    for nm, en in (("effectMembers", "EffectId"), ("conditionMembers", "ConditionId")):
        ms = ",\n  ".join(f"{{ name := {idx[k]}, nameChars := {_chars(k)}, value := {T.lean_int(v)} }}" for k, v in H["enums"][en].items())
        src += f"def {nm} : List EnumMember := [\n  {ms}]\n\n"

    def guard(g):
        if g["shape"] == "anyThenNot":
            return f".anyThenNot {nl(g['any'])} {idx[g['other']]}"
        return f".needsIn {idx[g['arg']]} {idx[g['attr']]} {il(g['values'])}"
    for nm, key in (("effectHelpers", "effect_helpers"), ("conditionHelpers", "condition_helpers")):
        names = []
        for h in H[key]:
            hn = f"{nm[0]}h_{T.lean_ident(h['name'])}"
            fw = T.lean_list([f"({idx[a]}, {idx[b]})" for a, b in h["forwards"]])
            src += (f"def {hn} : Helper := {{ name := {idx[h['name']]}, nameChars := {_chars(h['name'])}, "
                    f"deprecated := {'true' if h['deprecated'] else 'false'}, params := {nl(h['params'])}, const := {idx[h['const']]}, "
                    f"forwards := {fw}, guards := {T.lean_list([guard(g) for g in h['guards']])} }}\n")
            names.append(hn)
        src += f"def {nm} : List Helper := {T.lean_list(names)}\n\n"
    src += "end Aoe.Generated.Helpers\n"
    files = []
    p = os.path.join(outdir_lean, "Helpers.lean")
    write_if_changed(p, src); files.append(p)
    os.makedirs(outdir_json, exist_ok=True)
    p = os.path.join(outdir_json, "helpers.json")
    write_if_changed(p, json.dumps(H, indent=0, sort_keys=True)); files.append(p)
    return files
