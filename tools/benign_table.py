#!/usr/bin/env python3
"""print the DESIGN I.4 wave-3 table from seeded/benign/<id>-<X>/meta.json and seeded/benign_notes.json"""
import glob, json, os
ROOT = os.path.dirname(os.path.dirname(os.path.abspath(__file__)))
fn = os.path.join(ROOT, "seeded", "benign_notes.json")
notes = json.load(open(fn)) if os.path.exists(fn) else {}
print("| refactoring | what was rewritten | checks quiet | alarms (first pass) | what was done |\n|---|---|---|---|---|")
for d in sorted(glob.glob(os.path.join(ROOT, "seeded", "benign", "C??-?"))):
    sid = os.path.basename(d)
    m = json.load(open(os.path.join(d, "meta.json")))
    what = (m.get("what") or "").replace("|", "/").replace("\n", " ")
    what = what[:170] + ("…" if len(what) > 170 else "")
    first = m.get("first_pass_alarms", m.get("alarms"))
    print(f"| {sid} | {what} | {len(m.get('quiet', []))}/{len(m.get('ran', {}))} | {', '.join(first) or '–'} | {notes.get(sid, '')} |")
