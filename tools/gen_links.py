"""Translator: every `_link_list` reachable from the seven DE managers (imported from the repository and walked as
declarative data) -> lean/Aoe/Generated/Links.lean + gen/links.json."""
import json, os
import tables1516 as T


def generate(repo, outdir_lean, outdir_json, write_if_changed):
    V, L, H, table, idx = T.extract_all(repo)
    files = []
    src = T.HEADER.format(gen="gen_links.py") + "import Aoe.Model.Versions\nset_option maxRecDepth 100000\n"
    src += "namespace Aoe.Generated.Links\nopen Aoe.Versions\n\n"
    cls_defs = []
    for c in L["classes"]:
        ls = []
        for l in c["links"]:
            k = l["kind"]
            kind = f".history {k[1]}" if k[0] == "history" else (".plain" if k[0] == "plain" else f".object {idx[k[1]]}")
            path = ([idx[l["section"]]] + [idx[x] for x, _ in l["path"]]) if k[0] != "history" else []
            indexed = ["true" if b else "false" for _, b in l["path"]]
            sup = "none" if l["support"] is None else f"some ⟨{l['support'][0]}, {l['support'][1]}⟩"
            cb = "none" if l["callback"] is None else f"some {idx[l['callback']]}"
            dest = "none" if l["dest"] is None else f"some {idx[l['dest']]}"
            ls.append(f"{{ name := {idx[l['name']]}, path := {T.lean_list(map(str, path))}, indexed := {T.lean_list(indexed)}, "
                      f"kind := {kind}, support := {sup}, callback := {cb}, dest := {dest} }}  -- {c['name']}.{l['name']}")
        nm = "c_" + T.lean_ident(c["name"])
        body = ",\n  ".join(x.split("  -- ")[0] for x in ls)
        src += f"/-- {c['name']} -/\ndef {nm} : ClassLinks := {{ cls := {idx[c['name']]}, links := [\n  {body}] }}\n\n"
        cls_defs.append(nm)
    src += "def classes : List ClassLinks := " + T.lean_list(cls_defs) + "\n"
    src += "/-- the managers, in commit order -/\ndef roots : List Nat := " + T.lean_list([str(idx[c]) for _, c in L["roots"]]) + "\n"
    src += "end Aoe.Generated.Links\n"
    p = os.path.join(outdir_lean, "Links.lean")
    write_if_changed(p, src); files.append(p)
    os.makedirs(outdir_json, exist_ok=True)
    p = os.path.join(outdir_json, "links.json")
    write_if_changed(p, json.dumps(L, indent=0, sort_keys=True)); files.append(p)
    return files
