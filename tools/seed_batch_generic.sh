#!/bin/bash
# tools/seed_batch_generic.sh <src dir> <letters glob, e.g. GH>: evaluate every delivered, not yet evaluated seed of that wave
cd "$(dirname "$0")/.."
src=$1; letters=$2
for d in $src/C*/[$letters]; do
  [ -f "$d/patch.diff" ] && [ -f "$d/meta.json" ] && [ -f "$d/demo.py" ] || continue
  pid=$(basename $(dirname $d)); x=$(basename $d)
  [ -f "seeded/$pid-$x/meta.json" ] && continue
  echo "=== $pid $x"
  python3 tools/seed_eval.py $pid $x --src $src 2>&1 | grep -v "^WARNING" | grep -E "^(verified|caught_by)" | cut -c1-260
done
echo BATCH-DONE
