"""Translator: versions/DE/v*/{effects,conditions,structure}.json -> lean/Aoe/Generated/T1xx.lean (one file per version,
built in parallel), Versions.lean (the list of all version tables), ObT1xx.lean (the per-version obligation
`versionOK … = true := by decide +kernel`), Ob.lean (all of them as one theorem), TNames.lean (name table for printing)
and gen/versions.json + gen/names.json for the harness."""
import json, os
import tables1516 as T


def _entry(t, idx):
    attrs = T.lean_list([str(idx[a]) for a in t["attributes"]])
    defs = T.lean_list([f"({idx[a]}, {T.lean_val(v, idx)})" for a, v in t["defaults"]])
    return f"  {{ id := {T.lean_int(t['id'])}, attrs := {attrs}, defaults := {defs} }}"


def generate(repo, outdir_lean, outdir_json, write_if_changed):
    V, L, H, table, idx = T.extract_all(repo)
    files = []

    def w(path, content):
        write_if_changed(path, content)
        files.append(path)

    mods = []
    for v in V:
        m = f"T{v['hundredths']}"      # T = type/path tables (V1xx.lean are the structure codecs of gen_structure.py)
        mods.append(m)
        src = T.HEADER.format(gen="gen_versions.py") + f"-- scenario version {v['version']}\n"
        src += "import Aoe.Model.Versions\nset_option maxRecDepth 100000\n"
        src += f"namespace Aoe.Generated.{m}\nopen Aoe.Versions\n\n"
        for kind in ("effects", "conditions"):
            # one definition per entry keeps every literal small (fast elaboration)
            for t in v[kind]:
                nm = f"{kind[0]}{str(t['id']).replace('-', 'm')}"
                src += f"def {nm} : TypeEntry :=\n{_entry(t, idx)}\n"
            src += f"def {kind} : Table := " + T.lean_list([f"{kind[0]}{str(t['id']).replace('-', 'm')}" for t in v[kind]]) + "\n\n"
        conts = {}
        for p, st in v["paths"]:
            conts.setdefault(tuple(p[:-1]), []).append((p[-1], st))
        ps = ",\n  ".join(f"({T.lean_list([str(idx[x]) for x in c])}, " +
                          T.lean_list([f"({idx[n]}, {'true' if st else 'false'})" for n, st in rs]) + ")" for c, rs in conts.items())
        src += f"def paths : Paths := [\n  {ps}]\n\n"
        src += f"def table : VersionTable := {{ version := {v['hundredths']}, effects := effects, conditions := conditions, paths := paths }}\n"
        src += f"end Aoe.Generated.{m}\n"
        w(os.path.join(outdir_lean, m + ".lean"), src)

        ob = T.HEADER.format(gen="gen_versions.py")
        ob += f"import Aoe.Generated.{m}\nimport Aoe.Generated.Links\nimport Aoe.Generated.Helpers\n"
        ob += f"namespace Aoe.Generated.Ob{m}\nopen Aoe.Versions Aoe.Generated\n"
        ob += f"/-- C15/C16 obligation of scenario version {v['version']} (witness functions: `linksBad`, `tableBad`) -/\n"
        ob += f"theorem ok : versionOK Links.classes Links.roots (Helpers.ctxE 16) Helpers.ctxC {m}.table = true := by decide +kernel\n"
        ob += f"end Aoe.Generated.Ob{m}\n"
        w(os.path.join(outdir_lean, f"Ob{m}.lean"), ob)

    agg = T.HEADER.format(gen="gen_versions.py") + "".join(f"import Aoe.Generated.{m}\n" for m in mods)
    agg += "namespace Aoe.Generated.Versions\nopen Aoe.Versions\n"
    agg += "def all : List VersionTable := " + T.lean_list([f"Aoe.Generated.{m}.table" for m in mods]) + "\n"
    agg += "end Aoe.Generated.Versions\n"
    w(os.path.join(outdir_lean, "Versions.lean"), agg)

    ob = T.HEADER.format(gen="gen_versions.py") + "import Aoe.Generated.Versions\n" + "".join(f"import Aoe.Generated.Ob{m}\n" for m in mods)
    ob += "namespace Aoe.Generated.Ob\nopen Aoe.Versions Aoe.Generated\n"
    ob += "/-- every shipped scenario version satisfies the C15/C16 table obligation -/\n"
    ob += "theorem allOK : ∀ vt ∈ Versions.all, versionOK Links.classes Links.roots (Helpers.ctxE 16) Helpers.ctxC vt = true := by\n"
    ob += "  intro vt h\n  simp only [Versions.all, List.mem_cons, List.mem_nil_iff, or_false] at h\n"
    ob += "  rcases h with " + " | ".join("rfl" for _ in mods) + "\n"
    ob += "".join(f"  · exact Ob{m}.ok\n" for m in mods)
    ob += f"theorem count : Versions.all.length = {len(mods)} := rfl\n"
    ob += "end Aoe.Generated.Ob\n"
    w(os.path.join(outdir_lean, "Ob.lean"), ob)

    nm = T.HEADER.format(gen="gen_versions.py") + "namespace Aoe.Generated.TNames\n"
    nm += "def names : Array String := #[\n  " + ",\n  ".join(T.lean_str(s) for s in table) + "]\n"
    nm += "end Aoe.Generated.TNames\n"
    w(os.path.join(outdir_lean, "TNames.lean"), nm)

    os.makedirs(outdir_json, exist_ok=True)
    w(os.path.join(outdir_json, "versions.json"), json.dumps(V, indent=0, sort_keys=True))
    w(os.path.join(outdir_json, "names.json"), json.dumps(table, indent=0))
    return files
