#!/bin/bash
cd "$(dirname "$0")/.."
run() { echo "=== $1 $2 ${3:-}"; python3 tools/seed_eval.py $1 $2 --src /tmp/seed4_out ${3:+--checks $3} --skip-verify 2>&1 | grep -v "^WARNING" | grep -E "^(caught_by)" | cut -c1-260; }
run C06 F
run C08 E
run C13 F
run C14 E
run C14 F
run C16 F
run C17 E C17,C12
run C17 F
run C18 F
run C20 F C20,C11
run C15 E C15,C03
run C08 F C08,C15,C16
run C06 E C06,C03,C04
echo BATCH-DONE
