#!/usr/bin/env python3
"""Drift detector: AST fingerprints of the Python files a property's model transcribes (model_map.json).

  fingerprint.py --repo R --baseline      writes tools/fingerprints.json for the tree R (run on the reference tree)
  fingerprint.py --repo R Cxx             prints the files of Cxx whose AST differs from the baseline (one per line)

A changed file is NOT a violation: ./check only multiplies the case budget of that property's harness (--escalate).
Comments, docstrings and formatting do not change the fingerprint.
"""
import argparse, ast, hashlib, json, os, sys
ROOT = os.path.dirname(os.path.dirname(os.path.abspath(__file__)))


def fp(path):
    if path.endswith(".json"):           # data files: canonical JSON
        try:
            return hashlib.sha256(json.dumps(json.load(open(path, encoding="utf-8")), sort_keys=True).encode()).hexdigest()[:16]
        except Exception as e:
            return "unparsable:" + type(e).__name__
    try:
        tree = ast.parse(open(path, encoding="utf-8").read())
    except Exception as e:
        return "unparsable:" + type(e).__name__
    for node in ast.walk(tree):           # drop docstrings
        if isinstance(node, (ast.FunctionDef, ast.ClassDef, ast.AsyncFunctionDef, ast.Module)):
            if node.body and isinstance(node.body[0], ast.Expr) and isinstance(getattr(node.body[0], "value", None), ast.Constant) \
                    and isinstance(node.body[0].value.value, str):
                node.body = node.body[1:] or [ast.Pass()]
    return hashlib.sha256(ast.dump(tree, include_attributes=False).encode()).hexdigest()[:16]


def main():
    ap = argparse.ArgumentParser()
    ap.add_argument("--repo", default=os.environ.get("AOE2_REPO", "/repo"))
    ap.add_argument("--baseline", action="store_true")
    ap.add_argument("pid", nargs="?")
    a = ap.parse_args()
    mm = json.load(open(os.path.join(ROOT, "model_map.json")))["files"]
    base = os.path.join(a.repo, "AoE2ScenarioParser")
    bfile = os.path.join(ROOT, "tools", "fingerprints.json")
    if a.baseline:
        allf = sorted({f for fs in mm.values() for f in fs})
        json.dump({f: fp(os.path.join(base, f)) for f in allf}, open(bfile, "w"), indent=1)
        print(f"baseline written: {len(allf)} files")
        return 0
    if not os.path.exists(bfile):
        return 0
    b = json.load(open(bfile))
    for f in mm.get(a.pid, []):
        if fp(os.path.join(base, f)) != b.get(f):
            print(f)
    return 0


if __name__ == "__main__":
    sys.exit(main())
