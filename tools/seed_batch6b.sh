#!/bin/bash
cd "$(dirname "$0")/.."
run() { echo "=== $1 $2 ${3:-}"; python3 tools/seed_eval.py $1 $2 --src /tmp/seed6_out ${3:+--checks $3} --skip-verify 2>&1 | grep -v "^WARNING" | grep -E "^(caught_by)" | cut -c1-260; }
run C04 H
run C08 H
run C12 H
run C14 H
run C17 H
run C02 H C02,C03,C07
run C02 G C02,C17,C03
run C01 G C01,C12
run C04 G C04,C12
echo BATCH-DONE
