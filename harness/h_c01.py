"""C01 – unedited load/save reproduces the file byte for byte (plain header and inflated body; the embedded file name follows
the output name, so every round trip is written to the SAME stem in another directory).

Per version (one subprocess each), for each input file and both write modes (skip_reconstruction on / off):
  inputs  (a) the shipped v1.54 default scenario, (b) the version's base file, (c) files the library wrote after seeded random
          edit histories over all managers (several per run), (d) type-directed random well-formed trees encoded by the Lean
          model (skip mode only: their field values mean nothing to the managers).
  oracle  header bytes and inflated body of the output equal those of the input.
  model   the Lean codec must reproduce the input from its own parse (`ser (parse input) = input`).
"""
import os, random, shutil, tempfile
from harness import common, codec_common as cc, bases, vworker, histories, treegen

RULE = ("per version: default/base files, files written by the library after seeded random edit histories, and model-encoded random "
        "trees; each loaded and re-saved unedited in both write modes to the same stem; non-trivial = an input with at least one "
        "trigger, unit or non-default player/map edit; distinct by (version, input hash, mode)")


def split(raw, hlen):
    return raw[:hlen], cc.inflate(raw[hlen:])


def worker(version, args):
    import hashlib
    common.lib_setup(xs_check=True)
    from AoE2ScenarioParser.scenarios.aoe2_de_scenario import AoE2DEScenario
    rng = random.Random(f"C01:{args['seed']}:{version}")
    R = common.Result(RULE); R.export_keys = True
    drv = common.Driver(args["driver"]) if args.get("driver") else None
    tmp = tempfile.mkdtemp(prefix="c01_")
    try:
        inputs = []     # (label, path, nontrivial, info)
        base = bases.base_file(version, args.get("driver"))
        d0 = os.path.join(tmp, "in0"); os.makedirs(d0)
        p = os.path.join(d0, "base.aoe2scenario"); shutil.copy(base, p)
        inputs.append(("base", p, False, {}))
        if version == "1.54":
            src = os.path.join(bases.VDIR, "v1.54", "default.aoe2scenario")
            with cc.quiet():
                stem = cc.load_sections_only(src, version).sections["DataHeader"].filename     # the embedded file name
            p = os.path.join(d0, stem + ".aoe2scenario")      # stage the input under its embedded name: output stem = input stem
            shutil.copy(src, p)
            inputs.append(("shipped-default", p, False, {}))
        # a small variant of the base (map 4x4) keeps the many load/save cycles below fast
        with cc.quiet():
            s0 = AoE2DEScenario.from_file(base)
            s0.map_manager.map_size = 4
            sd = os.path.join(tmp, "small"); os.makedirs(sd)
            small = os.path.join(sd, "base.aoe2scenario")
            s0.write_to_file(small)
            del s0
        inputs.append(("base-small", small, False, {}))
        # corpus: a library-written file with USED effect strings (message / sound_name) - defect F13 lives here
        with cc.quiet():
            scn = AoE2DEScenario.from_file(small)
            t = scn.trigger_manager.add_trigger("strings")
            t.new_effect.send_chat(source_player=1, message="hello")
            t.new_effect.play_sound(source_player=1, sound_name="horn")
            if scn.sections["Triggers"].trigger_version >= 2.5:      # 16-bit layout: an amount with its top bit set
                t.new_effect.change_object_attack(armour_attack_class=4, armour_attack_quantity=0xFFFB)
            else:
                t.new_effect.change_object_attack(armour_attack_class=4, armour_attack_quantity=0xFB)
            t.new_effect.change_object_armor(armour_attack_class=1, armour_attack_quantity=1)
            d = os.path.join(tmp, "in_probe"); os.makedirs(d)
            p = os.path.join(d, "base.aoe2scenario")
            st, e = common.outcome(scn.write_to_file, p)
            if st == "ok":
                # ... and a second variant whose stored armour/attack quantity is -1 (unset) / negative, written at section
                # level (the normal form allows any s32 there; the managers must hand it back unchanged)
                eff = scn.sections["Triggers"].trigger_data[len(scn.trigger_manager.triggers) - 1].effect_data
                eff[-1].quantity = -1
                eff[-2].quantity = -300
                d2 = os.path.join(tmp, "in_probe2"); os.makedirs(d2)
                p2 = os.path.join(d2, "base.aoe2scenario")
                st2, e2 = common.outcome(scn.write_to_file, p2, skip_reconstruction=True, skip_validation=True)
                if st2 == "ok":
                    nstr2 = sum(1 for t_ in scn.trigger_manager.triggers for ef in t_.effects for a_ in ("message", "sound_name") if _used_string(ef, a_))
                    inputs.append(("section-edited", p2, True, {"probe": "negative-stored-aa-quantity", "used_effect_strings": nstr2}))
        if st == "ok":
            nstr = sum(1 for t in scn.trigger_manager.triggers for ef in t.effects for a in ("message", "sound_name") if _used_string(ef, a))
            inputs.append(("history", p, True, {"probe": "used-effect-strings", "used_effect_strings": nstr}))
        del scn
        # (c) library-written files after edit histories
        for h in range(args["nhist"]):
            hseed = f"C01:{args['seed']}:{version}:{h}"
            hr = random.Random(hseed)
            with cc.quiet():
                scn = AoE2DEScenario.from_file(small)
                scn.map_manager.map_size = hr.randint(2, 6)
                H = histories.History(scn, hr, version)
                for _ in range(hr.randint(4, args["nops"])):
                    common.outcome(H.step)
                d = os.path.join(tmp, f"in_h{h}"); os.makedirs(d)
                p = os.path.join(d, "base.aoe2scenario")
                st, e = common.outcome(scn.write_to_file, p)
            if st != "ok":
                continue                                   # C04 reports saves that raise
            nstr = sum(1 for t in scn.trigger_manager.triggers for ef in t.effects
                       for a in ("message", "sound_name") if _used_string(ef, a))
            inputs.append(("history", p, True, {"history_seed": hseed, "ops": H.ops[-30:], "used_effect_strings": nstr}))
            del scn
        # (c2) a populated file: one attribute-complete effect of every effect type and one condition of every condition type of
        #      this version (0 and small references over-represented) - what the random histories only reach by chance
        with cc.quiet():
            scn = AoE2DEScenario.from_file(small)
            scn.map_manager.map_size = 4
            H = histories.History(scn, random.Random(f"C01:populate:{args['seed']}:{version}"), version)
            st, e = common.outcome(H.populate)
            d = os.path.join(tmp, "in_pop"); os.makedirs(d)
            p = os.path.join(d, "base.aoe2scenario")
            st, e = common.outcome(scn.write_to_file, p) if st == "ok" else (st, e)
        if st == "ok":
            nstr = sum(1 for t in scn.trigger_manager.triggers for ef in t.effects
                       for a in ("message", "sound_name") if _used_string(ef, a))
            inputs.append(("history", p, True, {"probe": "populated", "history_seed": f"C01:populate:{args['seed']}:{version}", "used_effect_strings": nstr}))
        del scn
        # (e) section-edited inputs: player attributes written DIRECTLY into the file fields that represent them (primary and
        #     duplicate fields together, harness/layout.py), values at 0 / boundaries, saved without the managers - these files
        #     are in normal form but were not shaped by the managers' own commit
        from harness import layout
        for e_i in range(args["nedit"]):
            er = random.Random(f"C01e:{args['seed']}:{version}:{e_i}")
            with cc.quiet():
                scn = AoE2DEScenario.from_file(small)
            edits = []
            for _ in range(er.randint(1, 6)):
                attr = er.choice([a for a in layout.PLAYER_FIELDS if a not in ("active", "tribe_name")])
                pl = er.randint(0, 8)
                ents = layout.player_entries(attr, pl, version)
                prim = layout.PLAYER_FIELDS[attr][0]
                if not ents or layout.pos(prim[3], pl) is None:
                    continue
                kind = prim[4]
                v = er.choice([0, 1]) if kind == "b" else er.choice([0, 0, 1, 7, 200, er.randint(0, 1000)])
                if attr in ("civilization", "architecture_set"):
                    v = er.choice([1, 2, 40])
                if attr == "color":
                    v = er.randint(0, 7)
                if attr == "starting_age":
                    v = er.choice([0, 2, 6])
                for sec, fld, i, sf, k in ents:
                    layout.set_field(scn, sec, fld, i, sf, layout.stored(k, v))
                edits.append([attr, pl, v])
            d = os.path.join(tmp, f"in_e{e_i}"); os.makedirs(d)
            p = os.path.join(d, "base.aoe2scenario")
            with cc.quiet():
                st, e = common.outcome(scn.write_to_file, p, skip_reconstruction=True, skip_validation=True)
            del scn
            if st == "ok" and edits:
                inputs.append(("section-edited", p, True, {"edits": edits}))
        # (d) model-encoded random trees (skip mode only)
        gen_inputs = []
        if drv:
            cmds, texts = [f"table {version}"], []
            for _ in range(args["ngen"]):
                g = treegen.TreeGen(version, rng)
                try:
                    t = g.tree()
                except treegen.BadCount:
                    continue
                texts.append(t); cmds += ["settree " + t, "ser"]
            out = drv.batch(cmds) if texts else []
            for i, t in enumerate(texts):
                ser = out[2 + 2 * i]
                if ser.startswith("ok"):
                    h, b = [cc.unhexd(x.split("=", 1)[1]) for x in ser.split()[1:]]
                    d = os.path.join(tmp, f"in_g{i}"); os.makedirs(d)
                    p = os.path.join(d, "base.aoe2scenario")
                    open(p, "wb").write(h + cc.deflate(b))
                    gen_inputs.append(("generated", p, True, {"tree_hash": hashlib.sha256(t.encode()).hexdigest()[:12]}))
        # ---- the embedded file name follows the output name: two saves of ONE object under different names ------------
        with cc.quiet():
            scn = AoE2DEScenario.from_file(small)
            names_seen = []
            for stem in ("first_name", "second_name"):
                dd = os.path.join(tmp, "ren_" + stem); os.makedirs(dd)
                pp = os.path.join(dd, stem + ".aoe2scenario")
                st, e = common.outcome(scn.write_to_file, pp)
                if st == "ok":
                    st2, s2 = common.outcome(cc.load_sections_only, pp, version)
                    names_seen.append((stem, s2.sections["DataHeader"].filename if st2 == "ok" else "<unreadable>"))
        del scn
        for stem, got in names_seen:
            R.case(key=f"rename:{stem}", nontrivial=True, tags=("rename",))
            if got != stem:
                R.violation({"kind": "embedded-filename", "save": stem}, f"the file written as {stem!r} embeds the file name {got!r}",
                            {"version": version, "op": "two saves of one scenario object under different names", "stem": stem, "embedded": got})
        # ---- round trips ------------------------------------------------------------------------------
        cmds, expect = [f"table {version}"], []
        for label, path, nontrivial, info in inputs + gen_inputs:
            raw = open(path, "rb").read()
            key0 = hashlib.sha256(raw).hexdigest()[:12]
            modes = [True] if label == "generated" else [True, False]
            hlen = None
            for skip in modes:
                od = os.path.join(tmp, "out"); shutil.rmtree(od, ignore_errors=True); os.makedirs(od)
                op = os.path.join(od, os.path.basename(path))
                with cc.quiet():
                    if label == "generated":
                        st, scn = common.outcome(cc.load_sections_only, path, version)
                    else:
                        st, scn = common.outcome(AoE2DEScenario.from_file, path)
                    if st == "ok":
                        st, e = common.outcome(scn.write_to_file, op, skip_reconstruction=skip, skip_validation=True) if label != "generated" \
                            else common.outcome(_write_sections_only, scn, op)
                mode = "skip" if skip else "reconstruct"
                R.case(key=f"{key0}:{mode}", nontrivial=nontrivial, tags=(f"input:{label}", f"mode:{mode}"),
                       sample={"version": version, "input": label, "mode": mode, "bytes": len(raw)} if len(R.samples) < 2 else None)
                replay = {"version": version, "input": label, "mode": mode, **info}
                if st != "ok":
                    R.violation({"kind": "roundtrip-raises", "mode": mode, "input": label}, f"loading/saving an unedited {label} file raises {scn if isinstance(scn, str) else e}", replay)
                    continue
                hlen = scn.sections["FileHeader"].byte_length
                del scn
                out_raw = open(op, "rb").read()
                ih, ib = split(raw, hlen)
                try:
                    oh, ob = split(out_raw, hlen)
                except Exception:
                    oh, ob = out_raw[:hlen], b"<not inflatable>"
                if (ih, ib) != (oh, ob):
                    delta = len(ob) - len(ib)
                    sig = {"kind": "bytes-differ", "mode": mode, "input": label}
                    if skip and info.get("used_effect_strings") and delta == -info["used_effect_strings"] and ih == oh:
                        sig = {"kind": "effect-string-terminator-dropped", "mode": "skip"}
                    pos = next((k for k in range(min(len(ib), len(ob))) if ib[k] != ob[k]), min(len(ib), len(ob)))
                    R.violation(sig, f"{label} file changes on an unedited {mode} round trip (body {len(ib)} -> {len(ob)} bytes, first difference at body offset {pos}, header equal: {ih == oh})",
                                {**replay, "body_offset": pos, "delta": delta})
            # model: ser(parse(input)) == input
            if hlen is not None and drv:
                ih, ib = split(raw, hlen)
                cmds += ["hdr " + cc.hexd(raw), "body " + cc.hexd(ib), "ser"]
                expect.append((len(cmds) - 1, ih, ib, label, info))
        if drv and expect:
            out = drv.batch(cmds)
            for idx, ih, ib, label, info in expect:
                o = out[idx]
                if not o.startswith("ok"):
                    R.mismatch(f"model cannot re-serialise a {label} file", {"version": version, "input": label, **info}, model=o[:80])
                    continue
                h, b = [cc.unhexd(x.split("=", 1)[1]) for x in o.split()[1:]]
                if (h, b) != (ih, ib):
                    # the model mirrors the library's codec; if both change the file the oracle above has reported it
                    R.dist["model:changes-file-like-library" if info.get("used_effect_strings") else "model:differs"] += 1
                    if not info.get("used_effect_strings"):
                        R.mismatch(f"model: ser(parse(x)) != x for a {label} file", {"version": version, "input": label, **info})
                else:
                    R.traces += 1
    finally:
        shutil.rmtree(tmp, ignore_errors=True)
    return R.to_json()


def _used_string(ef, attr):
    from AoE2ScenarioParser.datasets import effects
    try:
        return attr in effects.attributes[ef.effect_type]
    except KeyError:
        return False


def _write_sections_only(scn, path):
    """the library's own serialiser on a scenario loaded without managers (skip_reconstruction semantics)"""
    from AoE2ScenarioParser.scenarios import aoe2_scenario as m
    from pathlib import Path
    scn.sections['DataHeader'].filename = Path(path).stem
    binary = scn.sections['FileHeader'].get_data_as_bytes()
    rest = b''.join(s.get_data_as_bytes() for s in scn.sections.values() if s.name != "FileHeader")
    open(path, "wb").write(binary + m._compress_bytes(rest))


def run(ctx):
    R = common.Result(RULE)
    vs = bases.versions()
    args = {"seed": ctx.seed, "driver": ctx.driver_path, "nhist": ctx.budget(5, 40), "nops": 14 if ctx.quick else 30, "ngen": ctx.budget(6, 40), "nedit": ctx.budget(6, 60)}
    per = vworker.run_versions("h_c01", "worker", vs, args)
    cc.merge_results(R, per, "C01")
    R.extra["versions"] = vs
    return R.to_json()
