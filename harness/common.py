"""Shared harness pieces: context, PRNG, driver pipe, result accumulator, library bootstrap."""
import json, os, random, subprocess, sys, glob, collections

ROOT = os.path.dirname(os.path.dirname(os.path.abspath(__file__)))
REPO = os.environ.get("AOE2_REPO", "/repo")


class Ctx:
    def __init__(self, pid, tier, seed, driver, replay, escalate):
        self.pid, self.tier, self.seed, self.driver_path = pid, tier, seed, driver
        self.replay, self.escalate = replay, escalate
        self.rng = random.Random(f"{pid}:{seed}")      # every random choice derives from this
        self.quick = tier == "quick"

    def budget(self, quick, thorough):
        b = quick if self.quick else thorough
        return b * 3 if self.escalate else b

    def corpus(self):
        """Minimised past failures for this property (always run first)."""
        out = []
        for fn in sorted(glob.glob(os.path.join(ROOT, "corpus", self.pid, "*.json"))):
            out.append(json.load(open(fn)))
        if self.replay:
            out.insert(0, json.load(open(self.replay)))
        return out

    def driver(self):
        return Driver(self.driver_path) if self.driver_path else None


class Driver:
    """Line protocol to a compiled Lean driver: one command line in, exactly one observation line out."""
    def __init__(self, exe):
        self.exe = exe

    def batch(self, lines, timeout=1800):
        if not lines:
            return []
        data = "\n".join(lines) + "\n"
        p = subprocess.run([self.exe], input=data, capture_output=True, text=True, timeout=timeout)
        if p.returncode != 0:
            raise RuntimeError(f"driver {self.exe} rc={p.returncode}: {p.stderr[-2000:]}")
        out = p.stdout.split("\n")
        if out and out[-1] == "":
            out.pop()
        if len(out) != len(lines):
            raise RuntimeError(f"driver answered {len(out)} lines for {len(lines)} commands; tail={out[-3:]}")
        return out


class Result:
    """Accumulates coverage counts, violations (oracle false on the real code) and mismatches."""
    def __init__(self, rule):
        self.rule = rule
        self.evaluations = 0
        self.nontrivial = set()
        self.traces = 0
        self.samples = []
        self.dist = collections.Counter()
        self.violations = []
        self.mismatches = []
        self.generated_obligations = 0
        self.extra = {}

    def case(self, key=None, nontrivial=False, sample=None, tags=()):
        self.evaluations += 1
        if nontrivial and key is not None:
            self.nontrivial.add(key if isinstance(key, (str, int, tuple)) else json.dumps(key, sort_keys=True, default=str))
        for t in tags:
            self.dist[t] += 1
        if sample is not None and len(self.samples) < 8:
            self.samples.append(sample)

    def violation(self, signature, what, replay):
        if len(self.violations) < 200:
            self.violations.append({"signature": signature, "what": what, "replay": replay})

    def mismatch(self, what, replay, impl=None, model=None):
        if len(self.mismatches) < 50:
            self.mismatches.append({"what": what, "replay": replay, "impl": impl, "model": model})

    def to_json(self, exhaustive=False):
        cov = {"evaluations": self.evaluations, "distinct_nontrivial": len(self.nontrivial), "rule": self.rule,
               "samples": self.samples, "traces_validated_against_impl": self.traces,
               "distribution": dict(self.dist), "exhaustive": exhaustive}
        cov["nontrivial_keys"] = sorted(self.nontrivial)[:20000] if getattr(self, "export_keys", False) else []
        cov.update(self.extra)
        return {"coverage": cov, "violations": self.violations, "mismatches": self.mismatches,
                "generated_obligations": self.generated_obligations}


def lib_setup(xs_check=False):
    """Import the library under test quietly. Returns the settings module.
    xs_check=True keeps the library's default ENABLE_XS_CHECK_INTEGRATION = True, so that a save runs the XS collection
    step (`validate_scenario_xs` -> `_get_scenario_xs`) like it does for users; the external xs-check BINARY is only started when
    the scenario holds XS code, which the harnesses that use this mode never create (the binary is not executable in this
    sandbox)."""
    if REPO not in sys.path:
        sys.path.insert(0, REPO)
    from AoE2ScenarioParser import settings
    settings.PRINT_STATUS_UPDATES = False
    if not xs_check:
        try:
            settings.ENABLE_XS_CHECK_INTEGRATION = False
        except Exception:
            pass
    return settings


def outcome(fn, *a, **k):
    """Run fn; return ('ok', value) or ('error', ExceptionClassName). Never raises (except KeyboardInterrupt)."""
    try:
        return "ok", fn(*a, **k)
    except Exception as e:           # noqa
        return "error", type(e).__name__
