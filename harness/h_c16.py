"""C16 – effect and condition constructors honour their name, arguments and defaults.

Correspondence: every `new_effect.*` / `new_condition.*` helper of the repository, on a live scenario of every version
(one subprocess per version), with no argument, every single parameter, all parameters, guard-compatible sets and seeded
random subsets of sentinel arguments – compared with the Lean model (`drv_c16`: the generated helper table interpreted
by `runHelper` over the generated version tables): type, list position, display order, attribute map.
Oracle: the property's own clauses evaluated on the real component (see c1516_worker.run_c16).
"""
import json, os
from harness import common, c1516_pool


def run(ctx):
    R = common.Result("exhaustive: every helper (effects + conditions, incl. the deprecated alias) x every version (types the "
                      "version lacks: the no-argument call only in the quick tier) x {no argument, each single parameter, all parameters, "
                      "guard-compatible maximal sets, armour/attack attribute variants, explicit None, seeded random subsets}; "
                      "sentinel ints/strings/lists distinct per parameter; display order scrambled before 30% of the calls. "
                      "non-trivial = at least one argument supplied and the type exists in the version; distinct by (version, helper, argument-set label)")
    T = json.load(open(os.path.join(common.ROOT, "gen", "versions.json")))
    versions = [v["version"] for v in T]
    for c in ctx.corpus():
        rp = c.get("replay", c)
        if rp.get("version") in versions:
            pass        # a replay is re-run by the exhaustive sweep below (every helper x every version is covered)
    res = c1516_pool.run_versions("c16", versions, ctx)
    cmds, expect, meta = [], [], []
    for v, r, err in res:
        if r is None:
            raise RuntimeError(f"C16 worker for version {v} failed:\n{err}")
        for c in r["cases"]:
            R.case(key=c["key"], nontrivial=c["nontrivial"], sample=c.get("sample"), tags=c["tags"])
            cmds.append(c["cmd"]); expect.append(c["obs"]); meta.append(c)
        for viol in r["violations"]:
            R.violation(viol["signature"], viol["what"], viol["replay"])
        if r.get("unconfirmed"):
            R.extra.setdefault("unconfirmed_violations", []).extend({"version": v, **x} for x in r["unconfirmed"][:5])
    drv = ctx.driver()
    if drv is not None:
        out = drv.batch(cmds)
        for cmd, o, x, m in zip(cmds, out, expect, meta):
            if o != x:
                R.mismatch(cmd, {"cmd": cmd, "key": m["key"]}, impl=x, model=o)
            else:
                R.traces += 1
    else:
        R.extra["driver"] = "unavailable (Lean build failed) - oracles only"
    H = json.load(open(os.path.join(common.ROOT, "gen", "helpers.json")))
    R.generated_obligations = len(versions) + 2       # versionOK per version + helpersOK (effects, conditions)
    R.extra["helpers"] = {"effects": len(H["effect_helpers"]), "conditions": len(H["condition_helpers"]), "versions": len(versions)}
    return R.to_json(exhaustive=True)
