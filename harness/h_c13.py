"""C13 – saving never destroys existing files unexpectedly.

Two parts, both on the real `write_to_file` (no source hooks: everything is monkey-patched from here):

1. **event-trace correspondence** – `_validate_before_write`, the registered on-write callbacks,
   `AoE2Scenario._internal_on_write`, `XsManagerDE.validate_scenario_xs`, every `AoE2Object.commit`, every section /
   retriever `get_data_as_bytes`, `_compress_bytes`, every write-mode `open` (builtins and io) and the file-level
   operations of `os` are wrapped; the event sequence of a real save is reduced to its order classes (run lengths)
   and compared with `pipeline` of the Lean model (driver command `pipeline`), including the abstraction of
   DESIGN 2.4: the number of fallible events after the destination has been opened (expected 0).
2. **fault enumeration** – a failure is raised at every event index of a save of a small scenario (map 4x4), for
   both values of ALLOW_OVERWRITING_SOURCE x skip_validation on/off x destination absent / present with other
   content / same as source (quick: every index x every destination state with the other settings rotating, every
   configuration at the boundaries of each step class, one loaded scenario reused while no attempt reached a
   mutating phase; thorough: the full product on freshly loaded scenarios, a larger map), plus natural
   faults (an unrepresentable value in every section, a failing callback, a variant validation error, a script
   validation error, a commit that raises, an unopenable destination).  Observation per case (also what the model
   answers): `ok|error dest=<absent|old|new|partial> src=<…> rest=<same|changed>` over the whole case directory.

Oracle = the clauses of the property evaluated on the files:
  refused_by_default     default setting, validation on, destination = loaded path  ->  error and nothing changed
  allowed_when_enabled   setting enabled, destination = loaded path, no fault        ->  ok and the file is the new one
  failure_keeps_files    the save raised (fault at or before the open)               ->  directory exactly as before
  success_writes_dest    the save returned                                           ->  destination complete, all else as before

The guard polarity of the model is a parameter: the driver is asked for both polarities; the implementation has to
agree with ONE polarity on every case of the run (`fixed` preferred).  Where it only agrees with `pinned`, the
oracle has already reported those cases as violations (defect F1) – that is not a model mismatch.
"""
import builtins, collections, contextlib, hashlib, io, os, shutil, sys, tempfile
from harness import common


class InjectedFault(Exception):
    """raised by the tracer at the scheduled event index"""


WRITE_MODE = set("wax+")
POST_OPEN_OK = ("write", "close")        # sub-events of the final open/write: not fallible steps of the model
KIND_ORDER = ["validate", "callback", "filename", "xs", "commit", "serialise", "compress", "open"]


class _FileProxy:
    """wraps a file opened for writing so that `write` / `close` are events too"""
    def __init__(self, f, tracer, pre):
        object.__setattr__(self, "_f", f)
        object.__setattr__(self, "_t", tracer)
        object.__setattr__(self, "_p", pre)         # "" for the destination, "tmp" for any other path

    def write(self, data):
        self._t.event(self._p + "write", "file")
        return self._f.write(data)

    def close(self):
        self._t.event(self._p + "close", "file")
        return self._f.close()

    def __enter__(self):
        self._f.__enter__()
        return self

    def __exit__(self, *a):
        self._t.event(self._p + "close", "file", fallible=False)
        return self._f.__exit__(*a)

    def __getattr__(self, n):
        return getattr(self._f, n)

    def __iter__(self):
        return iter(self._f)


class Tracer:
    """Records the events of one traced call and raises at a scheduled event index (before the event's own work)."""

    def __init__(self):
        self.patches = []
        self.active = False
        self.reset()

    def is_dest(self, path):
        try:
            return self.dest is not None and os.path.abspath(os.fspath(path)) == os.path.abspath(self.dest)
        except TypeError:
            return False

    def reset(self, fault_at=None, exc=None, dest=None):
        self.dest = dest
        self.events = []          # (kind, label)
        self.fault_at = fault_at
        self.exc = exc
        self.fired = False
        self.first_exc_idx = None
        self.open_paths = []

    # -- events ------------------------------------------------------------------------------------------
    def event(self, kind, label, fallible=True):
        if not self.active:
            return None
        idx = len(self.events)
        self.events.append((kind, label))
        if fallible and self.fault_at is not None and idx == self.fault_at:
            self.fired = True
            self.first_exc_idx = idx
            raise (self.exc() if self.exc else InjectedFault(f"injected at event {idx} ({kind}:{label})"))
        return idx

    def wrap_fn(self, orig, kind, labeller):
        tracer = self

        def w(*a, **k):
            idx = tracer.event(kind, labeller(*a, **k))
            if idx is None:
                return orig(*a, **k)
            try:
                return orig(*a, **k)
            except BaseException:
                if tracer.first_exc_idx is None:
                    tracer.first_exc_idx = idx
                raise
        w.__wrapped__ = orig
        return w

    def patch(self, owner, name, kind, labeller=lambda *a, **k: ""):
        try:
            orig = owner.__dict__[name] if isinstance(owner, type) else getattr(owner, name)
        except (KeyError, AttributeError):
            # the private step this hook observes is not there under that name (renamed / merged by a rewrite): no events
            # of this kind are seen, `without_unobserved` takes the kind out of the model's line; faults are injected at
            # the events that exist
            self.missing_hooks = getattr(self, "missing_hooks", []) + [f"{getattr(owner, '__name__', owner)}.{name}"]
            return
        is_static = isinstance(orig, staticmethod)
        fn = orig.__func__ if is_static else orig
        w = self.wrap_fn(fn, kind, labeller)
        self.patches.append((owner, name, orig))
        setattr(owner, name, staticmethod(w) if is_static else w)

    def patch_fsop(self, owner, name):
        """file-level operations of `os`: an event of kind `fsop` when one of the paths is the destination, else `tmpfsop`"""
        tracer = self
        orig = getattr(owner, name)

        def w(*a, **k):
            if not tracer.active:
                return orig(*a, **k)
            hit = any(tracer.is_dest(x) for x in list(a[:2]) + [k.get("src"), k.get("dst"), k.get("path")] if x is not None)
            idx = tracer.event("fsop" if hit else "tmpfsop", name)
            try:
                return orig(*a, **k)
            except BaseException:
                if tracer.first_exc_idx is None:
                    tracer.first_exc_idx = idx
                raise
        self.patches.append((owner, name, orig))
        setattr(owner, name, w)

    def patch_open(self, owner):
        tracer = self
        orig = owner.open

        def w(file, mode="r", *a, **k):
            if not tracer.active or not (set(str(mode)) & WRITE_MODE):
                return orig(file, mode, *a, **k)
            pre = "" if tracer.is_dest(file) else "tmp"
            idx = tracer.event(pre + "open", str(file))
            tracer.open_paths.append(str(file))
            try:
                f = orig(file, mode, *a, **k)
            except BaseException:
                if tracer.first_exc_idx is None:
                    tracer.first_exc_idx = idx
                raise
            return _FileProxy(f, tracer, pre)
        self.patches.append((owner, "open", orig))
        owner.open = w

    def callback(self, fn, i):
        """the wrapped form of an on-write callback (registered by the harness through `scenario.on_write`)"""
        return self.wrap_fn(fn, "callback", lambda *a, **k: str(i))

    def install(self):
        from AoE2ScenarioParser.scenarios import aoe2_scenario as A
        from AoE2ScenarioParser.objects.aoe2_object import AoE2Object
        from AoE2ScenarioParser.sections.aoe2_file_section import AoE2FileSection
        from AoE2ScenarioParser.sections.retrievers.retriever import Retriever
        from AoE2ScenarioParser.objects.managers.de.xs_manager_de import XsManagerDE
        self.patch(A.AoE2Scenario, "_validate_before_write", "validate")
        self.patch(A.AoE2Scenario, "_internal_on_write", "filename")
        self.patch(XsManagerDE, "validate_scenario_xs", "xs")
        self.patch(AoE2Object, "commit", "commit", lambda self_, *a, **k: type(self_).__name__)
        self.patch(AoE2FileSection, "get_data_as_bytes", "serialise", lambda self_, *a, **k: "S:" + str(getattr(self_, "name", "")))
        self.patch(Retriever, "get_data_as_bytes", "serialise", lambda self_, *a, **k: "R:" + str(getattr(self_, "name", "")))
        self.patch(A, "_compress_bytes", "compress")
        self.patch_open(builtins)
        self.patch_open(io)
        import os as _os
        for n in ("rename", "replace", "remove", "unlink", "truncate", "rmdir", "link", "symlink"):
            if hasattr(_os, n):
                self.patch_fsop(_os, n)

    def uninstall(self):
        for owner, name, orig in reversed(self.patches):
            setattr(owner, name, orig)
        self.patches = []

    # -- abstractions of a finished trace ---------------------------------------------------------------
    def run_lengths(self):
        """order classes of the fallible events; writes to paths other than the destination (a temporary file) are not
        steps of the model, and the event that makes the new content appear at the destination counts as `open`"""
        out = []
        for kind, _ in self.events:
            if kind in POST_OPEN_OK or kind.startswith("tmp"):
                continue
            kind = "open" if kind == "fsop" else kind
            if out and out[-1][0] == kind:
                out[-1][1] += 1
            else:
                out.append([kind, 1])
        return out

    def first_fs_event(self):
        """first event that touches the destination"""
        for i, (kind, _) in enumerate(self.events):
            if kind in ("open", "fsop"):
                return i
        return None

    def after_open(self):
        i = self.first_fs_event()
        if i is None:
            return 0
        return sum(1 for kind, _ in self.events[i + 1:] if kind not in POST_OPEN_OK)

    def fs_steps(self):
        return sum(1 for kind, _ in self.events if kind in ("open", "fsop"))

    def count(self, kind):
        return sum(1 for k, _ in self.events if k == kind)


def sha(b):
    return hashlib.sha256(b).hexdigest()[:16]


def snapshot(d):
    out = {}
    for root, dirs, files in os.walk(d):
        for dn in dirs:
            out[os.path.relpath(os.path.join(root, dn), d)] = "dir"
        for fn in files:
            p = os.path.join(root, fn)
            with open(p, "rb") as f:
                out[os.path.relpath(p, d)] = sha(f.read())
    return out


DEST_STATES = ("same", "present", "absent")
OLD_DEST = b"previous content of the destination - must survive a failed save\n"
BYSTANDER = b"bystander\n"


def run(ctx):
    settings = common.lib_setup()
    from AoE2ScenarioParser.scenarios.aoe2_de_scenario import AoE2DEScenario
    from AoE2ScenarioParser.scenarios import aoe2_scenario as A

    R = common.Result(
        "a failure raised at every event index of a real save (validate, callbacks, filename, xs, every commit, every "
        "section/retriever get_data_as_bytes, compress, open) of a 4x4-map scenario x ALLOW_OVERWRITING_SOURCE x "
        "skip_validation x destination {same as source, present with other content, absent}: quick = every index with "
        "the 12 configurations rotating + all 12 at the first/last index of each step class; thorough = full product, "
        "skip_reconstruction, larger map; + natural faults (2**40 in one integer field of every section, failing "
        "callback at each position, variant/script validation errors, raising commit, unopenable destination) x 12 "
        "configurations; + event-trace order classes of unfaulted saves. distinct by (map, configuration, fault); "
        "non-trivial = a fault fired or the destination existed before the save")
    rng = ctx.rng
    tmp = tempfile.mkdtemp(prefix="c13_")
    tracer = Tracer()
    quiet = contextlib.redirect_stdout(io.StringIO())
    saved_settings = (settings.ALLOW_OVERWRITING_SOURCE, settings.ENABLE_XS_CHECK_INTEGRATION)
    cmds, pend = [], []          # driver command lines / per-case records waiting for the model's answers
    seq = [0]

    def quietly(fn, *a, **k):
        with contextlib.redirect_stdout(io.StringIO()), contextlib.redirect_stderr(io.StringIO()):
            return fn(*a, **k)

    # ---- base files: the shipped default scenario, shrunk, saved once by the library ---------------------------
    default_path = A._get_version_default_scenario_filepath("DE", ".".join(map(str, AoE2DEScenario.LATEST_VERSION)))
    bases = {}

    def base(map_size):
        if map_size not in bases:
            d = os.path.join(tmp, f"base{map_size}")
            os.makedirs(d)
            s0 = os.path.join(d, "default_copy.aoe2scenario")
            shutil.copyfile(default_path, s0)
            scn = quietly(AoE2DEScenario.from_file, s0)
            scn.map_manager.map_size = map_size
            fn = os.path.join(d, "src.aoe2scenario")
            quietly(scn.write_to_file, fn, skip_validation=True)
            with open(fn, "rb") as f:
                bases[map_size] = f.read()
        return bases[map_size]

    # ---- natural fault preparations -----------------------------------------------------------------------------
    int_fields = {}

    def section_int_fields(scn):
        """per section: the first scalar integer retriever (where an unrepresentable value can be planted)"""
        if not int_fields:
            for sname, sec in scn.sections.items():
                for rname, r in sec.retriever_map.items():
                    v = str(r.datatype.var)
                    if v[:1] in "us" and v[1:].isdigit() and r.datatype.repeat == 1 and isinstance(r.data, int):
                        int_fields[sname] = rname
                        break
        return int_fields

    def prepare(scn, cfg):
        """the edits every case makes (so that the new file differs from the source) + the natural fault, if any"""
        scn.sections["FileHeader"].creator_name = "c13-" + str(cfg.get("map", 4))
        scn.player_manager.players[1].food = 4321
        nat = cfg.get("natural")
        if not nat:
            return
        kind = nat[0]
        if kind == "value":                     # an unrepresentable value (does not fit any integer field)
            sec = nat[1]
            setattr(scn.sections[sec], section_int_fields(scn)[sec], 2 ** 40)
        elif kind == "variant":                 # `_validate_scenario_variant` raises (ValueError: 99 is not a ScenarioVariant)
            scn.sections["FileHeader"].unknown_value_2 = 99
        elif kind == "xs":                      # script validation: a script call with parameters is rejected
            tr = scn.trigger_manager.add_trigger("xs")          # (the integration is switched on around the traced save)
            tr.new_effect.script_call(message="doThings(1, 2)")
        elif kind == "commit":                  # reconstruction raises (`None * 65536` in Effect.quantity)
            tr = scn.trigger_manager.add_trigger("aa")
            e = tr.new_effect.change_object_attack(armour_attack_class=1, armour_attack_quantity=2)
            e.armour_attack_quantity = None
        elif kind == "callback":
            pass                                # registered below
        elif kind in ("nodir", "isdir"):
            pass                                # destination shapes, handled by the caller
        else:
            raise ValueError(f"unknown natural fault {nat}")

    references = {}

    def reference(cfg, stem):
        """bytes an unfaulted save of the identically prepared scenario produces for this destination stem"""
        nat = cfg.get("natural")
        key = (cfg.get("map", 4), bool(cfg["sr"]), stem, tuple(nat) if nat and nat[0] in ("variant", "xs", "commit") else None)
        if key not in references:
            d = tempfile.mkdtemp(prefix="ref_", dir=tmp)
            try:
                s = os.path.join(d, "in", "src.aoe2scenario")
                os.makedirs(os.path.dirname(s))
                with open(s, "wb") as f:
                    f.write(base(cfg.get("map", 4)))
                scn = quietly(AoE2DEScenario.from_file, s)
                prepare(scn, {"map": cfg.get("map", 4), "natural": list(key[3]) if key[3] else None})
                out = os.path.join(d, stem + ".aoe2scenario")
                quietly(scn.write_to_file, out, skip_reconstruction=bool(cfg["sr"]), skip_validation=True)
                with open(out, "rb") as f:
                    references[key] = sha(f.read())
            except Exception as e:              # a tree on which no save works at all: "new" is then unrecognisable
                references[key] = "unavailable:" + type(e).__name__
            finally:
                shutil.rmtree(d, ignore_errors=True)
        return references[key]

    def classify(pre, post, ref):
        if post is None:
            return "absent" if pre is None else "partial"
        if post == pre:
            return "old"
        return "new" if post == ref else "partial"

    def cfg_key(cfg):
        return (cfg.get("map", 4), cfg["allow"], cfg["sv"], cfg["sr"], cfg["dest"], cfg.get("ncb", 0),
                cfg.get("fault"), tuple(cfg["natural"]) if cfg.get("natural") else None,
                tuple(sorted((cfg.get("other") or {}).items())), cfg.get("spell"))

    # ---- one case: a real save in a fresh directory --------------------------------------------------------------
    pool = {}                    # quick tier: a loaded scenario is reused while no save attempt got as far as mutating it
    pool_stats = {"loads": 0, "reused": 0, "redone_fresh": 0}

    def run_case(cfg, tag, fresh=False):
        """cfg: allow, sv, sr, dest in DEST_STATES, ncb (callbacks), fault (event index | None), natural (list | None), map"""
        seq[0] += 1
        nat = cfg.get("natural")
        pkey = (cfg.get("map", 4), cfg.get("ncb", 0))
        poolable = ctx.quick and not ctx.replay and not nat and not cfg.get("other") and not cfg.get("spell")
        scn = None
        reused = False
        if poolable and not fresh and pkey in pool:
            reused = True
            d, scn = pool.pop(pkey)
            for n in os.listdir(d):
                q = os.path.join(d, n)
                shutil.rmtree(q) if os.path.isdir(q) else os.remove(q)
            pool_stats["reused"] += 1
        else:
            d = tempfile.mkdtemp(prefix=f"case{seq[0]}_", dir=tmp)
        keep = False
        try:
            src = os.path.join(d, "src.aoe2scenario")
            with open(src, "wb") as f:
                f.write(base(cfg.get("map", 4)))
            with open(os.path.join(d, "bystander.txt"), "wb") as f:
                f.write(BYSTANDER)
            if cfg.get("spell") == "dot":
                src = os.path.join(d, ".", "src.aoe2scenario")
            elif cfg.get("spell") == "dslash":
                src = d + os.sep + os.sep + "src.aoe2scenario"
            if cfg["dest"] == "same":
                dest = "".join([src[:1], src[1:]])      # an EQUAL path string, not the same str object (what a caller builds)
            elif nat and nat[0] == "nodir":
                dest = os.path.join(d, "missing_dir", "out.aoe2scenario")
            elif nat and nat[0] == "isdir":
                dest = os.path.join(d, "out.aoe2scenario")
                os.makedirs(dest)
            else:
                dest = os.path.join(d, "out.aoe2scenario")
                if cfg["dest"] == "present":
                    with open(dest, "wb") as f:
                        f.write(OLD_DEST)
            settings.ALLOW_OVERWRITING_SOURCE = saved_settings[0]
            settings.ENABLE_XS_CHECK_INTEGRATION = False
            if scn is None:
                pool_stats["loads"] += 1
                scn = quietly(AoE2DEScenario.from_file, src)          # `source_location` = the string `src`
                prepare(scn, cfg)
                for i in range(cfg.get("ncb", 0)):
                    if nat and nat[0] == "callback" and nat[1] == i:
                        def cb(s, i=i):
                            raise RuntimeError(f"on-write callback {i} failed")
                    else:
                        def cb(s, i=i):
                            return None
                    scn.on_write(tracer.callback(cb, i))
            ref = reference(cfg, os.path.splitext(os.path.basename(dest))[0])
            pre = snapshot(d)
            settings.ALLOW_OVERWRITING_SOURCE = bool(cfg["allow"])
            settings.ENABLE_XS_CHECK_INTEGRATION = bool(nat and nat[0] == "xs")
            other_saved = {k: getattr(settings, k) for k in (cfg.get("other") or {})}
            for k, v in (cfg.get("other") or {}).items():          # any OTHER setting at a non-default value
                setattr(settings, k, v)
            tracer.reset(fault_at=cfg.get("fault"), dest=dest)
            cwd = os.getcwd()
            os.chdir(d)              # a stray relative-path write (error dump, temp file) lands inside the observed directory
            tracer.active = True
            try:
                st, exc = quietly(common.outcome, scn.write_to_file, dest, skip_reconstruction=bool(cfg["sr"]),
                                  skip_validation=bool(cfg["sv"]))
            finally:
                tracer.active = False
                os.chdir(cwd)
                settings.ALLOW_OVERWRITING_SOURCE = saved_settings[0]
                settings.ENABLE_XS_CHECK_INTEGRATION = False
                for k, v in other_saved.items():
                    setattr(settings, k, v)
            post = snapshot(d)
            # reuse the object only if the attempt failed before / after the phases that mutate it (callbacks, commit)
            fk = tracer.events[tracer.first_exc_idx][0] if tracer.first_exc_idx is not None else None
            keep = poolable and st == "error" and fk in ("validate", "filename", "xs", "serialise", "compress", "open")
        finally:
            if keep:
                pool[pkey] = (d, scn)
            else:
                shutil.rmtree(d, ignore_errors=True)
        if reused and st == "ok":
            # a second commit of one object consumes a unit id (`next_unit_id_to_place`), so the bytes of a successful
            # save are only comparable with the reference on a freshly loaded scenario: redo this case from scratch
            pool_stats["redone_fresh"] += 1
            return run_case(cfg, tag, fresh=True)
        rd, rs = os.path.relpath(dest, d), "src.aoe2scenario"
        rest_same = all(pre.get(k) == post.get(k) for k in set(pre) | set(post) if k not in (rd, rs))
        obs = (f"{st} dest={classify(pre.get(rd), post.get(rd), ref)} src={classify(pre.get(rs), post.get(rs), ref)} "
               f"rest={'same' if rest_same else 'changed'}")
        ev = list(tracer.events)
        open_idx = tracer.first_fs_event()
        res = {"cfg": cfg, "obs": obs, "outcome": st, "exc": exc if st == "error" else None, "unchanged": pre == post,
               "fired": tracer.fired, "first_exc_idx": tracer.first_exc_idx, "n_events": len(ev), "open_idx": open_idx,
               "rl": tracer.run_lengths(), "after_open": tracer.after_open(), "fs_steps": tracer.fs_steps(),
               "open_paths": list(tracer.open_paths), "dest_path_ok": all(p == dest for p in tracer.open_paths),
               "counts": {k: tracer.count(k) for k in KIND_ORDER}, "tag": tag, "kinds": [k for k, _ in ev],
               "new_files": sorted(set(post) - set(pre)), "changed": sorted(k for k in pre if post.get(k) != pre[k]),
               "fault_kind": ev[cfg["fault"]][0] if (tracer.fired and cfg.get("fault") is not None) else None}
        judge(res)
        return res

    # ---- the property's clauses on one case ----------------------------------------------------------------------
    def fault_label(res):
        cfg = res["cfg"]
        if cfg.get("natural"):
            return "natural:" + str(cfg["natural"][0])
        if cfg.get("fault") is not None and res["fired"]:
            return "injected"
        return "none"

    sig_count = {}

    def judge(res):
        cfg, obs, st = res["cfg"], res["obs"], res["outcome"]
        fl = fault_label(res)
        faulted = fl != "none"
        post_open = res["fired"] and res.get("fault_kind") in POST_OPEN_OK     # failure inside the final f.write / close
        sig0 = {"dest": cfg["dest"], "allow": bool(cfg["allow"]), "skip_validation": bool(cfg["sv"]),
                "skip_reconstruction": bool(cfg["sr"]), "fault": fl, "fault_kind": res.get("fault_kind"),
                "observed": obs}
        replay = {"op": "case", "cfg": cfg}
        key = cfg_key(cfg)
        R.case(key=key, nontrivial=(faulted or cfg["dest"] != "absent"),
               sample={"cfg": cfg, "obs": obs, "events": res["n_events"]},
               tags=(f"dest:{cfg['dest']}", f"allow:{int(bool(cfg['allow']))}", f"sv:{int(bool(cfg['sv']))}",
                     f"outcome:{st}", f"fault:{fl}", f"phase:{res['tag']}"))
        if post_open:
            # failure inside the final write: outside the property ("before serialisation completes") and the model
            lst = R.extra.setdefault("post_open_write_fault_outside_property", [])
            if len(lst) < 4:
                lst.append({"cfg": cfg, "obs": obs})
            res["skip_model"] = True
            return
        bad = []
        if cfg["dest"] == "same" and not cfg["allow"] and not cfg["sv"]:
            if not (st == "error" and res["unchanged"]):
                bad.append(("refused_by_default", "default settings, destination = loaded path: expected an error and an "
                            f"untouched source, observed `{obs}`"))
        if cfg["dest"] == "same" and cfg["allow"] and not faulted:
            if not (st == "ok" and " dest=new " in obs + " "):
                bad.append(("allowed_when_enabled", "ALLOW_OVERWRITING_SOURCE=True, destination = loaded path, no fault: "
                            f"expected the save to succeed, observed `{obs}` ({res['exc']})"))
        if st == "error" and not res["unchanged"]:
            bad.append(("failure_keeps_files", f"the save raised {res['exc']} ({fl}, event {res['first_exc_idx']}) but the "
                        f"directory changed: new={res['new_files']} changed={res['changed']} (`{obs}`)"))
        if st == "ok":
            good = obs.startswith("ok dest=new ") and obs.endswith("rest=same") and \
                (cfg["dest"] == "same" or " src=old " in obs)
            if not good:
                bad.append(("success_writes_dest", f"the save returned but the files are `{obs}` (new={res['new_files']} changed={res['changed']})"))
        for clause, what in bad:
            sig = {"clause": clause, **sig0}
            sk = tuple(sorted((k, str(v)) for k, v in sig.items()))
            sig_count[sk] = sig_count.get(sk, 0) + 1
            if sig_count[sk] <= 2:            # the same kind of failure is recorded twice at most (the list is capped)
                R.violation(sig, what, replay)
        res["violated"] = [c for c, _ in bad]

    # ---- model queries --------------------------------------------------------------------------------------------
    def model_cmds(res):
        cfg, c = res["cfg"], res["counts"]
        nat = cfg.get("natural")
        variant = 0 if (nat and nat[0] == "variant") else 1
        # index of the failing event among the model-relevant events (a temporary-file event maps to the step it precedes)
        def mi(k):
            """model index of impl event k. The model's single steps (validate, filename, xs, compress) that precede the
            event's kind in the pipeline but were NOT observed before it (the private function the tracer hooks is no
            longer on the path) still occupy their place in the model's pipeline"""
            before = [kd for kd in res["kinds"][:k] if not (kd in POST_OPEN_OK or kd.startswith("tmp"))]
            naive = len(before)
            if k >= len(res["kinds"]) or res["kinds"][k] not in KIND_ORDER:
                return naive
            kd = res["kinds"][k]
            single = [x for x in ("validate", "filename", "xs", "compress") if not (x == "validate" and cfg["sv"])]
            return naive + sum(1 for x in single if KIND_ORDER.index(x) < KIND_ORDER.index(kd) and x not in before)
        if res["fired"]:
            fault = mi(cfg["fault"])
        elif nat and nat[0] != "variant" and res["first_exc_idx"] is not None and res["outcome"] == "error":
            fault = mi(res["first_exc_idx"])
        else:
            fault = None
        # step counts of the model = event counts of the unfaulted trace of this configuration
        full = trace_counts.get((cfg.get("map", 4), bool(cfg["sv"]), bool(cfg["sr"]), cfg.get("ncb", 0)))
        if nat and nat[0] in ("xs", "commit"):
            full = None          # these scenarios have their own (longer) pipeline: take the counts of this very run
        if full is None:
            # counts up to the failure, padded so that the fault index lies inside the pipeline
            full = dict(c)
            full["serialise"] = max(full["serialise"], 1)
            if fault is not None:
                n = (0 if cfg["sv"] else 1) + cfg.get("ncb", 0) + 2 + (0 if cfg["sr"] else full["commit"]) + full["serialise"] + 2
                if fault >= n:
                    full["serialise"] += fault - n + 1
        dest = "same" if cfg["dest"] == "same" else "other"
        present = "present" if cfg["dest"] in ("same", "present") or (nat and nat[0] == "isdir") else "absent"
        base_ = (f"allow={int(bool(cfg['allow']))} sv={int(bool(cfg['sv']))} sr={int(bool(cfg['sr']))} dest={dest} "
                 f"file={present} variant={variant} cbs={cfg.get('ncb', 0)} commits={0 if cfg['sr'] else full['commit']} "
                 f"sers={full['serialise']} fault={'None' if fault is None else fault}")
        return [f"save guard=fixed {base_}", f"save guard=pinned {base_}"]

    trace_counts = {}

    def queue(res):
        if res.get("skip_model"):
            return
        for cmd in model_cmds(res):
            cmds.append(cmd)
        pend.append(res)

    # ================================================================================================================
    try:
        tracer.install()
        maps = [4]
        ALL12 = [(a, sv, d) for a in (False, True) for sv in (False, True) for d in DEST_STATES]

        def mk(a, sv, d, sr=False, ncb=0, fault=None, natural=None, mp=4, other=None):
            c = {"allow": a, "sv": sv, "sr": sr, "dest": d, "ncb": ncb, "fault": fault, "natural": natural, "map": mp}
            if other:
                c["other"] = dict(other)
            return c

        # ---- corpus / replay first --------------------------------------------------------------------------------
        for c in ctx.corpus():
            rp = c.get("replay", c)
            if rp.get("op") == "case":
                cfg = dict(rp["cfg"])
                if cfg.get("natural") is not None:
                    cfg["natural"] = list(cfg["natural"])
                k = (cfg.get("map", 4), bool(cfg["sv"]), bool(cfg["sr"]), cfg.get("ncb", 0))
                if k not in trace_counts:
                    t = run_case(mk(False, cfg["sv"], "absent", sr=cfg["sr"], ncb=cfg.get("ncb", 0), mp=cfg.get("map", 4)), "trace")
                    trace_counts[k] = dict(t["counts"])
                    queue(t)
                queue(run_case(cfg, "corpus"))

        # ---- (1) event traces of unfaulted saves: order classes versus the model's pipeline -----------------------
        trace_cmds, trace_expect, trace_meta = [], [], []

        def do_trace(mp, sv, sr, ncb):
            res = run_case(mk(False, sv, "absent", sr=sr, ncb=ncb, mp=mp), "trace")
            trace_counts[(mp, sv, sr, ncb)] = dict(res["counts"])
            c = res["counts"]
            rl = " ".join(f"{k}:{n}" for k, n in res["rl"])
            n_fallible = sum(n for k, n in res["rl"])
            impl = f"{rl} n={n_fallible} fs_steps={res['fs_steps']} after_open={res['after_open']}"
            if res["outcome"] != "ok":
                impl = "error " + impl
            trace_cmds.append(f"pipeline sv={int(sv)} sr={int(sr)} cbs={ncb} commits={c['commit']} sers={c['serialise']}")
            trace_expect.append(impl)
            trace_meta.append({"map": mp, "sv": sv, "sr": sr, "ncb": ncb, "writes_only_to_dest": res["dest_path_ok"]})
            queue(res)
            return res

        for sv in (False, True):
            for sr in (False, True):
                for ncb in (0, 2):
                    do_trace(4, sv, sr, ncb)
        for ncb in (1, 3):
            do_trace(4, False, False, ncb)
            do_trace(4, True, False, ncb)
        if not ctx.quick:
            maps.append(10)
            for sv in (False, True):
                do_trace(10, sv, False, 1)

        # ---- (2a) the configuration matrix without faults ----------------------------------------------------------
        for a, sv, d in ALL12:
            for sr in (False, True):
                for ncb in (0, 2):
                    queue(run_case(mk(a, sv, d, sr=sr, ncb=ncb), "matrix"))

        # ---- (2a'') the source named by a path that is not in normal form (`dir/./x`, `dir//x`): loaded from and saved to the
        # SAME spelling - the guard has to recognise its own source whatever normalisation `from_file` applies to the string
        for spell in ("dot", "dslash"):
            for a in (False, True):
                for sv in (False, True):
                    queue(run_case({**mk(a, sv, "same"), "spell": spell}, "path-spelling"))

        # ---- (2a') the same matrix with every OTHER setting at its non-default value (one at a time) -----------------
        OTHER = [{"SHOW_VARIANT_WARNINGS": False}, {"NOTIFY_UNKNOWN_BYTES": False}, {"ALLOW_DIRTY_RETRIEVER_OVERWRITE": True},
                 {"PRINT_STATUS_UPDATES": True}]
        for o in OTHER:
            for a, sv, d in ALL12:
                queue(run_case(mk(a, sv, d, ncb=1, other=o), "other-settings"))
        R.extra["other_settings_explored"] = OTHER

        # ---- (2b) injected faults: every event index ---------------------------------------------------------------
        def kind_bounds(res):
            """first and last event index of each run of one kind in an unfaulted trace (+ the write sub-event)"""
            out, i = [], 0
            for k, n in res["rl"]:
                out += [i, i + n - 1]
                i += n
            return sorted(set(out))

        full_product = (not ctx.quick) or ctx.escalate
        for mp in maps:
            for sv in (False, True):
                ncb = 1
                tr = run_case(mk(False, sv, "absent", ncb=ncb, mp=mp), "trace")
                bounds = set(kind_bounds(tr))
                informational = False
                for k, kind in enumerate(tr["kinds"]):
                    if kind in POST_OPEN_OK:
                        # a failure inside the final write/close is outside the property and the model: one point, recorded only
                        if informational:
                            continue
                        informational = True
                        combos = [(False, "present")]
                    elif full_product and mp == 4:
                        combos = [(a, d) for a in (False, True) for d in DEST_STATES]
                    elif k in bounds:
                        combos = [(a, d) for a in (False, True) for d in DEST_STATES]
                    elif not sv and mp == 4:
                        combos = [((k + j) % 2 == 1, d) for j, d in enumerate(DEST_STATES)]     # every destination state
                    else:
                        combos = [((k // 3) % 2 == 1, DEST_STATES[k % 3])]
                        if (k % 7) == rng.randrange(7):
                            combos.append((rng.random() < 0.5, rng.choice(DEST_STATES)))
                    for a, d in combos:
                        queue(run_case(mk(a, sv, d, ncb=ncb, fault=k, mp=mp), "inject"))
        # skip_reconstruction: every index once (quick: every 3rd), destination states rotating
        tr = run_case(mk(False, False, "absent", sr=True, ncb=1), "trace")
        for k in range(0, len(tr["kinds"]), 3 if ctx.quick else 1):
            if tr["kinds"][k] in POST_OPEN_OK:
                continue
            queue(run_case(mk((k // 3) % 2 == 1, False, DEST_STATES[k % 3], sr=True, ncb=1, fault=k), "inject-sr"))

        # ---- (2c) natural faults ------------------------------------------------------------------------------------
        probe = quietly(AoE2DEScenario.from_file, os.path.join(tmp, "base4", "src.aoe2scenario"))
        secs = list(section_int_fields(probe))
        naturals = [["value", s] for s in secs]
        R.extra["unrepresentable_value_fields"] = {s: int_fields[s] for s in secs}
        for nat in naturals + [["variant"], ["xs"], ["commit"]]:
            for a, sv, d in ALL12:
                queue(run_case(mk(a, sv, d, ncb=1, natural=nat), "natural"))
        for pos in (0, 1, 2):
            for a, sv, d in ALL12:
                queue(run_case(mk(a, sv, d, ncb=3, natural=["callback", pos]), "natural"))
        for a in (False, True):
            for sv in (False, True):
                queue(run_case(mk(a, sv, "absent", ncb=1, natural=["nodir"]), "natural"))
                queue(run_case(mk(a, sv, "present", ncb=1, natural=["isdir"]), "natural"))
        # seeded random mixtures: natural fault + injected fault earlier/later, several callbacks
        for _ in range(ctx.budget(60, 600)):
            a, sv, d = rng.choice(ALL12)
            nat = rng.choice(naturals + [["variant"], ["callback", 0]])
            ncb = rng.choice((1, 2, 3))
            if nat[0] == "callback":
                nat = ["callback", rng.randrange(ncb)]
            queue(run_case(mk(a, sv, d, ncb=ncb, fault=rng.choice([None, rng.randrange(0, 960)]), natural=nat), "mixed"))
        # ---- the settings as SHIPPED (a fresh process that touches no setting): the overwrite must be refused -----------
        import subprocess
        d = os.path.join(tmp, "shipped_defaults"); os.makedirs(d)
        src = os.path.join(d, "src.aoe2scenario")
        with open(src, "wb") as f:
            f.write(base(4))
        before = sha(open(src, "rb").read())
        child = ("import sys, io, contextlib\n"
                 "from AoE2ScenarioParser.scenarios.aoe2_de_scenario import AoE2DEScenario\n"
                 "with contextlib.redirect_stdout(io.StringIO()):\n"
                 "    s = AoE2DEScenario.from_file(sys.argv[1])\n"
                 "    try:\n"
                 "        s.write_to_file(sys.argv[1])\n"
                 "        r = 'ok'\n"
                 "    except Exception as e:\n"
                 "        r = 'error:' + type(e).__name__\n"
                 "sys.stderr.write('RESULT ' + r + '\\n')\n")
        pr = subprocess.run([sys.executable, "-c", child, src], capture_output=True, text=True, timeout=600, cwd=d,
                            env={**os.environ, "PYTHONPATH": common.REPO, "PYTHONDONTWRITEBYTECODE": "1"})
        res_line = next((l for l in pr.stderr.splitlines() if l.startswith("RESULT ")), "RESULT crash")
        after = sha(open(src, "rb").read()) if os.path.exists(src) else None
        R.case(key="shipped-defaults", nontrivial=True, tags=("settings:as-shipped",))
        if not res_line.startswith("RESULT error") or after != before:
            R.violation({"clause": "refused_by_default", "settings": "as shipped (untouched)", "observed": res_line[7:], "source": "old" if after == before else "changed"},
                        f"a fresh process that touches no setting: write_to_file(<loaded path>) gives `{res_line[7:]}`, the source file is "
                        f"{'unchanged' if after == before else 'CHANGED'}; with the default settings the overwrite has to be refused",
                        {"op": "shipped-defaults"})
        # ---- the loaded path stays protected after the scenario was saved elsewhere (a sequence: load A, save B, save A) ---
        d2 = os.path.join(tmp, "save_elsewhere_first"); os.makedirs(d2)
        src2, other2 = os.path.join(d2, "src.aoe2scenario"), os.path.join(d2, "other.aoe2scenario")
        with open(src2, "wb") as f:
            f.write(base(4))
        before2 = sha(open(src2, "rb").read())
        settings.ALLOW_OVERWRITING_SOURCE = False
        scn2 = quietly(AoE2DEScenario.from_file, src2)
        st_a, _ = quietly(common.outcome, scn2.write_to_file, other2)
        st_b, e_b = quietly(common.outcome, scn2.write_to_file, src2)
        after2 = sha(open(src2, "rb").read()) if os.path.exists(src2) else None
        R.case(key="save-elsewhere-then-source", nontrivial=True, tags=("sequence:save-elsewhere-then-source",))
        if st_a == "ok" and (st_b == "ok" or after2 != before2):
            R.violation({"clause": "refused_by_default", "sequence": "load A, save B, save A", "observed": st_b,
                         "source": "old" if after2 == before2 else "changed"},
                        f"load A, save to B, save to A with the overwrite setting off: the second save gives `{st_b}` and the loaded file is "
                        f"{'unchanged' if after2 == before2 else 'CHANGED'}; it has to be refused",
                        {"op": "save-elsewhere-then-source"})
        settings.ALLOW_OVERWRITING_SOURCE = saved_settings[0]
        R.extra["scenario_loads"] = dict(pool_stats)
        R.extra["violating_cases_by_clause"] = {}
        for sk, n in sig_count.items():
            cl = dict(sk)["clause"]
            R.extra["violating_cases_by_clause"][cl] = R.extra["violating_cases_by_clause"].get(cl, 0) + n
    finally:
        tracer.active = False
        tracer.uninstall()
        settings.ALLOW_OVERWRITING_SOURCE, settings.ENABLE_XS_CHECK_INTEGRATION = saved_settings[0], False
        shutil.rmtree(tmp, ignore_errors=True)

    # ---- correspondence with the Lean model ----------------------------------------------------------------------------
    drv = ctx.driver()
    if drv is None:
        R.extra["driver"] = "unavailable (Lean build failed) - oracles only"
        return R.to_json(exhaustive=True)
    out = drv.batch(trace_cmds + cmds)
    t_out, c_out = out[:len(trace_cmds)], out[len(trace_cmds):]
    def abstraction(line):
        """what the property depends on (DESIGN 2.4): which kinds of step occur how often, how many touch the filesystem,
        what can still fail after the first of those, and that the run ends with the open – NOT the relative order of the
        fallible steps among themselves"""
        ws = line.split()
        kinds = sorted(w for w in ws if ":" in w)
        tail = [w for w in ws if "=" in w]
        last = [w for w in ws if ":" in w][-1:] if ws else []
        return (tuple(kinds), tuple(tail), tuple(last), ws[0] == "error")

    def without_unobserved(model_line, impl_line):
        """a step kind of the model that the tracer saw NO event of (the private function it hooks is no longer on the
        path, e.g. compression moved into another helper) is taken out of the model's line: the events that exist are
        what can be compared and what faults can be injected at; `n` shrinks with it. What touches the file system, what
        can still fail after the destination is opened and the last step stay compared as they are."""
        seen = {w.split(":")[0] for w in impl_line.split() if ":" in w}
        out, dropped = [], 0
        for w in model_line.split():
            if ":" in w and w.split(":")[0] not in seen and w.split(":")[0] != "open":
                dropped += int(w.split(":")[1])
            elif w.startswith("n="):
                out.append(f"n={int(w[2:]) - dropped}")
            else:
                out.append(w)
        return " ".join(out), dropped

    order_same = 0
    unobserved = collections.Counter()
    for cmd, o, x, m in zip(trace_cmds, t_out, trace_expect, trace_meta):
        if o == x:
            order_same += 1
        o, dropped = without_unobserved(o, x)
        if dropped:
            unobserved[cmd.split()[1]] += dropped
        if abstraction(o) != abstraction(x):
            R.mismatch("event trace of a real save and the model's pipeline differ in what can still fail after the "
                       "destination is opened / in the kinds of step", {"op": "trace", **m, "cmd": cmd}, impl=x, model=o)
        else:
            R.traces += 1
    R.extra["model_steps_without_an_observed_event"] = sum(unobserved.values())
    R.extra["hooks_not_found_on_this_tree"] = getattr(tracer, "missing_hooks", [])
    R.extra["event_traces"] = {"compared": len(trace_cmds), "same_order_classes_as_model": order_same,
                               "example": trace_expect[0] if trace_expect else None}
    fixed = [c_out[2 * i] for i in range(len(pend))]
    pinned = [c_out[2 * i + 1] for i in range(len(pend))]
    agree_fixed = sum(1 for r, o in zip(pend, fixed) if r["obs"] == o)
    agree_pinned = sum(1 for r, o in zip(pend, pinned) if r["obs"] == o)
    sensitive = [i for i in range(len(pend)) if fixed[i] != pinned[i]]
    if all(pend[i]["obs"] == fixed[i] for i in sensitive):
        polarity, model = "fixed", fixed
    elif all(pend[i]["obs"] == pinned[i] for i in sensitive):
        polarity, model = "pinned", pinned
    else:
        polarity, model = "fixed", fixed
        bad = [i for i in sensitive if pend[i]["obs"] != fixed[i]][:1] + [i for i in sensitive if pend[i]["obs"] != pinned[i]][:1]
        R.mismatch("the overwrite guard of the implementation behaves like neither polarity of the model",
                   {"op": "case", "cfg": pend[bad[0]]["cfg"], "also": pend[bad[-1]]["cfg"]},
                   impl=" / ".join(pend[i]["obs"] for i in bad), model="fixed: " + " / ".join(fixed[i] for i in bad)
                   + " ; pinned: " + " / ".join(pinned[i] for i in bad))
    R.extra["guard_polarity_of_implementation"] = polarity
    R.extra["polarity_sensitive_cases"] = len(sensitive)
    R.extra["agree"] = {"fixed": agree_fixed, "pinned": agree_pinned, "cases": len(pend)}
    for i, (r, o) in enumerate(zip(pend, model)):
        if r["obs"] == o:
            R.traces += 1
            continue
        if r.get("violated"):
            continue            # the oracle has reported this very case: a violation, not a model mismatch
        R.mismatch(f"save observation differs from the model ({polarity} guard polarity)",
                   {"op": "case", "cfg": r["cfg"], "cmd": cmds[2 * i + (0 if polarity == 'fixed' else 1)]}, impl=r["obs"], model=o)
    if polarity == "pinned":
        # the implementation agrees with the model of the code as pinned: every polarity-sensitive case must have been
        # reported by the oracle (defect F1) – otherwise the oracle is weaker than the theorems
        for i in sensitive:
            if not pend[i].get("violated"):
                R.mismatch("implementation follows the pinned guard polarity on a case the oracle accepts",
                           {"op": "case", "cfg": pend[i]["cfg"]}, impl=pend[i]["obs"], model=fixed[i])
    return R.to_json(exhaustive=True)
