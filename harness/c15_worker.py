"""C15 worker (one scenario version per process): version-gated attributes and effect/condition types on a live scenario.

Phase A  a fresh live scenario of the version: the managers (and the players they build) have been constructed from the
         sections, i.e. their links are *pulled*; effects / conditions / units created now are *fresh* (their class
         links have not been pulled in this process yet).
Phase B  the scenario saved in phase A and re-loaded: the trigger, effect, condition and unit it contains are pulled.
Leak     a second scenario built identically but writing only the gated attributes whose field EXISTS in the version's
         structure.json must produce a byte-identical file.
"""
import os, shutil, tempfile, warnings, random

from harness import c1516_base as B
from harness.c1516_worker import Canon, nat_list, expected_member

SENT = 4242


def _paths(vt):
    return {tuple(p) for p, _ in vt["paths"]}


def link_path(l):
    return tuple([l["section"]] + [x for x, _ in l["path"]])


def classify_read(fn):
    try:
        v = fn()
    except Exception as e:      # noqa
        k = B.err_kind(e)
        return ("unsupported" if k == "unsupported" else k), None
    return ("none" if v is None else "value"), v


def classify_write(fn):
    try:
        fn()
        return "ok"
    except Exception as e:      # noqa
        k = B.err_kind(e)
        return "unsupported" if k == "unsupported" else k


class Access:
    """where a gated link of class `cls` is visible through the public API of a live scenario.
    kind 'direct': the link attribute itself is a plain public attribute of the object;
    kind 'derived': the link attribute is a reconstruction property of the manager (read it there), the public,
    writable view is an attribute of the Player objects."""

    def __init__(self, scn, trig=None, effect=None, cond=None, unit=None, str_attrs=()):
        self.scn, self.trig, self.effect, self.cond, self.unit = scn, trig, effect, cond, unit
        self.str_attrs = set(str_attrs)

    def target(self, cls, attr, dest):
        s = self.scn
        if cls == "Effect":
            return "direct", self.effect, attr, (B_STR if ("e", attr) in self.str_attrs else SENT)
        if cls == "Condition":
            return "direct", self.cond, attr, (B_STR if ("c", attr) in self.str_attrs else SENT)
        if cls == "Unit":
            return "direct", self.unit, attr, SENT
        if cls == "PlayerMetaData" and dest == "Player":
            return "direct", s.player_manager.players[1], attr, 7
        if cls == "MapManagerDE":
            return "direct", s.map_manager, attr, 1
        if cls == "OptionManager":
            return "direct", s.option_manager, attr, 1
        if cls == "XsManagerDE":
            return "direct", s.xs_manager, attr, B_STR
        if cls == "PlayerManager":
            # `_pop_caps` has no public view of its own: Player.population_cap also feeds PlayerDataFour.population_limit,
            # which every version has - it is read on the manager only
            pub = {"_lock_personalities": ("lock_personality", True), "_pop_caps": (None, None),
                   "_initial_player_views": ("initial_player_view_x", 33)}.get(attr)
            if pub:
                return "derived", (s.player_manager, s.player_manager.players[1]), (attr, pub[0]), pub[1]
        return None


B_STR = "c15probe"


def string_attrs(T):
    """effect / condition attributes whose default is a string in some version (they take strings)"""
    out = set()
    for v in T["versions"]:
        for k, key in (("e", "effects"), ("c", "conditions")):
            for t in v[key]:
                for a, val in t["defaults"]:
                    if val[0] == "str":
                        out.add((k, a))
    return out


def build(version, vt, write_filter, T, types_e, types_c, do_none=True):
    """phase-A scenario with one trigger (one effect NONE, one condition NONE), one unit; gated attributes written
    through the public API when write_filter(cls, attr) says so. Returns (scenario, access, observations)."""
    from AoE2ScenarioParser.datasets.players import PlayerId
    scn = B.live(version, vt["has_default_scenario"])
    problems = []

    def attempt(what, fn):
        try:
            with warnings.catch_warnings():
                warnings.simplefilter("ignore")
                return fn()
        except Exception as e:      # noqa
            problems.append((what, f"{type(e).__name__}: {str(e)[:160]}", B.err_kind(e)))
            return None
    trig = scn.trigger_manager.add_trigger("c15")
    eff = attempt("new_effect.none()", lambda: trig.new_effect.none())
    cond = attempt("new_condition.none()", lambda: trig.new_condition.none())
    unit = attempt("unit_manager.add_unit(...)", lambda: scn.unit_manager.add_unit(player=PlayerId.ONE, unit_const=4, x=1.5, y=1.5))
    acc = Access(scn, trig, eff, cond, unit, str_attrs=string_attrs(T))
    acc.problems = problems
    obs = {}
    for c in T["links"]["classes"]:
        for l in c["links"]:
            if l["support"] is None:
                continue
            key = f"{c['name']}.{l['name']}"
            tg = acc.target(c["name"], l["name"], l["dest"])
            if tg is None or tg[1] is None:
                obs[key] = None if tg is None else {"kind": "no-object"}
                continue
            kind, obj, attr, val = tg
            o = {"kind": kind, "value": val}
            with warnings.catch_warnings():
                warnings.simplefilter("ignore")
                if kind == "direct":
                    o["read"], _ = classify_read(lambda: getattr(obj, attr))
                    o["wnone"] = classify_write(lambda: setattr(obj, attr, None)) if do_none and write_filter(c["name"], l) else "ok"
                    if write_filter(c["name"], l):
                        o["wval"] = classify_write(lambda: setattr(obj, attr, val))
                    else:
                        o["wval"] = "skipped-by-control"
                else:
                    mgr, player = obj
                    o["read"], _ = classify_read(lambda: getattr(mgr, attr[0]))
                    if attr[1] is None:
                        o["pub_read"], pv = o["read"], None
                    else:
                        o["pub_read"], pv = classify_read(lambda: getattr(player, attr[1]))
                    if o["pub_read"] == "value" and pv is False:
                        o["pub_read"] = "none"          # bool(None) of the constructor
                    if attr[1] is None:
                        o["wval"] = "ok"                # nothing to write
                    elif write_filter(c["name"], l):
                        o["wval"] = classify_write(lambda: setattr(player, attr[1], val))
                    else:
                        o["wval"] = "skipped-by-control"
            obs[key] = o
    return scn, acc, obs


def run_c15(version, tier, seed, escalate, T):
    quick = tier == "quick"
    rng = random.Random(f"C15:{version}:{seed}")
    vt = next(v for v in T["versions"] if v["version"] == version)
    vh = vt["hundredths"]
    H = T["helpers"]
    C = Canon(T["names"])
    paths = _paths(vt)
    cases, violations = [], []
    tmp = tempfile.mkdtemp(prefix="c15_")
    os.makedirs(os.path.join(tmp, "a")); os.makedirs(os.path.join(tmp, "b"))
    try:
        # ---------------------------------------------------------------- gated attributes
        exists = lambda cls, l: link_path(l) in paths
        scn, acc, obsA = build(version, vt, lambda cls, l: True, T, None, None)
        fA = os.path.join(tmp, "a", "x.aoe2scenario")
        save_err = None

        def report_problems(a, phase):
            for what, msg, k in getattr(a, "problems", []):
                violations.append({"signature": {"clause": "create-fails", "call": what, "error": k, "phase": phase},
                                   "what": f"v{version} ({phase}): {what} raised {msg} although the version has it",
                                   "replay": {"version": version, "op": "create", "call": what, "phase": phase}})
        report_problems(acc, "fresh process")
        culprits = set()
        rebuilt = False          # observations taken after some file was re-loaded in this process: nothing is "fresh" any more
        try:
            scnB = B.save_reload(scn, fA)
        except Exception as e:      # noqa
            # which single attribute makes the save / re-load fail?  (each one alone, in a fresh scenario)
            first = f"{type(e).__name__}: {str(e)[:200]}"
            rebuilt = True

            def fails(pred):
                s1, _, o1 = build(version, vt, pred, T, None, None, do_none=False)
                try:
                    B.save_reload(s1, os.path.join(tmp, "one.aoe2scenario"))
                    return None, o1
                except Exception as e1:     # noqa
                    return f"{type(e1).__name__}: {str(e1)[:160]}", o1
            base_err, _ = fails(lambda cls, ll: False)
            if base_err is not None:
                # the scenario cannot be saved / re-loaded even when no gated attribute is touched
                violations.append({"signature": {"clause": "save-fails", "attribute": "(none touched)", "version": version},
                                   "what": f"v{version}: a scenario with one trigger (one effect, one condition) and one unit cannot be saved and re-loaded: {' '.join(base_err.split())[:300]}",
                                   "replay": {"version": version, "op": "gated-save", "touched": []}})
            for c in ([] if base_err is not None else T["links"]["classes"]):
                gl = [l for l in c["links"] if l["support"] is not None and (obsA.get(f"{c['name']}.{l['name']}") or {}).get("wval") == "ok"]
                if not gl or fails(lambda cls, ll: cls == c["name"])[0] is None:
                    continue
                for l in gl:
                    only = (c["name"], l["name"])
                    err1, o1 = fails(lambda cls, ll: (cls, ll["name"]) == only)
                    if err1 is not None:
                        culprits.add(only)
                        key = f"{only[0]}.{only[1]}"
                        val = (o1.get(key) or {}).get("value")
                        violations.append({"confirmed": True,       # seen twice: in the joint save and alone in a fresh scenario
                                           "signature": {"clause": "save-fails", "attribute": key, "version": version, "exists_in_structure": exists(c["name"], l)},
                                           "what": f"v{version}: after assigning {val!r} to {key} the scenario cannot be saved and re-loaded: {err1}",
                                           "replay": {"version": version, "op": "gated-one", "attribute": key, "value": repr(val)}})
            scn, acc, obsA2 = build(version, vt, lambda cls, l: (cls, l["name"]) not in culprits, T, None, None)
            for k2, v2 in obsA2.items():
                if v2 is not None and v2.get("wval") == "skipped-by-control":
                    v2["wval"] = obsA[k2]["wval"]; v2["culprit"] = True
            obsA = obsA2
            try:
                scnB = B.save_reload(scn, fA)
            except Exception as e2:     # noqa
                save_err, scnB = (first if not culprits else f"{type(e2).__name__}: {str(e2)[:200]}"), None
        scn0, acc0, _ = build(version, vt, lambda cls, l: exists(cls, l) and (cls, l["name"]) not in culprits, T, None, None)
        if not getattr(acc, "problems", []):
            report_problems(acc0, "after a re-load")
        f0 = os.path.join(tmp, "b", "x.aoe2scenario")
        try:
            B.save_reload(scn0, f0)
            same = open(fA, "rb").read() == open(f0, "rb").read() if save_err is None else None
        except Exception as e:      # noqa
            same, save_err = None, (save_err or f"control: {type(e).__name__}: {str(e)[:200]}")
        if save_err:
            violations.append({"signature": {"clause": "save-fails", "version": version},
                               "what": f"v{version}: saving / re-loading a scenario after touching the gated attributes failed: {save_err}",
                               "replay": {"version": version, "op": "gated-save"}})
        accB = None
        if scnB is not None:
            tB = scnB.trigger_manager.triggers[-1]
            uB = scnB.unit_manager.units[1][-1] if scnB.unit_manager.units[1] else None
            accB = Access(scnB, tB, tB.effects[0] if tB.effects else None, tB.conditions[0] if tB.conditions else None, uB, str_attrs=string_attrs(T))
        for c in T["links"]["classes"]:
            for l in c["links"]:
                if l["support"] is None:
                    continue
                key = f"{c['name']}.{l['name']}"
                o = obsA[key]
                ex = exists(c["name"], l)
                replay = {"version": version, "op": "gated", "attribute": key}
                if o is None or o.get("kind") == "no-object":
                    cases.append({"cmd": f"link {vh} {c['name']} {l['name']}", "obs": "uncovered-by-harness" if o is None else f"reach=1 kind={l['kind'][0]} gated=1 supports={int(ex)} exists={int(ex)}",
                                  "key": f"{version}:{key}", "nontrivial": False, "tags": ["gated:uncovered" if o is None else "gated:no-object"]})
                    continue
                # phase B: re-read
                rr, rv = ("error", None)
                if accB is not None:
                    tg = accB.target(c["name"], l["name"], l["dest"])
                    kind, obj, attr, val = tg
                    if obj is None:
                        kind = "missing"
                    with warnings.catch_warnings():
                        warnings.simplefilter("ignore")
                        if kind == "missing":
                            rr, rv = "error", None
                        elif kind == "direct":
                            rr, rv = classify_read(lambda: getattr(obj, attr))
                        else:
                            rr, rv0 = classify_read(lambda: getattr(obj[0], attr[0]))
                            _, rv = classify_read(lambda: getattr(obj[1], attr[1])) if attr[1] else (rr, val)
                fresh = c["name"] in ("Effect", "Condition", "Unit") and not rebuilt
                state = "fresh" if fresh else "pulled"
                roundtrip = (rv == o["value"]) or (isinstance(o["value"], bool) and bool(rv) == o["value"]) or \
                            (hasattr(rv, "value") and rv.value == o["value"])
                if o["kind"] == "direct":
                    push = "written" if (rr == "value" and roundtrip) else ("skipped" if (rr in ("unsupported", "none") and same) else "error")
                    obs = f"read={o['read']} wnone={o['wnone']} wval={o['wval']} push={push} reread={rr}"
                    cmd = f"attr {vh} {c['name']} {l['name']} {state}"
                else:
                    push = "written" if (rr == "value" and roundtrip) else ("skipped" if (rr == "unsupported" and same) else "error")
                    obs = f"read={o['read']} push={push} reread={rr}"
                    cmd = f"attrr {vh} {c['name']} {l['name']} {state}"
                if o.get("culprit"):
                    # the save fails on this attribute alone (violation reported above); it was left out of the joint save,
                    # so there is no push / re-read observation to compare with the model
                    cmd, obs = f"link {vh} {c['name']} {l['name']}", f"reach=1 kind={l['kind'][0]} gated=1 supports={int(ex)} exists={int(ex)}"
                cases.append({"cmd": cmd, "obs": obs, "key": f"{version}:{key}", "nontrivial": not ex,
                              "tags": ["gated:" + ("has" if ex else "lacks"), "read:" + o["read"]],
                              "sample": {"version": version, "attribute": key, "exists_in_structure": ex, "obs": obs}})
                # ---------------- ORACLE (property text; ground truth = the field exists in the version's structure.json)
                bad = []
                pub_read = o.get("pub_read", o["read"])
                if o.get("culprit"):
                    pass            # reported above (the save fails on this attribute); excluded from the joint save
                elif ex:
                    if o["read"] == "unsupported" or pub_read == "unsupported":
                        bad.append(("refused-read", f"{key} exists in v{version} but reading it raises UnsupportedAttributeError"))
                    if o["wval"] != "ok":
                        bad.append(("refused-write", f"{key} exists in v{version} but assigning {o['value']!r} gives {o['wval']}"))
                    if save_err is None and not (rr == "value" and roundtrip):
                        bad.append(("not-saved", f"{key} exists in v{version}; {o['value']!r} was assigned, after save and re-load it reads {rv!r} ({rr})"))
                else:
                    if o["read"] not in ("none", "unsupported") or pub_read not in ("none", "unsupported"):
                        bad.append(("visible", f"{key} does not exist in v{version} but reads as a value ({o['read']}/{pub_read})"))
                    if o["wnone"] if "wnone" in o else "ok" not in ("ok",):
                        pass
                    if o.get("wnone", "ok") != "ok":
                        bad.append(("none-refused", f"{key}: assigning None gives {o['wnone']}"))
                    if o["wval"] not in ("ok", "unsupported"):
                        bad.append(("write-error", f"{key} does not exist in v{version}; assigning a value gives {o['wval']} (neither accepted nor UnsupportedAttributeError)"))
                    if save_err is None and same is False:
                        bad.append(("leak", f"v{version}: writing attributes the version lacks (among them {key}) changes the saved file"))
                    if save_err is None and rr not in ("unsupported", "none"):
                        bad.append(("leak-reload", f"{key} does not exist in v{version} but after save and re-load it reads {rv!r}"))
                for clause, what in bad[:2]:
                    sig = {"clause": clause, "attribute": key}
                    if clause == "leak":
                        sig = {"clause": "leak", "version": version}
                    violations.append({"signature": sig, "what": what, "replay": replay})

        # ---------------------------------------------------------------- effect / condition types
        created = {"e": [], "c": []}
        scnT = B.live(version, vt["has_default_scenario"])
        if vt["has_default_scenario"]:
            # defect F3 (DESIGN 10): below trigger version 4.0 the shipped v1.54 default re-loads only ONE new component per file
            scnT.sections["Triggers"].trigger_version = 4.0
            scnT.sections["Triggers"].redacted = bytes(16)
        for kind, hkey, enum, new_attr, tkey in (("e", "effect_helpers", "EffectId", "new_effect", "effects"),
                                                  ("c", "condition_helpers", "ConditionId", "new_condition", "conditions")):
            ids = {t["id"] for t in vt[tkey]}
            by_const = {expected_member(h, H[hkey]): h for h in H[hkey] if not h["deprecated"]}     # by NAME, not by forwarded constant
            trig = scnT.trigger_manager.add_trigger("types-" + kind)
            for name, ty in H["enums"][enum].items():
                h = by_const.get(name)
                if h is None:
                    cases.append({"cmd": f"create {vh} {kind} {ty}", "obs": "no-helper", "key": f"{version}:{kind}:{ty}", "nontrivial": False, "tags": ["type:no-helper"]})
                    continue
                replay = {"version": version, "op": "create", "kind": kind, "type": ty, "helper": h["name"]}
                try:
                    with warnings.catch_warnings():
                        warnings.simplefilter("ignore")
                        comp = getattr(getattr(trig, new_attr), h["name"])()
                    obs = "ok"
                    created[kind].append((ty, comp))
                except Exception as e:      # noqa
                    obs = "err " + B.err_kind(e)
                has = ty in ids
                cases.append({"cmd": f"create {vh} {kind} {ty}", "obs": obs, "key": f"{version}:{kind}:{ty}", "nontrivial": not has,
                              "tags": [f"type:{'has' if has else 'lacks'}", "create:" + obs.replace("err ", "")],
                              "sample": {"version": version, "kind": kind, "type": ty, "helper": h["name"], "obs": obs}})
                if has and obs != "ok":
                    violations.append({"signature": {"clause": "type-refused", "kind": kind, "type": ty},
                                       "what": f"v{version}: type {name} ({ty}) is in the version's table but {h['name']}() gives {obs}", "replay": replay})
                if not has and obs != "err unsupported":
                    violations.append({"signature": {"clause": "type-not-refused", "kind": kind, "type": ty},
                                       "what": f"v{version}: type {name} ({ty}) is not in the version's table but {h['name']}() gives {obs} instead of UnsupportedAttributeError", "replay": replay})
        # save / reload of every created type: "saved and re-loaded normally"
        def snapshot(kind, comp, tkey):
            keys = {k for t in vt[tkey] if t["id"] == 0 for k, _ in t["defaults"]} - {"item_id"}
            out = {}
            for k in sorted(keys):
                try:
                    v = getattr(comp, k)
                except Exception as e:      # noqa
                    v = "!" + type(e).__name__
                out[k] = C.val(v) if not (isinstance(v, str) and v.startswith("!")) else v
            return out
        before = {k: [(ty, snapshot(k, c, "effects" if k == "e" else "conditions")) for ty, c in created[k]] for k in created}
        fT = os.path.join(tmp, "types.aoe2scenario")
        try:
            sT = B.save_reload(scnT, fT)
            trs = sT.trigger_manager.triggers
            after = {"e": [(int(c.effect_type), snapshot("e", c, "effects")) for c in trs[-2].effects],
                     "c": [(int(c.condition_type), snapshot("c", c, "conditions")) for c in trs[-1].conditions]}
            for k in ("e", "c"):
                ok = [a == b for a, b in zip(before[k], after[k])]
                good = len(before[k]) == len(after[k]) and all(ok)
                cases.append({"cmd": f"types {vh} {k}", "obs": "ids=" + (",".join(str(t) for t in sorted(t for t, _ in after[k])) or "-"),
                              "key": f"{version}:{k}:reload", "nontrivial": True, "tags": ["types:reload"],
                              "sample": {"version": version, "kind": k, "reloaded_types": len(after[k])}})
                if not good:
                    i = ok.index(False) if False in ok else min(len(before[k]), len(after[k]))
                    b = before[k][i] if i < len(before[k]) else None
                    a = after[k][i] if i < len(after[k]) else None
                    diff = {x: (b[1].get(x), a[1].get(x)) for x in (b[1] if b else {}) if a and b[1].get(x) != a[1].get(x)}
                    violations.append({"signature": {"clause": "type-reload", "kind": k, "type": b[0] if b else None},
                                       "what": f"v{version}: components of every type saved and re-loaded: entry {i} (type {b[0] if b else '?'}) comes back as type {a[0] if a else '?'} with differences {diff}",
                                       "replay": {"version": version, "op": "types-reload", "kind": k}})
        except Exception as e:      # noqa
            violations.append({"signature": {"clause": "types-save-fails", "version": version},
                               "what": f"v{version}: saving / re-loading a scenario with one component of every type the version has failed: {type(e).__name__}: {str(e)[:200]}",
                               "replay": {"version": version, "op": "types-reload"}})
        # a type the version lacks is refused EVERY time it is asked for (same process, another trigger), not only the first
        for kind, hkey, enum, new_attr, tkey in (("e", "effect_helpers", "EffectId", "new_effect", "effects"),
                                                  ("c", "condition_helpers", "ConditionId", "new_condition", "conditions")):
            ids = {t["id"] for t in vt[tkey]}
            by_const = {expected_member(h, H[hkey]): h for h in H[hkey] if not h["deprecated"]}
            for rnd in (2, 3):
                trig = scnT.trigger_manager.add_trigger(f"again{rnd}-" + kind)
                for name, ty in H["enums"][enum].items():
                    h = by_const.get(name)
                    if h is None or ty in ids:
                        continue
                    try:
                        with warnings.catch_warnings():
                            warnings.simplefilter("ignore")
                            getattr(getattr(trig, new_attr), h["name"])()
                        obs = "ok"
                    except Exception as e:      # noqa
                        obs = "err " + B.err_kind(e)
                    cases.append({"cmd": f"create {vh} {kind} {ty}", "obs": obs, "key": f"{version}:{kind}:{ty}:again{rnd}", "nontrivial": True,
                                  "tags": ["type:lacks", f"create-again{rnd}:" + obs.replace("err ", "")]})
                    if obs != "err unsupported":
                        violations.append({"signature": {"clause": "type-not-refused", "kind": kind, "type": ty, "request": "repeated"},
                                           "what": f"v{version}: type {name} ({ty}) is not in the version's table; request number {rnd} in this process "
                                                   f"through {h['name']}() gives {obs} instead of UnsupportedAttributeError",
                                           "replay": {"version": version, "op": "create", "kind": kind, "type": ty, "helper": h["name"], "request": rnd}})
        # thorough tier / the shipped default: every type alone in its own file at the file's own trigger version
        if vt["has_default_scenario"]:
            todo = [(k, ty) for k in ("e", "c") for ty, _ in created[k]]
            if quick:
                todo = rng.sample(todo, min(len(todo), 6 * (3 if escalate else 1)))
            for k, ty in todo:
                name = next(n for n, v in H["enums"]["EffectId" if k == "e" else "ConditionId"].items() if v == ty)
                hl = H["effect_helpers" if k == "e" else "condition_helpers"]
                h = next(h for h in hl if not h["deprecated"] and expected_member(h, hl) == name)
                try:
                    s1 = B.live(version, True)
                    tr = s1.trigger_manager.add_trigger("one")
                    with warnings.catch_warnings():
                        warnings.simplefilter("ignore")
                        comp = getattr(getattr(tr, "new_effect" if k == "e" else "new_condition"), h["name"])()
                    b = snapshot(k, comp, "effects" if k == "e" else "conditions")
                    s2 = B.save_reload(s1, os.path.join(tmp, f"one_{k}_{ty}.aoe2scenario"))
                    lst = s2.trigger_manager.triggers[-1].effects if k == "e" else s2.trigger_manager.triggers[-1].conditions
                    a = snapshot(k, lst[0], "effects" if k == "e" else "conditions")
                    good = a == b
                    err = ""
                except Exception as e:      # noqa
                    good, err = False, f"{type(e).__name__}: {str(e)[:150]}"
                cases.append({"cmd": f"create {vh} {k} {ty}", "obs": "ok", "key": f"{version}:{k}:{ty}:file", "nontrivial": True, "tags": ["types:single-file"]})
                if not good:
                    violations.append({"signature": {"clause": "type-reload", "kind": k, "type": ty},
                                       "what": f"v{version}: one {name} in the shipped default scenario, saved and re-loaded: {err or 'attributes differ'}",
                                       "replay": {"version": version, "op": "single-file", "kind": k, "type": ty}})
    finally:
        shutil.rmtree(tmp, ignore_errors=True)
    return {"cases": cases, "violations": violations, "version": version}
