"""C09 - scenarios do not leak into each other: correspondence (real scenarios vs Lean heap model M6) + direct oracles.

Two or three live scenarios of ONE version in one process; seeded interleavings of edits, new triggers /
effects / conditions, imports (deepcopy=True), the UuidList entry points of the manager's list
(append / insert / extend / __setitem__ / `+=` / the `triggers` setter) with own, detached and foreign
triggers, removes and saves.

Observations compared with the model (DESIGN 2.4): alias classes (object identities renumbered by first
occurrence over all scenarios' trigger / effect / condition objects and the returned lists), the owner
(`_uuid`) of each object, trigger ids, link targets, two editable attributes, and after a save the decoded
`Triggers` section of every scenario.  UUID values and store internals are not compared.

Oracles on the real objects, every step (property text):
  disjoint        no mutable object (deep walk over __dict__, lists, dicts) is reachable from two scenarios
  owned           every trigger / effect / condition held by a scenario carries that scenario's UUID
  returned-held   the list returned by import_triggers is, object by object, the tail of the manager's list
  links           imported internal (de)activation links point at the imported copies, external ones are -1,
                  other effects keep their trigger_id
  independent     imported objects are new objects (not the ones passed in)
  save-frame      the inflated body saved by a scenario is byte-identical before and after any activity that did
                  not touch it (same file stem in different temp dirs; the scenario's own next_unit_id counter,
                  which every save of that scenario itself advances by one, is checked separately)
A history ends at its first violation.  Process-global dataset dicts / class-level state are outside the heap
model; they are covered only by these oracles (save-frame in particular).
"""
import contextlib, copy, enum, gc, hashlib, io, json, os, shutil, struct, tempfile, types, uuid as uuidmod, zlib
from harness import common

KINDS = ("act", "deact", "eff", "cond")


class Sim:
    """n live scenarios + the handle table; executes ops on the real code and evaluates the oracles."""

    def __init__(self, env, n, base):
        self.env, self.n, self.base = env, n, base
        self.scns = [env.new_scenario(base) for _ in range(n)]
        self.uidx = {s.uuid: k + 1 for k, s in enumerate(self.scns)}
        self.handles = []
        self.keep = []                      # strong refs: ids must stay unique during a history
        self.imported = set()               # ids of triggers that entered a manager by import / adoption
        self.digest = {}                    # u -> (sha256 of body[4:], next_unit_id) of the last save, if untouched since
        self.saves = {}                     # u -> number of saves so far
        self.shape = {}                     # u -> [(n effects, n conditions)] of the triggers at its last save

    # ---- references ---------------------------------------------------------------------------------
    def tm(self, u):
        return self.scns[u - 1].trigger_manager

    def tref(self, r):
        a, b = r.split(".")[:2]
        p, q = int(a[1:]), int(b)
        if a[0] == "s":
            if not (1 <= p <= self.n):
                raise LookupError(r)
            l = self.tm(p).triggers
        else:
            l = self.handles[p]
        if q < 0 or q >= len(l):
            raise LookupError(r)
        return l[q]

    def cref(self, r):
        parts = r.split(".")
        t = self.tref(".".join(parts[:2]))
        l = t.effects if parts[2][0] == "e" else t.conditions
        j = int(parts[2][1:])
        if j < 0 or j >= len(l):
            raise LookupError(r)
        return l[j]

    # ---- observation --------------------------------------------------------------------------------
    def owner(self, o):
        u = getattr(o, "_uuid", None)
        if u in self.uidx:
            return self.uidx[u]
        return 0 if u == self.env.NO_UUID else "?"

    def kind(self, e):
        t = int(e.effect_type)
        return "act" if t == self.env.ACT else "deact" if t == self.env.DEACT else "eff"

    def state(self):
        tmap, cmap = {}, {}

        def al(m, o):
            return m.setdefault(id(o), len(m))

        def trig(t):
            a = al(tmap, t)
            es = [f"E{al(cmap, e)}:{self.owner(e)}:{self.kind(e)}:{int(e.trigger_id)}:{int(e.quantity)}" for e in t.effects]
            cs = [f"C{al(cmap, c)}:{self.owner(c)}:cond:-1:{int(c.quantity)}" for c in t.conditions]
            return f"T{a}:{self.owner(t)}:{int(t.trigger_id)}:{int(t.description_stid)}({','.join(es)}|{','.join(cs)})"

        out = [f"S{u}[{' '.join(trig(t) for t in self.tm(u).triggers)}]" for u in range(1, self.n + 1)]
        out += [f"H{k}[{' '.join(trig(t) for t in h)}]" for k, h in enumerate(self.handles)]
        return " ".join(out)

    def section(self, u):
        """decoded `Triggers` section of scenario u, restricted to the records its last commit wrote: on the pinned
        tree a struct list that was grown by a commit is never cut again (defect F2, property C04/C18), the stale
        trailing records are the scenario's own leftovers and are not compared (the byte oracle still sees them)"""
        T = self.scns[u - 1].sections["Triggers"]
        shape = self.shape.get(u, [])
        recs = []
        for tr, (ne, nc) in zip(list(T.trigger_data)[:len(shape)], shape):
            es = []
            for e in list(tr.effect_data)[:ne]:
                et = int(e.effect_type)
                k = "act" if et == self.env.ACT else "deact" if et == self.env.DEACT else "eff"
                es.append(f"{k}:{int(e.trigger_id)}:{int(e.quantity)}")
            cs = [f"cond:-1:{int(c.quantity)}" for c in list(tr.condition_data)[:nc]]
            recs.append(f"{int(tr.description_string_table_id)}({','.join(es)}|{','.join(cs)})")
        return "[" + " ".join(recs) + "]"

    # ---- reachability (oracle side: deep walk over mutable state) -------------------------------------
    IMMUT = (int, float, str, bytes, bool, type(None), enum.Enum, uuidmod.UUID, type, types.FunctionType,
             types.BuiltinFunctionType, types.MethodType, types.ModuleType, complex, range, frozenset)

    def walk(self, root):
        """ids of every mutable object reachable from a trigger -> (path, object)"""
        seen = {}
        stack = [(root, type(root).__name__)]
        while stack:
            o, path = stack.pop()
            if isinstance(o, self.IMMUT):
                continue
            if isinstance(o, tuple):
                for k, x in enumerate(o):
                    stack.append((x, f"{path}[{k}]"))
                continue
            if id(o) in seen:
                continue
            seen[id(o)] = (path, o)
            if isinstance(o, dict):
                for k, x in o.items():
                    stack.append((x, f"{path}{{}}"))
            elif isinstance(o, (list, set)):
                for x in o:
                    stack.append((x, f"{path}[]"))
            if hasattr(o, "__dict__"):
                for k, x in vars(o).items():
                    if k in ("_sections", "_link_list"):
                        continue
                    stack.append((x, f"{type(o).__name__}.{k}"))
        return seen

    def reach(self, u):
        r = {}
        for t in self.tm(u).triggers:
            r.update(self.walk(t))
        return r

    def holders(self, o):
        """scenarios from which the object is reachable"""
        return [u for u in range(1, self.n + 1) if id(o) in self.reach(u)]

    # ---- oracles evaluated after every op -------------------------------------------------------------
    def check_disjoint(self):
        rs = {u: self.reach(u) for u in range(1, self.n + 1)}
        for u in range(1, self.n + 1):
            for v in range(u + 1, self.n + 1):
                common_ids = set(rs[u]) & set(rs[v])
                if common_ids:
                    # name the outermost shared thing: a whole trigger, a component, or a nested attribute
                    paths = sorted(rs[u][i][0] for i in common_ids)
                    objs = [rs[u][i][1] for i in common_ids]
                    if any(type(o).__name__ == "Trigger" for o in objs):
                        shared = "trigger"
                    elif any(type(o).__name__ in ("Effect", "Condition") for o in objs):
                        shared = "component"
                    else:
                        shared = paths[0]
                    return shared, f"scenarios {u} and {v} share {len(common_ids)} mutable object(s), e.g. {paths[:3]}"
        return None

    def check_owned(self):
        for u in range(1, self.n + 1):
            su = self.scns[u - 1].uuid
            for i, t in enumerate(self.tm(u).triggers):
                if t._uuid != su:
                    return "trigger", f"trigger {i} held by scenario {u} carries the UUID of scenario {self.owner(t)}"
                for j, e in enumerate(t.effects):
                    if e._uuid != su:
                        return "effect", f"effect {j} of trigger {i} held by scenario {u} carries the UUID of scenario {self.owner(e)}"
                for j, c in enumerate(t.conditions):
                    if c._uuid != su:
                        return "condition", f"condition {j} of trigger {i} held by scenario {u} carries the UUID of scenario {self.owner(c)}"
        return None

    # ---- ops ------------------------------------------------------------------------------------------
    def touched_by(self, op):
        """scenarios whose saved output the op is allowed to change (decided before the op runs)"""
        k = op[0]
        if k == "edit":
            try:
                o = self.tref(op[1]) if op[2] == "name" else self.cref(op[1])
            except (LookupError, ValueError, IndexError):
                return set()
            return set(self.holders(o))
        return {op[1]}

    def classify(self, u, t):
        hs = [v for v in range(1, self.n + 1) if any(t is x for x in self.tm(v).triggers)]
        if any(v != u for v in hs):
            return "foreign-trigger"
        return "own-trigger" if hs else "detached-trigger"

    def apply(self, op):
        """run one op on the real code. returns (status, observation line, violation or None)"""
        env = self.env
        k = op[0]
        for u in self.touched_by(op):
            if not (k == "save" and op[1] == u):
                self.digest.pop(u, None)
        viol = None
        sig_extra = {}
        try:
            if k == "addtrig":
                t = self.tm(op[1]).add_trigger(f"t{op[2]}")
                t.description_stid = op[2]
                self.keep.append(t)
            elif k == "addcomp":
                _, u, i, kind, target, val = op[:6]
                own_list = len(op) > 6 and op[6]
                l = self.tm(u).triggers
                if i >= len(l):
                    raise IndexError(i)
                t = l[i]
                sig_extra["trigger"] = "imported-or-adopted" if id(t) in self.imported else "native"
                if kind == "act":
                    c = t.new_effect.activate_trigger(trigger_id=target)
                elif kind == "deact":
                    c = t.new_effect.deactivate_trigger(trigger_id=target)
                elif kind == "eff":
                    c = t.new_effect.send_chat(message="")
                    c.trigger_id = target
                else:
                    c = t.new_condition.timer(timer=3)
                c.quantity = val
                if own_list and kind != "cond":
                    c.selected_object_ids = []      # a list of its own instead of the dataset's default object (defect F18)
                self.keep.append(c)
            elif k == "edit":
                if op[2] == "name":
                    self.tref(op[1]).description_stid = op[3]
                else:
                    c = self.cref(op[1])
                    if op[2] == "val":
                        c.quantity = op[3]
                    else:
                        c.trigger_id = op[3]
            elif k == "import":
                _, u, refs = op
                src = [self.tref(r) for r in refs]
                self.keep += src
                tm = self.tm(u)
                base = len(tm.triggers)
                sig_extra["receiver"] = "empty-manager" if base == 0 else "non-empty-manager"
                src_tids = [int(t.trigger_id) for t in src]
                src_links = [[(self.kind(e), int(e.trigger_id)) for e in t.effects] for t in src]
                src_ids = set()
                for t in src:
                    src_ids |= set(self.walk(t))
                ret = tm.import_triggers(src)
                self.handles.append(list(ret))
                self.keep += list(ret)
                held = list(tm.triggers)[base:]
                for t in held:
                    self.imported.add(id(t))
                    self.keep.append(t)
                # returned-held
                if len(ret) != len(src) or len(held) != len(src) or any(a is not b for a, b in zip(ret, held)):
                    viol = ({"clause": "returned-held", "op": "import_triggers", **sig_extra},
                            f"import_triggers into scenario {u} (manager had {base} trigger(s)) returned objects that are not the ones the manager now holds")
                # independent copies
                if viol is None:
                    new_ids = set()
                    for t in held:
                        new_ids |= set(self.walk(t))
                    if new_ids & src_ids:
                        viol = ({"clause": "independent", "op": "import_triggers"},
                                "an imported trigger shares a mutable object with the trigger passed in")
                # links (only where the property defines them: distinct source ids)
                if viol is None and len(set(src_tids)) == len(src_tids) and len(held) == len(src):
                    for kk, t in enumerate(held):
                        if int(t.trigger_id) != base + kk:
                            viol = ({"clause": "links", "op": "import_triggers", "what": "trigger_id"},
                                    f"imported trigger {kk} has trigger_id {t.trigger_id}, expected {base + kk}")
                            break
                        if len(t.effects) != len(src_links[kk]):
                            viol = ({"clause": "links", "op": "import_triggers", "what": "effect-count"}, "effect count changed")
                            break
                        for j, e in enumerate(t.effects):
                            sk, st = src_links[kk][j]
                            if sk in ("act", "deact"):
                                want = base + src_tids.index(st) if st in src_tids else -1
                                cls = "internal" if st in src_tids else "external"
                            else:
                                want, cls = st, "non-link"
                            if int(e.trigger_id) != want:
                                viol = ({"clause": "links", "op": "import_triggers", "link": cls, "effect": sk},
                                        f"{cls} link of imported trigger {kk}, effect {j} ({sk}, source trigger_id {st}) is {e.trigger_id}, expected {want}")
                                break
                        if viol:
                            break
            elif k == "adopt":
                _, u, how, pos, refs, cf = op
                objs = [self.tref(r) for r in refs]
                self.keep += objs
                tm = self.tm(u)
                cls = [self.classify(u, t) for t in objs]
                sig_extra["arg"] = "foreign-trigger" if "foreign-trigger" in cls else ("detached-trigger" if "detached-trigger" in cls else "own-trigger")
                su = self.scns[u - 1].uuid
                if cf:
                    objs = [copy.deepcopy(t) if (t._uuid != su and t._uuid != env.NO_UUID) else t for t in objs]
                    self.keep += objs
                if how in ("append", "insert", "setitem") and len(objs) != 1:
                    raise ValueError("arity")
                self.keep += list(tm.triggers)
                if how == "append":
                    tm.triggers.append(objs[0])
                elif how == "insert":
                    tm.triggers.insert(pos, objs[0])
                elif how == "extend":
                    tm.triggers.extend(objs)
                elif how == "setitem":
                    tm.triggers[pos] = objs[0]
                elif how == "iadd":
                    tm.triggers += objs
                elif how == "assign":
                    if len({id(o) for o in objs}) != len(objs):
                        raise ValueError("repeated object")
                    tm.triggers = objs
                for t in objs:
                    self.imported.add(id(t))
                if how in ("iadd", "assign"):
                    for t in tm.triggers:      # the setter may have replaced every entry by a copy
                        self.keep.append(t)
                        if sig_extra["arg"] != "own-trigger":
                            self.imported.add(id(t))
            elif k == "wrap":
                # a DETACHED trigger built from the component lists of a trigger another scenario holds, then appended:
                # the list constructor has to copy the foreign components (in the model: append with copy-first)
                _, u, ref = op
                from AoE2ScenarioParser.objects.data_objects.trigger import Trigger
                src = self.tref(ref)
                tm = self.tm(u)
                if self.classify(u, src) != "foreign-trigger":
                    raise ValueError("wrap needs a trigger held by another scenario")
                sig_extra["arg"] = "detached-trigger-built-from-foreign-lists"
                t = Trigger(name=src.name, description_stid=src.description_stid, effects=src.effects, conditions=src.conditions,
                            trigger_id=src.trigger_id)
                self.keep += [src, t] + list(tm.triggers)
                tm.triggers.append(t)
                self.imported.add(id(t))
            elif k == "remove":
                _, u, i = op
                tm = self.tm(u)
                if i >= len(tm.triggers):
                    raise IndexError(i)
                t = tm.triggers[i]
                tm.remove_trigger(i)
                self.handles.append([t])
                self.keep.append(t)
            elif k == "save":
                u = op[1]
                return self.do_save(u)
            else:
                raise ValueError(k)
        except (LookupError, ValueError, TypeError, AttributeError) as e:      # rejected by the real code
            return "error", "error", None
        for v in range(1, self.n + 1):
            # reading the display order refreshes the manager's change-detection hash. Without it the pinned
            # remove_triggers leaves the hash stale (remove a trigger, add the same object again, remove -> ValueError):
            # a display-order matter (C07), kept out of this check
            _ = self.tm(v).trigger_display_order
        obs = "ok " + self.state()
        if viol is None:
            d = self.check_disjoint()
            if d:
                viol = ({"clause": "disjoint", "op": self.opname(op), "shared": d[0], **sig_extra}, d[1])
        if viol is None:
            o = self.check_owned()
            if o:
                viol = ({"clause": "owned", "op": self.opname(op), "object": o[0], **sig_extra}, o[1])
        return "ok", obs, viol

    @staticmethod
    def opname(op):
        return op[2] if op[0] == "adopt" else {"import": "import_triggers"}.get(op[0], op[0])

    def do_save(self, u):
        env = self.env
        scn = self.scns[u - 1]
        d = tempfile.mkdtemp(dir=env.tmp)
        fn = os.path.join(d, "c09out.aoe2scenario")          # always the same stem (DataHeader.filename)
        self.shape[u] = [(len(t.effects), len(t.conditions)) for t in self.tm(u).triggers]
        try:
            with contextlib.redirect_stdout(io.StringIO()):
                scn.write_to_file(fn)
        except Exception as e:      # noqa
            return "error", "error", ({"clause": "save-raises", "error": type(e).__name__},
                                      f"saving scenario {u} raised {type(e).__name__}")
        raw = open(fn, "rb").read()
        shutil.rmtree(d, ignore_errors=True)
        hl = len(scn.sections["FileHeader"].get_data_as_bytes())
        body = zlib.decompress(raw[hl:], -zlib.MAX_WBITS)
        ctr = struct.unpack("<I", body[:4])[0]
        if ctr != int(scn.sections["DataHeader"].next_unit_id_to_place):
            raise RuntimeError("harness: next_unit_id is not the first body field")
        dig = hashlib.sha256(body[4:]).hexdigest()
        viol = None
        if u in self.digest:
            d0, c0 = self.digest[u]
            if d0 != dig:
                viol = ({"clause": "save-frame", "what": "body"},
                        f"scenario {u} saved a different body although nothing touched it since its last save")
            elif ctr != c0 + 1:
                viol = ({"clause": "save-frame", "what": "next_unit_id"},
                        f"scenario {u}: next_unit_id went {c0} -> {ctr} between two of its own saves")
        self.digest[u] = (dig, ctr)
        self.saves[u] = self.saves.get(u, 0) + 1
        obs = f"ok out={self.section(u)} | " + " ".join(f"sec{k}={self.section(k)}" for k in range(1, self.n + 1))
        if viol is None:
            d = self.check_disjoint()
            if d:
                viol = ({"clause": "disjoint", "op": "save", "shared": d[0]}, d[1])
        if viol is None:
            o = self.check_owned()
            if o:
                viol = ({"clause": "owned", "op": "save", "object": o[0]}, o[1])
        return "ok", obs, viol


def cmd_of(op):
    k = op[0]
    if k == "addtrig":
        return f"addtrig {op[1]} {op[2]}"
    if k == "addcomp":
        return f"addcomp {op[1]} {op[2]} {op[3]} {op[4]} {op[5]}"
    if k == "edit":
        return f"edit {op[1]} {op[2]} {op[3]}"
    if k == "import":
        return f"import {op[1]} {','.join(op[2]) or '-'}"
    if k == "adopt":
        _, u, how, pos, refs, cf = op
        return f"adopt {u} {how} {pos if pos is not None else '-'} {','.join(refs) or '-'} {int(bool(cf))}"
    if k == "wrap":
        return f"adopt {op[1]} append - {op[2]} 1"
    if k == "remove":
        return f"remove {op[1]} {op[2]}"
    if k == "save":
        return f"save {op[1]}"
    raise ValueError(op)


class Env:
    def __init__(self):
        common.lib_setup()
        from AoE2ScenarioParser.scenarios.aoe2_de_scenario import AoE2DEScenario
        from AoE2ScenarioParser.datasets.effects import EffectId
        from AoE2ScenarioParser.objects.support.uuid_list import NO_UUID
        self.Scn, self.NO_UUID = AoE2DEScenario, NO_UUID
        self.ACT, self.DEACT = int(EffectId.ACTIVATE_TRIGGER), int(EffectId.DEACTIVATE_TRIGGER)
        self.tmp = tempfile.mkdtemp(prefix="c09_")
        # small base file (5x5 map) written by the library itself from its default scenario: 25 ms to load, 10 ms to save
        with contextlib.redirect_stdout(io.StringIO()):
            s = AoE2DEScenario.from_default()
            self.prep(s)
            s.map_manager.map_size = 5
            self.small = os.path.join(self.tmp, "base", "c09base.aoe2scenario")
            os.makedirs(os.path.dirname(self.small))
            s.write_to_file(self.small)

    @staticmethod
    def prep(s):
        # defect F3 trap (BUILDING.md): below trigger version 4.0 more than one new component per file is not reloadable
        s.sections["Triggers"].trigger_version = 4.0
        s.sections["Triggers"].redacted = bytes(16)

    def new_scenario(self, base):
        with contextlib.redirect_stdout(io.StringIO()):
            if base == "default":
                s = self.Scn.from_default()
                self.prep(s)
            else:
                s = self.Scn.from_file(self.small)
        return s

    def close(self):
        shutil.rmtree(self.tmp, ignore_errors=True)


def run_history(env, spec, stop_at_violation=True):
    """spec = {n, base, ops}. returns (cmds, expects, violation or None, index of the violating op, sim)"""
    sim = Sim(env, spec["n"], spec.get("base", "small"))
    cmds, exps = [], []
    viol, at = None, None
    for idx, op in enumerate(spec["ops"]):
        op = list(op)
        st, obs, v = sim.apply(op)
        cmds.append(cmd_of(op))
        exps.append(obs)
        if v is not None:
            viol, at = v, idx
            if stop_at_violation:
                break
    return cmds, exps, viol, at, sim


def gen_history(rng, env, cfg, avoid, n, length, base):
    """Generate a history op by op against the real objects (shapes are read from the live state).
    `avoid` = the recorded defects whose inputs this history stays away from (so that the rest is explored deeply):
    F5 import into an empty manager, F6 adoption of a foreign trigger without copying, F17 new component on an
    imported / adopted trigger, F18 new effects sharing the dataset's default list object."""
    sim = Sim(env, n, base)
    ops = []
    fixI, fixN = cfg
    noF5 = "F5" in avoid and not fixI
    noF15 = "F17" in avoid and not fixN
    noF6 = "F6" in avoid
    own_list = 1 if "F18" in avoid else 0

    def fresh():
        return rng.randrange(-5, 1000)

    def trefs_of(u):
        return [f"s{u}.{i}" for i in range(len(sim.tm(u).triggers))]

    def href():
        lo = max(0, len(sim.handles) - 4)
        return [f"h{k}.{j}" for k in range(lo, len(sim.handles)) for j in range(len(sim.handles[k]))]

    def ops_add(op):
        op = list(op)
        st, obs, v = sim.apply(op)
        ops.append(op)
        return v

    def seed(u, m):
        for _ in range(m):
            if ops_add(("addtrig", u, fresh())):
                return True
        L = len(sim.tm(u).triggers)
        for i in range(L):
            for _ in range(rng.randrange(0, 3)):
                kind = rng.choice(KINDS)
                target = rng.randrange(-1, L + 1) if kind != "cond" else -1
                if ops_add(("addcomp", u, i, kind, target, fresh(), own_list)):
                    return True
        return False

    done = seed(1, rng.randrange(1, 4))
    for u in range(2, n + 1):
        if not done and rng.random() < (0.85 if noF5 else 0.5):
            done = seed(u, rng.randrange(1, 3))
    focus = rng.randrange(1, n + 1)
    guard = 0
    while not done and len(ops) < length and guard < 10 * length:
        guard += 1
        if rng.random() < 0.2:
            focus = rng.randrange(1, n + 1)
        u = focus if rng.random() < 0.75 else rng.randrange(1, n + 1)
        others = [v for v in range(1, n + 1) if v != u]
        r = rng.random()
        L = len(sim.tm(u).triggers)
        v = None
        if r < 0.16:
            v = ops_add(("save", rng.choice(others) if rng.random() < 0.6 else u))
        elif r < 0.30:
            cands = trefs_of(u) + (href() if rng.random() < 0.3 else [])
            if not cands:
                continue
            tr = rng.choice(cands)
            t = sim.tref(tr)
            comps = [f"{tr}.e{j}" for j in range(len(t.effects))] + [f"{tr}.c{j}" for j in range(len(t.conditions))]
            if comps and rng.random() < 0.6:
                c = rng.choice(comps)
                if ".e" in c and rng.random() < 0.5:
                    v = ops_add(("edit", c, "target", rng.randrange(-1, 5)))
                else:
                    v = ops_add(("edit", c, "val", fresh()))
            else:
                v = ops_add(("edit", tr, "name", fresh()))
        elif r < 0.38:
            v = ops_add(("addtrig", u, fresh()))
        elif r < 0.50:
            if L == 0:
                continue
            i = rng.randrange(L) if rng.random() < 0.97 else L + 1
            if noF15 and i < L and id(sim.tm(u).triggers[i]) in sim.imported:
                continue
            kind = rng.choice(KINDS)
            target = rng.randrange(-1, L + 1) if kind != "cond" else -1
            v = ops_add(("addcomp", u, i, kind, target, fresh(), own_list))
        elif r < 0.68:
            src_u = rng.choice(others) if rng.random() < 0.85 else u
            cands = trefs_of(src_u)
            if rng.random() < 0.15:
                cands = cands + href() + trefs_of(u)
            if not cands:
                continue
            if noF5 and L == 0:
                v = ops_add(("addtrig", u, fresh()))
                continue
            k = rng.randrange(1, min(4, len(cands)) + 1)
            refs = rng.sample(cands, k)
            if rng.random() < 0.5:
                refs.sort()
            objs = [sim.tref(x) for x in refs]
            if len({id(o) for o in objs}) != len(objs):
                continue
            v = ops_add(("import", u, refs))
        elif r < 0.86:
            how = rng.choice(("append", "insert", "extend", "setitem", "iadd", "assign"))
            pool_own = trefs_of(u)
            pool_det = [x for x in href() if sim.classify(u, sim.tref(x)) == "detached-trigger"]
            pool_for = [x for v2 in others for x in trefs_of(v2)]
            cf = 1 if rng.random() < 0.35 else 0
            if noF6 and not cf:
                pool = pool_det * 3 + pool_own
            else:
                pool = pool_for * 3 + pool_det + pool_own
            if not pool:
                continue
            if how in ("append", "insert", "setitem"):
                refs = [rng.choice(pool)]
            else:
                refs = [rng.choice(pool) for _ in range(rng.randrange(0, 4))]
            pos = None
            if how == "insert":
                pos = rng.randrange(0, L + 2)
            if how == "setitem":
                pos = rng.randrange(0, L + 1) if (rng.random() < 0.1 or L == 0) else rng.randrange(L)
            if how == "assign":
                objs = [sim.tref(x) for x in refs]
                if len({id(o) for o in objs}) != len(objs):
                    continue
            v = ops_add(("adopt", u, how, pos, refs, cf))
            if v is None and pool_for and rng.random() < 0.3:
                v = ops_add(("wrap", u, rng.choice(pool_for)))
        elif r < 0.94:
            if L == 0:
                continue
            i = rng.randrange(L) if rng.random() < 0.95 else L + rng.randrange(0, 2)
            v = ops_add(("remove", u, i))
        else:
            v = ops_add(("save", u))
        if v is not None:
            break
    return {"n": n, "base": base, "ops": ops}


def detect_cfg(env):
    """Which repaired behaviours does the tree under test show?  (the minimal inputs of the recorded defects F5, F17;
    the model variant follows the tree, the oracles do not)"""
    a = run_history(env, {"n": 2, "ops": [["addtrig", 1, 1], ["import", 2, ["s1.0"]]]})
    fixI = a[2] is None
    b = run_history(env, {"n": 2, "ops": [["addtrig", 1, 1], ["addtrig", 2, 2], ["import", 2, ["s1.0"]],
                                          ["addcomp", 2, 1, "eff", -1, 3, 1]]})
    fixN = b[2] is None
    return fixI, fixN


def shrink(env, spec, sig):
    """ddmin over the op list keeping a violation with the same signature"""
    def fails(ops):
        try:
            r = run_history(env, {"n": spec["n"], "base": spec.get("base", "small"), "ops": ops})
        except Exception:      # noqa
            return False
        return r[2] is not None and r[2][0] == sig

    ops = list(spec["ops"])
    n = 2
    budget = 150
    while len(ops) >= 2 and budget > 0:
        chunk = max(1, len(ops) // n)
        reduced = False
        for i in range(0, len(ops), chunk):
            cand = ops[:i] + ops[i + chunk:]
            budget -= 1
            if cand and fails(cand):
                ops, n, reduced = cand, max(n - 1, 2), True
                break
            if budget <= 0:
                break
        if not reduced:
            if chunk == 1:
                break
            n = min(len(ops), n * 2)
    return {"n": spec["n"], "base": spec.get("base", "small"), "ops": ops}


def run(ctx):
    env = Env()
    R = common.Result("seeded interleavings over 2-3 live scenarios of one version (v1.54): edits, new triggers/effects/"
                      "conditions, import_triggers(deepcopy=True), append/insert/extend/__setitem__/+=/setter with own, "
                      "detached and foreign triggers (also copy-then-adopt), removes, saves; each history stays away from a "
                      "random subset of the recorded defects' inputs (all of them in ~1/3 of the histories) so that "
                      "everything else is explored deeply; a history ends at its first violation; plus a structured family "
                      "(every entry point x own/detached/foreign x empty/non-empty receiver x copy-first, imports of every "
                      "ordered subset of a 3-trigger link cycle into 3 receiver shapes). non-trivial = contains an import or "
                      "an adoption and a later save; distinct by the op list")
    rng = ctx.rng
    drv = ctx.driver()
    try:
        cfg = detect_cfg(env)
        R.extra["model_variant"] = {"fixImport": cfg[0], "fixNested": cfg[1]}
        all_cmds, all_exp, all_meta = [], [], []
        seen_sigs = {}

        def account(spec, res, tag):
            cmds, exps, viol, at, sim = res
            ops = spec["ops"]
            all_cmds.append(f"init {spec['n']} {int(cfg[0])} {int(cfg[1])}")
            all_exp.append("ok")
            all_meta.append((spec, -1))
            for i, (c, e) in enumerate(zip(cmds, exps)):
                all_cmds.append(c); all_exp.append(e); all_meta.append((spec, i))
            kinds = [o[0] if o[0] != "adopt" else o[2] for o in ops]
            first_cross = next((i for i, o in enumerate(ops) if o[0] in ("import", "adopt")), None)
            saved_after = first_cross is not None and any(o[0] == "save" for o in ops[first_cross:])
            R.case(key=hashlib.sha256(json.dumps(ops).encode()).hexdigest(), nontrivial=bool(saved_after),
                   sample={"n": spec["n"], "ops": [cmd_of(o) for o in ops[:14]]} if tag == "random" else None,
                   tags=[f"hist:{tag}", f"n={spec['n']}", f"len>={len(ops) // 10 * 10}", f"base:{spec.get('base', 'small')}"] +
                        [f"op:{k}" for k in kinds] + [f"status:{'error' if e == 'error' else 'ok'}" for e in exps] +
                        ([f"viol:{viol[0]['clause']}"] if viol else ["viol:none"]))
            if viol is not None:
                sig, what = viol
                key = json.dumps(sig, sort_keys=True)
                if key not in seen_sigs:
                    small = shrink(env, {"n": spec["n"], "base": spec.get("base", "small"), "ops": ops[:at + 1]}, sig)
                    seen_sigs[key] = small
                    R.violation(sig, what, {"n": small["n"], "base": small["base"], "ops": small["ops"],
                                            "cmds": [cmd_of(o) for o in small["ops"]], "minimised": True})

        # corpus / replay first
        for c in ctx.corpus():
            rp = c.get("replay", c)
            if "ops" not in rp:
                continue
            spec = {"n": rp.get("n", 2), "base": rp.get("base", "small"), "ops": rp["ops"]}
            account(spec, run_history(env, spec), "corpus")

        for spec in structured_cases():
            account(spec, run_history(env, spec), "structured")

        n_hist = ctx.budget(320, 3600)
        for h in range(n_hist):
            n = 2 if rng.random() < 0.7 else 3
            avoid = {f for f in ("F5", "F6", "F17", "F18") if rng.random() < 0.75}
            base = "default" if h % 40 == 39 else "small"
            length = rng.randrange(8, 16 if base == "default" else 36)
            spec = gen_history(rng, env, cfg, avoid, n, length, base)
            account(spec, run_history(env, spec), "random")
            if h % 25 == 0:
                gc.collect()

        if drv is not None:
            out = drv.batch(all_cmds)
            bad_specs = set()
            for c, o, x, m in zip(all_cmds, out, all_exp, all_meta):
                if id(m[0]) in bad_specs:
                    continue
                if o != x:
                    bad_specs.add(id(m[0]))
                    R.mismatch(c, {"n": m[0]["n"], "base": m[0].get("base", "small"), "ops": m[0]["ops"][:m[1] + 1]}, impl=x, model=o)
                else:
                    R.traces += 1
        else:
            R.extra["driver"] = "unavailable (Lean build failed) - oracles only"
    finally:
        env.close()
    company_phase(ctx, R)
    return R.to_json(exhaustive=False)


# ---- what a scenario saves does not depend on the company it keeps (process-global state) ------------------------------
COMPANY_TVS = (2.4, None)        # None = the trigger version of the version's base file


def company_worker(version, args):
    """one fresh process: scenario B (and, in mode 'company', scenarios A next to it, with a DIFFERENT trigger version and
    their own armour/attack effects, messages, units) - returns per case the digest of B's saved body and the stored
    quantities of its effects. The parent compares mode 'solo' with mode 'company'."""
    import random
    from harness import bases, codec_common as cc
    common.lib_setup()
    from AoE2ScenarioParser.scenarios.aoe2_de_scenario import AoE2DEScenario
    company = args["mode"] == "company"
    base = bases.base_file(version, args.get("driver"))
    tmp = tempfile.mkdtemp(prefix="c09c_")
    out = {}

    def load(tv):
        with cc.quiet():
            s = AoE2DEScenario.from_file(base)
        t = s.sections["Triggers"]
        if float(t.trigger_version) == 3.5:
            return None                        # a gate of the structure sits exactly there: leave the version alone
        if tv is not None:
            t.trigger_version = tv
        return s

    def populate(s, rng, k):
        tm = s.trigger_manager
        for i in range(k):
            t = tm.add_trigger(f"t{i}")
            cls, q = rng.choice([(5, 3), (1, 200), (31, 7), (3, 255), (0, 1)])
            kind = rng.randrange(3)
            if kind == 0:
                t.new_effect.change_object_attack(object_list_unit_id=4, source_player=1, operation=1,
                                                  armour_attack_class=cls, armour_attack_quantity=q)
            elif kind == 1:
                t.new_effect.change_object_armor(object_list_unit_id=4, source_player=2, operation=1,
                                                 armour_attack_class=cls, armour_attack_quantity=q)
            else:
                t.new_effect.send_chat(source_player=1, message=f"m{i}")
            t.new_condition.timer(timer=3 + i)
        for p in (1, 2):
            s.unit_manager.add_unit(player=p, unit_const=4, x=1.5, y=1.5)

    def save(s, name):
        d = tempfile.mkdtemp(dir=tmp)
        fn = os.path.join(d, "c09company.aoe2scenario")
        with cc.quiet():
            s.write_to_file(fn)
        raw = open(fn, "rb").read()
        shutil.rmtree(d, ignore_errors=True)
        hl = len(s.sections["FileHeader"].get_data_as_bytes())
        body = zlib.decompress(raw[hl:], -zlib.MAX_WBITS)
        stored = [[int(e.quantity) for e in t.effect_data] for t in s.sections["Triggers"].trigger_data]
        return {"sha": hashlib.sha256(body[4:]).hexdigest(), "stored_effect_quantities": stored}

    try:
        case = 0
        for rnd in range(args["rounds"]):
            # trigger versions on both sides of 2.5 (the armour/attack layout switches there) and the file's own
            for tva, tvb in ((2.4, 2.6), (2.6, 2.4), (2.4, None), (None, 2.4), (2.6, 2.6)):
                rng = random.Random(f"C09c:{args['seed']}:{version}:{rnd}:{tvb}")
                key = f"r{rnd}:A={tva}:B={tvb}"
                with cc.quiet():
                    a = load(tva) if company else None
                    if a is not None:
                        populate(a, random.Random(f"A{rnd}"), 3)
                        # things scenario A does for itself that must stay A's business: a write hook, a per-player copy
                        # with GAIA included (default arguments and registries are process-global state too)
                        a.on_write(lambda sc: sc.trigger_manager.add_trigger("hook of A"))
                        a.trigger_manager.copy_trigger_per_player(from_player=1, trigger_select=0, include_gaia=True)
                        [e.armour_attack_quantity for t in a.trigger_manager.triggers for e in t.effects]
                        save(a, "a1")
                    b = load(tvb)
                    if b is None:
                        continue
                    populate(b, rng, 4)
                    b.trigger_manager.copy_trigger_per_player(from_player=1, trigger_select=0)
                    if a is not None:
                        a.trigger_manager.triggers[0].new_effect.change_object_attack(
                            object_list_unit_id=4, source_player=3, operation=1, armour_attack_class=2, armour_attack_quantity=9)
                        save(a, "a2")
                    out[key] = save(b, "b")
                    out[key]["readback"] = [[(e.armour_attack_class, e.armour_attack_quantity) for e in t.effects]
                                            for t in b.trigger_manager.triggers]
                    out[key]["trigger_names"] = [t.name for t in b.trigger_manager.triggers]
                case += 1
        return {"cases": out}
    finally:
        shutil.rmtree(tmp, ignore_errors=True)


def company_phase(ctx, R):
    from harness import bases, vworker
    vs = [v for v in bases.versions() if float(v) <= 1.51]
    pick = vs if not ctx.quick else sorted({vs[0], vs[len(vs) // 2], vs[-1]})
    args = {"seed": ctx.seed, "driver": ctx.driver_path, "rounds": ctx.budget(1, 4)}
    solo = vworker.run_versions("h_c09", "company_worker", pick, {**args, "mode": "solo"})
    comp = vworker.run_versions("h_c09", "company_worker", pick, {**args, "mode": "company"})
    n = 0
    for v in pick:
        for res in (solo[v], comp[v]):
            if "worker_error" in res:
                raise RuntimeError(f"C09 company worker {v}: {res['worker_error']}")
        for key, s in solo[v]["cases"].items():
            c = comp[v]["cases"].get(key)
            n += 1
            R.case(key=f"company:{v}:{key}", nontrivial=True, tags=["company"])
            if c is None or c["sha"] != s["sha"]:
                R.violation({"clause": "save-frame", "what": "company", "version": v},
                            f"version {v}, case {key}: the body scenario B saves differs when another scenario of the same version "
                            f"(other trigger version, own write hook, own per-player copies) was used in the process: triggers solo "
                            f"{s.get('trigger_names')} / in company {c and c.get('trigger_names')}; stored effect quantities solo "
                            f"{s['stored_effect_quantities']} / in company {c and c['stored_effect_quantities']}",
                            {"company": True, "version": v, "case": key, "solo": s, "company_result": c})
    R.extra["company_cases"] = n
    R.extra["company_versions"] = pick


def structured_cases():
    """small exhaustive family: every entry point with an own / detached / foreign argument into an empty /
    non-empty receiver, with and without copy-first; imports of every ordered subset of a 3-trigger link cycle"""
    import itertools
    out = []
    base = [["addtrig", 1, 10], ["addtrig", 1, 11], ["addtrig", 1, 12],
            ["addcomp", 1, 0, "act", 1, 5, 1], ["addcomp", 1, 0, "deact", 2, 6, 1], ["addcomp", 1, 1, "act", 0, 7, 1],
            ["addcomp", 1, 1, "cond", -1, 8, 1], ["addcomp", 1, 2, "deact", 2, 9, 1], ["addcomp", 1, 2, "eff", 1, 4, 1],
            ["addcomp", 1, 2, "act", 7, 3, 1]]
    for recv_pre in ([], [["addtrig", 2, 20]], [["addtrig", 2, 20], ["addcomp", 2, 0, "act", 0, 1, 1], ["addtrig", 2, 21]]):
        for k in (1, 2, 3):
            for sub in itertools.permutations(range(3), k):
                ops = base + recv_pre + [["import", 2, [f"s1.{i}" for i in sub]], ["save", 2], ["edit", "s1.0", "name", 77],
                                         ["edit", "s1.0.e0", "val", 78], ["save", 1], ["save", 2]]
                out.append({"n": 2, "base": "small", "ops": ops})
    for how in ("append", "insert", "extend", "setitem", "iadd", "assign"):
        for arg in ("own", "detached", "foreign"):
            for recv in (0, 2):
                for cf in (0, 1):
                    ops = list(base)
                    ops += [["addtrig", 2, 20 + i] for i in range(recv)]
                    if arg == "detached":
                        ops += [["addtrig", 2, 30], ["remove", 2, recv]]
                        ref = "h0.0"
                    elif arg == "own":
                        if recv == 0:
                            continue
                        ref = "s2.0"
                    else:
                        ref = "s1.1"
                    pos = 0 if how in ("insert", "setitem") else None
                    if how == "setitem" and recv == 0:
                        continue
                    ops += [["save", 1], ["adopt", 2, how, pos, [ref], cf], ["edit", "s2.0", "name", 55], ["save", 1], ["save", 2]]
                    out.append({"n": 2, "base": "small", "ops": ops})
    # a detached trigger built from the component lists of a foreign trigger, appended to an empty / non-empty receiver
    for recv in (0, 2):
        for ref in ("s1.0", "s1.1", "s1.2"):
            ops = list(base) + [["addtrig", 2, 20 + i] for i in range(recv)]
            ops += [["save", 1], ["wrap", 2, ref], ["edit", f"s2.{recv}.e0", "val", 91], ["edit", f"s2.{recv}", "name", 56], ["save", 1], ["save", 2]]
            out.append({"n": 2, "base": "small", "ops": ops})
    # three scenarios, chain of imports, removal of the sources afterwards
    out.append({"n": 3, "base": "small", "ops": base + [["addtrig", 2, 1], ["addtrig", 3, 2], ["import", 2, ["s1.0", "s1.1"]],
                                                       ["import", 3, ["s2.1", "s2.2"]], ["save", 3], ["remove", 1, 0], ["remove", 2, 1],
                                                       ["save", 1], ["save", 2], ["save", 3]]})
    # new components on imported triggers (F17) and default list objects of new effects (F18)
    out.append({"n": 2, "base": "small", "ops": [["addtrig", 1, 1], ["addtrig", 2, 2], ["import", 2, ["s1.0"]],
                                                 ["addcomp", 2, 1, "cond", -1, 3, 1], ["save", 2], ["save", 1]]})
    out.append({"n": 2, "base": "small", "ops": [["addtrig", 1, 1], ["addtrig", 2, 2], ["addcomp", 1, 0, "eff", -1, 3, 0],
                                                 ["addcomp", 2, 0, "eff", -1, 4, 0]]})
    return out
