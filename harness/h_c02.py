"""C02 – loaded values are exactly what the structure definition says the bytes mean.

Independent decoder = the Lean codec generated from structure.json (driver drv_c02). Per version (one subprocess each):
  * base file (synthesised, library-normalised) loaded with the full library (managers included);
  * type-directed random well-formed trees, serialised by the LEAN encoder, parsed by the library's own section parser;
    three-way comparison: generated tree = model re-parse = library parse (field by field, shape included);
  * a malformed stream (truncations, corrupted counts / string lengths) – outcomes and dumps must agree.
"""
import os, shutil, tempfile, random
from harness import common, codec_common as cc, bases, treegen, vworker

RULE = ("per version: base file + type-directed random trees (ints from width/sign boundaries and random, multi-byte strings, "
        "empty/repeated structs, optional blocks both ways via trigger/victory version) encoded by the Lean model and decoded "
        "by the library, plus truncated/corrupted files; non-trivial = a well-formed generated tree with at least one "
        "non-empty struct list; distinct by tree text hash")


def worker(version, args):
    import hashlib
    common.lib_setup()
    from AoE2ScenarioParser.scenarios.aoe2_de_scenario import AoE2DEScenario
    rng = random.Random(f"C02:{args['seed']}:{version}")
    R = common.Result(RULE); R.export_keys = True
    drv = common.Driver(args["driver"]) if args.get("driver") else None
    tmp = tempfile.mkdtemp(prefix="c02_")
    try:
        # ---- 1. base file through the full library -----------------------------------------------------
        try:
            base = bases.base_file(version, args.get("driver"))
        except RuntimeError as e:
            base = None
            R.mismatch(f"no base file for {version}: {e}", {"version": version, "op": "base"})
        if base and drv:
            raw = open(base, "rb").read()
            with cc.quiet():
                scn = AoE2DEScenario.from_file(base)
            mine = cc.canon_scenario(scn)
            o = drv.batch([f"table {version}", "hdr " + cc.hexd(raw)])
            n = int(o[1].split("consumed=")[1]) if o[1].startswith("ok") else None
            if n is None:
                R.mismatch("model cannot parse the header of the base file", {"version": version, "op": "base"}, impl="ok", model=o[1])
            else:
                body = cc.inflate(raw[n:])
                o = drv.batch([f"table {version}", "hdr " + cc.hexd(raw), "body " + cc.hexd(body), "dump"])
                R.case(key="base", nontrivial=True, tags=("base",), sample={"op": "base", "bytes": len(raw)})
                consumed_ok = scn.sections["FileHeader"].byte_length == n
                if not o[2].startswith("ok rest=0 eof=[] consistent=true") or o[3] != mine or not consumed_ok or cc.eof_mark(scn) not in (None, []):
                    d = cc.first_diff(mine, o[3]) if o[3] != mine else {}
                    R.mismatch("base file: library and model disagree", {"version": version, "op": "base", "diff": d, "path": cc.path_at(mine, d.get("at", 0)) if d else ""},
                               impl=f"hdr={scn.sections['FileHeader'].byte_length} eof={cc.eof_mark(scn)!r}", model=o[2])
                else:
                    R.traces += 1
            del scn
        # ---- 1m. the manager clause: what the managers read from a loaded file (the constructors' inputs, traced) is what
        # they hand back on an unedited save (the values pushed, traced) - link by link, on files written after seeded
        # histories with attribute-complete effects and conditions. A used effect string comes back with its terminator
        # (the commit callback re-adds the NUL that parsing drops).
        if base:
            from harness import histories, mgrtrace, handback
            for h in range(-1, args.get("nmgr", 3)):
                hseed = f"C02:mgr:{args['seed']}:{version}:{h}"
                if h == -1:
                    # the base file with other strings (written at section level, managers not involved): its content differs from
                    # every scenario this process has loaded so far, so values remembered from an earlier scenario would show
                    with cc.quiet():
                        scn = AoE2DEScenario.from_file(base)
                        k_ = 0
                        for sec in scn.sections.values():
                            for rname, r in sec.retriever_map.items():
                                if r.datatype.type == "str" and isinstance(r.data, str) and not (sec.name == "DataHeader" and rname == "filename") and k_ < 12:
                                    setattr(sec, rname, f"second {k_}"); k_ += 1
                        f1 = os.path.join(tmp, "m_second.aoe2scenario")
                        st_w, _ = common.outcome(scn.write_to_file, f1, skip_reconstruction=True)
                    del scn
                else:
                    with cc.quiet():
                        scn = AoE2DEScenario.from_file(base)
                        H = histories.History(scn, random.Random(hseed), version)
                        if h == 0:
                            common.outcome(H.populate)      # every effect / condition type, attribute-complete
                        else:
                            for _ in range(35):
                                common.outcome(H.step)
                        f1 = os.path.join(tmp, f"m{h}.aoe2scenario")
                        st_w, _ = common.outcome(scn.write_to_file, f1)
                    del scn
                if st_w != "ok":
                    continue
                with cc.quiet():
                    st_l, lt = common.outcome(mgrtrace.load_traced, f1)
                    st_s, stx = common.outcome(mgrtrace.save_traced, lt[0], os.path.join(tmp, f"m{h}b.aoe2scenario")) if st_l == "ok" else ("skip", None)
                if st_l == "ok" and drv:
                    # ... and what the managers read IS the independent decode: the Lean `construct` (regenerated link tables
                    # over the generated codec) applied to the bytes of this very file hands the constructors the same values
                    raw_m = open(f1, "rb").read()
                    o_m = drv.batch([f"table {version}", "hdr " + cc.hexd(raw_m)])
                    if o_m[1].startswith("ok"):
                        n_m = int(o_m[1].split("consumed=")[1])
                        o_m = drv.batch([f"table {version}", "hdr " + cc.hexd(raw_m), "body " + cc.hexd(cc.inflate(raw_m[n_m:])), "construct"])
                        R.case(key=f"construct:{h}", nontrivial=True, tags=("managers-read-decoded",))
                        if o_m[3] != lt[1]:
                            R.violation({"version": version, "kind": "manager-reads-other-than-decoded"},
                                        "the values the managers' constructors receive from a loaded file differ from the independent "
                                        "decode of the same bytes (file " + "not the first" + " of this process)",
                                        {"version": version, "history_seed": hseed, "file_index_in_process": h, "diff": cc.first_diff(o_m[3], lt[1])})
                        else:
                            R.traces += 1
                if st_l != "ok" or st_s != "ok":
                    continue                      # a file that does not re-load / re-save is C03's and C04's subject
                try:
                    ds = handback.diffs(handback.parse(lt[1]), handback.parse(stx[1]))
                except ValueError:
                    continue
                ds = [d for d in ds if not (d[1].startswith("s") and d[2] == d[1] + "00")]
                R.case(key=f"handback:{h}", nontrivial=True, tags=("managers-hand-back",))
                if ds:
                    R.violation({"version": version, "kind": "manager-value-differs-from-stored", "link": "/".join(ds[0][0].split("/")[:2] + ds[0][0].split("/")[-1:])},
                                f"a manager hands back {ds[0][2]} for the link at {ds[0][0]} although it read {ds[0][1]} from the loaded file "
                                f"({len(ds)} link value(s) differ)", {"version": version, "history_seed": hseed, "diffs": ds[:10]})
                else:
                    R.traces += 1
        # ---- 1b. strings whose STORED bytes end in more than the one terminating NUL (outside the encoder's normal
        # form, so they cannot come from the generated trees): the base file with such strings written through the
        # section API, decoded by the library (fresh load) and by the model
        if base and drv:
            with cc.quiet():
                scn = AoE2DEScenario.from_file(base)
            nset = 0
            pool = ["one more\x00", "two more\x00\x00", "\x00", "mid\x00dle\x00", "é\x00\x00"]
            for sec in scn.sections.values():
                for rname, r in sec.retriever_map.items():
                    if r.datatype.type == "str" and isinstance(r.data, str) and not (sec.name == "DataHeader" and rname == "filename") and nset < 12:
                        setattr(sec, rname, pool[nset % len(pool)]); nset += 1
            fn = os.path.join(tmp, "base.aoe2scenario")
            with cc.quiet():
                st_w, _ = common.outcome(scn.write_to_file, fn, skip_reconstruction=True)
            del scn
            if st_w == "ok":
                raw = open(fn, "rb").read()
                with cc.quiet():
                    st_l, scn = common.outcome(AoE2DEScenario.from_file, fn)
                os.remove(fn)
                o = drv.batch([f"table {version}", "hdr " + cc.hexd(raw)])
                n = int(o[1].split("consumed=")[1]) if o[1].startswith("ok") else None
                R.case(key="nul-ended-strings", nontrivial=nset > 0, tags=("stored-strings:nul-ended",))
                if n is not None and st_l == "ok":
                    mine = cc.canon_scenario(scn)
                    o = drv.batch([f"table {version}", "hdr " + cc.hexd(raw), "body " + cc.hexd(cc.inflate(raw[n:])), "dump"])
                    if not o[2].startswith("ok") or o[3] != mine:
                        d = cc.first_diff(mine, o[3])
                        # the reference here is the definition itself (a `str` field is its stored bytes minus exactly ONE
                        # terminating NUL, DESIGN B.1): a concrete file on which the library shows something else
                        R.violation({"op": "decode", "what": "string with extra trailing NUL bytes"},
                                    f"version {version}: a stored string that ends in more than one NUL byte is decoded differently from the "
                                    f"structure definition at {cc.path_at(mine, d.get('at', 0)) if d else '?'}: library …{d.get('impl', '')[40:110]}… definition …{d.get('model', '')[40:110]}…",
                                    {"version": version, "op": "nul-strings", "diff": d})
                    else:
                        R.traces += 1
                elif n is not None:
                    R.mismatch("strings stored with extra trailing NUL bytes: the library cannot load the file the model parses",
                               {"version": version, "op": "nul-strings"}, impl="error", model="ok")
        # ---- 2. generated trees -----------------------------------------------------------------------
        ncases = args["ncases"]
        texts, cmds = [], [f"table {version}"]
        attempts = 0
        while len(texts) < ncases and attempts < ncases * 4:
            attempts += 1
            g = treegen.TreeGen(version, rng, big_lists=rng.choice([2, 3, 5]))
            try:
                t = g.tree()
            except treegen.BadCount:
                R.dist["gen:badcount"] += 1
                continue
            texts.append((t, g.stats))
            cmds += ["settree " + t, "consistent", "ser"]
        files = []
        if drv and texts:
            out = drv.batch(cmds)
            for i, (t, st) in enumerate(texts):
                cons, ser = out[2 + 3 * i], out[3 + 3 * i]
                if cons != "true" or not ser.startswith("ok"):
                    R.mismatch("generated tree is not consistent / not serialisable in the model", {"version": version, "op": "gen", "tree": t[:2000]}, model=f"{cons} {ser[:80]}")
                    files.append(None); continue
                h, b = [cc.unhexd(x.split("=", 1)[1]) for x in ser.split()[1:]]
                files.append((h, b))
        # library side
        cmds2, metas = [f"table {version}"], []
        for i, (t, st) in enumerate(texts):
            if not files or files[i] is None:
                continue
            h, b = files[i]
            fn = os.path.join(tmp, f"g{i}.aoe2scenario")
            open(fn, "wb").write(h + cc.deflate(b))
            with cc.quiet():
                st_, scn = common.outcome(cc.load_sections_only, fn, version)
            os.remove(fn)
            key = hashlib.sha256(t.encode()).hexdigest()[:12]
            nontrivial = st["nonempty_struct_list"] > 0
            R.case(key=key, nontrivial=nontrivial, tags=("gen",) + tuple(f"gen:{k}" for k, v in st.items() if v and k != "fields"),
                   sample={"op": "gen", "bytes": len(h) + len(b), "stats": st})
            if st_ != "ok":
                # the library cannot load a file that is consistent by the structure definition
                R.violation({"op": "parse-raises", "error": scn}, f"library raises {scn} on a well-formed generated file",
                            {"version": version, "op": "gen", "tree": t})
                continue
            lib = cc.canon_scenario(scn)
            eof = cc.eof_mark(scn)
            hdr_len = scn.sections["FileHeader"].byte_length
            del scn
            if lib != t or eof not in (None, []) or hdr_len != len(h):
                d = cc.first_diff(lib, t)
                R.violation({"op": "decode", "path": cc.path_at(t, d["at"]).split("[")[0]},
                            f"library decodes a field differently from the structure definition at {cc.path_at(t, d['at'])}",
                            {"version": version, "op": "gen", "diff": d, "path": cc.path_at(t, d["at"]), "tree": t if len(t) < 20000 else t[:20000]})
            cmds2 += ["hdr " + cc.hexd(h), "body " + cc.hexd(b), "dump"]
            metas.append((i, t))
        if drv and metas:
            out = drv.batch(cmds2)
            for j, (i, t) in enumerate(metas):
                o_h, o_b, o_d = out[1 + 3 * j: 4 + 3 * j]
                if not o_b.startswith("ok rest=0 eof=[] consistent=true") or o_d != t:
                    R.mismatch("model re-parse of its own encoding differs from the generated tree (law dec_enc violated at run time?)",
                               {"version": version, "op": "gen", "diff": cc.first_diff(o_d, t)}, model=o_b[:100])
                else:
                    R.traces += 1
        # ---- 3. malformed stream ----------------------------------------------------------------------
        good = [f for f in files if f] if files else []
        nmal = args["nmal"]
        cmds3, exp = [f"table {version}"], []
        for k in range(min(nmal, 10 * len(good))):
            h, b = good[k % len(good)]
            kind = rng.choice(["trunc", "trunc", "flip", "extra"])
            if kind == "trunc":
                b2 = b[:rng.randrange(0, len(b))]
            elif kind == "extra":
                b2 = b + bytes(rng.randrange(1, 5))
            else:
                pos = rng.randrange(len(b)); b2 = b[:pos] + bytes([b[pos] ^ (1 << rng.randrange(8))]) + b[pos + 1:]
            fn = os.path.join(tmp, f"m{k}.aoe2scenario")
            open(fn, "wb").write(h + cc.deflate(b2))
            with cc.quiet():
                st_, scn = common.outcome(cc.load_sections_only, fn, version)
            os.remove(fn)
            R.case(key=None, tags=("malformed:" + kind, "malformed:" + ("loads" if st_ == "ok" else "raises")))
            if st_ == "ok":
                eof = cc.eof_mark(scn)
                e = (cc.canon_scenario(scn), "[]" if eof in (None, []) else "d" + bytes(eof).hex())
                del scn
            else:
                e = None
            cmds3 += ["hdr " + cc.hexd(h), "body " + cc.hexd(b2), "dump"]
            exp.append((kind, e, len(b2)))
        if drv and exp:
            out = drv.batch(cmds3)
            for j, (kind, e, ln) in enumerate(exp):
                o_b, o_d = out[2 + 3 * j], out[3 + 3 * j]
                if e is None:
                    if o_b.startswith("ok"):
                        R.mismatch(f"malformed ({kind}): library raises, model parses", {"version": version, "op": "malformed", "kind": kind}, impl="error", model=o_b[:80])
                    else:
                        R.traces += 1
                else:
                    if not o_b.startswith("ok") or cc.canon_nan(o_d) != cc.canon_nan(e[0]) or f"eof={e[1]} " not in o_b:
                        R.mismatch(f"malformed ({kind}): library loads, model differs", {"version": version, "op": "malformed", "kind": kind,
                                   "diff": cc.first_diff(e[0], o_d) if o_b.startswith("ok") else {}}, impl="ok eof=" + e[1], model=o_b[:80])
                    else:
                        R.traces += 1
    finally:
        shutil.rmtree(tmp, ignore_errors=True)
    return R.to_json()


def run(ctx):
    R = common.Result(RULE)
    vs = bases.versions()
    args = {"nmgr": ctx.budget(3, 12), "seed": ctx.seed, "driver": ctx.driver_path, "ncases": ctx.budget(25, 200), "nmal": ctx.budget(40, 300)}
    per = vworker.run_versions("h_c02", "worker", vs, args)
    cc.merge_results(R, per, "C02")
    R.extra["versions"] = vs
    if ctx.driver_path is None:
        R.extra["driver"] = "unavailable (Lean build failed) - the independent decoder could not run"
    return R.to_json()
