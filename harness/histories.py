"""Random in-domain edit histories through the public manager API, and a canonical dump of the managers' observable state.

Shared by C01 (files the library wrote after an edit history), C03 (set -> save -> reload -> equal), C04 (every written file
is well-formed) and C05. Every choice derives from the rng passed in. "In-domain" = values representable in their file field
(C12 covers the rest), ids that exist, effect/condition types the version has.
"""
import struct

PLAYER_ATTRS_ALL = ["starting_age", "lock_civ", "food", "wood", "gold", "stone", "color", "human", "civilization"]
PLAYER_ATTRS_NON_GAIA = ["population_cap", "allied_victory", "base_priority", "tribe_name", "string_table_name_id"]
PLAYER_ATTRS_DEPRECATED = ["initial_camera_x", "initial_camera_y"]
TRIGGER_ATTRS = ["name", "description", "description_stid", "display_as_objective", "short_description", "short_description_stid",
                 "display_on_screen", "description_order", "enabled", "looping", "header", "mute_objectives"]
MESSAGE_ATTRS = ["instructions", "hints", "victory", "loss", "history", "scouts", "instructions_string_table_id",
                 "hints_string_table_id", "victory_string_table_id", "loss_string_table_id", "history_string_table_id", "scouts_string_table_id"]
OPTION_ATTRS = ["victory_condition", "victory_score", "victory_custom_conditions_required", "lock_teams", "random_start_points",
                "allow_players_choose_teams", "collide_and_correct"]
UNIT_ATTRS = ["x", "y", "z", "unit_const", "status", "rotation", "initial_animation_frame", "garrisoned_in_id"]
STRS = ["", "a", "Trigger X", "héllo", "日本語", "multi\nline", "with \"quotes\"", "x" * 30]


def f32(x):
    return struct.unpack("<f", struct.pack("<f", x))[0]


def version_tuple(v):
    return tuple(int(x) for x in v.split("."))


SPECIAL_EFFECT_ATTRS = {"effect_type", "armour_attack_quantity", "armour_attack_class", "message", "sound_name", "selected_object_ids",
                        "unused_string_1", "unused_string_2", "item_id", "legacy_location_object_reference"}
PLAYER_ATTRS = {"source_player", "target_player", "player_color"}


def _outcome(fn, *a):
    try:
        return "ok", fn(*a)
    except Exception as e:      # noqa
        return "error", type(e).__name__


class History:
    """applies random operations to a live scenario and records them (the record is the replay)"""

    def __init__(self, scn, rng, version, allow_components=True, small_map=True):
        self.scn, self.rng, self.version, self.ops = scn, rng, version, []
        self.allow_components = allow_components
        self.vt = version_tuple(version)
        self.counts = {}

    # ---- helpers -----------------------------------------------------------------------------------
    def _rec(self, *op):
        self.ops.append(list(op))
        self.counts[op[0]] = self.counts.get(op[0], 0) + 1

    def _effect_types(self):
        from AoE2ScenarioParser.datasets import effects
        return sorted(k for k in effects.default_attributes.keys() if k > 0)

    def _condition_types(self):
        from AoE2ScenarioParser.datasets import conditions
        return sorted(k for k in conditions.default_attributes.keys() if k > 0)

    # ---- operations --------------------------------------------------------------------------------
    def op_add_trigger(self):
        rng = self.rng
        name = rng.choice(STRS) or "t"
        tr = self.scn.trigger_manager.add_trigger(name, enabled=rng.random() < 0.8, looping=rng.random() < 0.3,
                                                  description=rng.choice(STRS), short_description=rng.choice(STRS))
        self._rec("add_trigger", name)
        if self.allow_components:
            for _ in range(rng.choice([0, 1, 1, 2, 3])):
                self.op_add_effect(tr)
            for _ in range(rng.choice([0, 0, 1, 2])):
                self.op_add_condition(tr)

    def op_add_effect(self, tr=None, et=None, rich=False):
        rng = self.rng
        tm = self.scn.trigger_manager
        if tr is None:
            if not tm.triggers:
                return
            tr = rng.choice(tm.triggers)
        et = rng.choice(self._effect_types()) if et is None else et
        kw = {}
        r = rng.random()
        if r < 0.3:
            kw = dict(message=rng.choice(STRS), source_player=rng.randint(0, 8), display_time=rng.randint(0, 100))
        elif r < 0.5 and tm.triggers:
            kw = dict(trigger_id=rng.randrange(len(tm.triggers)))
        elif r < 0.7:
            kw = dict(selected_object_ids=[rng.randint(0, 5000) for _ in range(rng.randint(0, 4))], quantity=rng.randint(0, 1000))
        elif r < 0.8:
            kw = dict(area_x1=rng.randint(0, 5), area_y1=rng.randint(0, 5), area_x2=rng.randint(5, 9), area_y2=rng.randint(5, 9), object_list_unit_id=rng.randint(0, 1500))
        elif r < 0.9:
            kw = dict(sound_name=rng.choice(STRS), location_x=rng.randint(0, 9), location_y=rng.randint(0, 9))
        from AoE2ScenarioParser.datasets import effects
        from AoE2ScenarioParser.datasets.effects import EffectId
        attrs = set(effects.attributes.get(et, []))
        if rich or rng.random() < 0.35:
            # attribute-complete: every integer attribute this effect type has gets a legal value, with the values a sloppy
            # truthiness / None test confuses (0) and small references over-represented
            kw = {}
            for a in sorted(attrs - SPECIAL_EFFECT_ATTRS):
                if a in PLAYER_ATTRS:
                    kw[a] = rng.choice([0, 1, 8, rng.randint(0, 8)])
                elif a == "trigger_id":
                    if tm.triggers:
                        kw[a] = rng.choice([0, len(tm.triggers) - 1, rng.randrange(len(tm.triggers))])
                elif a == "object_attributes":
                    kw[a] = rng.choice([0, 1, 2, 5, 100])          # not ATTACK / ARMOR: those need the pair (below)
                elif a in ("area_x1", "area_y1"):
                    kw[a] = rng.choice([0, 1, 3])
                elif a in ("area_x2", "area_y2"):
                    kw[a] = rng.choice([3, 4, 9])
                else:
                    kw[a] = rng.choice([0, 0, 1, 2, 17, 255, rng.randint(0, 1000)])
            if "message" in attrs:
                kw["message"] = rng.choice(STRS)
            if "sound_name" in attrs:
                kw["sound_name"] = rng.choice(STRS)
            if "selected_object_ids" in attrs and rng.random() < 0.5:
                kw["selected_object_ids"] = [rng.randint(0, 5000) for _ in range(rng.randint(0, 3))]
        if et == int(EffectId.SCRIPT_CALL):
            kw = {}                    # no XS code: the save would start the external xs-check binary (not runnable here)
        if "armour_attack_class" in attrs and rng.random() < 0.85:
            # armour/attack effects need their pair (an unset pair is the library's `[]` sentinel: known finding F15)
            kw = dict(armour_attack_class=rng.choice([0, 1, 3, 30, 255, rng.randint(0, 255)]),
                      armour_attack_quantity=rng.choice([0, 1, 200, 255, 32767, 32768, 65535, rng.randint(0, 65535)]))
            if self.scn.sections["Triggers"].trigger_version < 2.5:
                kw["armour_attack_quantity"] %= 256
            if "object_attributes" in attrs:
                kw = {}
        try:
            tr._add_effect(et, **kw)
            self._rec("add_effect", tr.trigger_id, et, sorted(kw))
        except Exception as e:     # a type/attribute the version lacks is C15's business; try a plain one
            tr._add_effect(et)
            self._rec("add_effect", tr.trigger_id, et, [])

    def op_add_condition(self, tr=None, ct=None, rich=False):
        rng = self.rng
        tm = self.scn.trigger_manager
        if tr is None:
            if not tm.triggers:
                return
            tr = rng.choice(tm.triggers)
        ct = rng.choice(self._condition_types()) if ct is None else ct
        kw = rng.choice([{}, dict(quantity=rng.randint(0, 100)), dict(timer=rng.randint(0, 600)), dict(source_player=rng.randint(0, 8), inverted=rng.randint(0, 1))])
        if rich or rng.random() < 0.35:
            from AoE2ScenarioParser.datasets import conditions
            kw = {}
            for a in sorted(set(conditions.attributes.get(ct, [])) - {"condition_type", "xs_function", "unit_ai_action"}):
                if a in ("source_player", "target_player"):
                    kw[a] = rng.choice([0, 1, 8, rng.randint(0, 8)])
                elif a in ("area_x1", "area_y1"):
                    kw[a] = rng.choice([0, 1, 3])
                elif a in ("area_x2", "area_y2"):
                    kw[a] = rng.choice([3, 4, 9])
                elif a == "inverted":
                    kw[a] = rng.randint(0, 1)
                else:
                    kw[a] = rng.choice([0, 0, 1, 2, 17, 255, rng.randint(0, 1000)])
        try:
            tr._add_condition(ct, **kw)
        except Exception:
            kw = {}
            tr._add_condition(ct)
        self._rec("add_condition", tr.trigger_id, ct, sorted(kw))

    def populate(self, per_trigger=12):
        """one attribute-complete effect of EVERY effect type and one condition of every condition type of this version,
        spread over new triggers (the directed counterpart of the random operations)"""
        tm = self.scn.trigger_manager
        ets, cts = self._effect_types(), self._condition_types()
        k = 0
        while k < max(len(ets), len(cts)):
            tr = tm.add_trigger(f"populated {k}")
            self._rec("add_trigger", tr.trigger_id)
            for et in ets[k:k + per_trigger]:
                st, e = _outcome(self.op_add_effect, tr, et, True)
            for ct in cts[k:k + per_trigger]:
                st, e = _outcome(self.op_add_condition, tr, ct, True)
            k += per_trigger

    def op_remove_trigger(self):
        tm = self.scn.trigger_manager
        if not tm.triggers:
            return
        n = len(tm.triggers)
        if n >= 3 and self.rng.random() < 0.6:
            # several at once, in any order, never the whole list (the survivors are renumbered and links retargeted)
            ids = self.rng.sample(range(n), self.rng.randint(2, min(4, n - 1)))
            from AoE2ScenarioParser.objects.support.trigger_select import TriggerSelect as TS
            tm.remove_triggers([TS.index(i) for i in ids] if self.rng.random() < 0.5 else ids)
            self._rec("remove_triggers", ids)
            return
        i = self.rng.randrange(n)
        tm.remove_trigger(i)
        self._rec("remove_trigger", i)

    def op_remove_component(self):
        tm = self.scn.trigger_manager
        cands = [t for t in tm.triggers if t.effects or t.conditions]
        if not cands:
            return
        t = self.rng.choice(cands)
        if t.effects and (not t.conditions or self.rng.random() < 0.5):
            i = self.rng.randrange(len(t.effects)); t.remove_effect(effect_index=i); self._rec("remove_effect", t.trigger_id, i)
        else:
            i = self.rng.randrange(len(t.conditions)); t.remove_condition(condition_index=i); self._rec("remove_condition", t.trigger_id, i)

    def op_set_trigger_attr(self):
        tm = self.scn.trigger_manager
        if not tm.triggers:
            return
        t = self.rng.choice(tm.triggers)
        a = self.rng.choice(TRIGGER_ATTRS)
        v = self.rng.choice(STRS) if a in ("name", "description", "short_description") else \
            self.rng.randint(-1, 100000) if a.endswith("_stid") else self.rng.randint(0, 200) if a == "description_order" else self.rng.randint(0, 1)
        setattr(t, a, v); self._rec("set_trigger", t.trigger_id, a, v)

    def op_reorder(self):
        tm = self.scn.trigger_manager
        n = len(tm.triggers)
        if n < 2:
            return
        if self.rng.random() < 0.5:
            order = list(range(n)); self.rng.shuffle(order)
            tm.reorder_triggers(order); self._rec("reorder", order)
        else:
            ids = self.rng.sample(range(n), self.rng.randint(1, min(3, n)))
            k = self.rng.randint(0, n)
            tm.move_triggers(ids, k); self._rec("move", ids, k)

    def op_component_order(self):
        """a custom display order of the effects / conditions of one trigger (what the in-game editor stores after dragging)"""
        tm = self.scn.trigger_manager
        cands = [(i, t) for i, t in enumerate(tm.triggers) if len(t.effects) > 1 or len(t.conditions) > 1]
        if not cands:
            return
        i, t = self.rng.choice(cands)
        if len(t.effects) > 1 and (len(t.conditions) < 2 or self.rng.random() < 0.6):
            p = list(range(len(t.effects))); self.rng.shuffle(p)
            t.effect_order = p; self._rec("effect_order", i, p)
        else:
            p = list(range(len(t.conditions))); self.rng.shuffle(p)
            t.condition_order = p; self._rec("condition_order", i, p)

    def op_write_hook(self):
        """register (once per scenario object) an on-write hook that edits the scenario through the managers: what it does is
        part of the save that runs it"""
        if getattr(self, "_hooked", False):
            return
        self._hooked = True
        n = [0]

        def hook(scn):
            n[0] += 1
            scn.message_manager.hints = f"hook ran {n[0]}"
            scn.trigger_manager.add_trigger(f"hook trigger {n[0]}")
        self.scn.on_write(hook)
        self._rec("on_write_hook")

    def op_copy(self):
        rng = self.rng
        tm = self.scn.trigger_manager
        if not tm.triggers or len(tm.triggers) > 12:
            return
        i = rng.randrange(len(tm.triggers))
        r = rng.random()
        if r < 0.5:
            after = rng.random() < 0.5
            tm.copy_trigger(i, append_after_source=after); self._rec("copy_trigger", i, after)
        elif r < 0.7:
            tm.copy_trigger_tree(i); self._rec("copy_trigger_tree", i)
        else:
            players = sorted(rng.sample(range(1, 9), rng.randint(1, 2)))
            fp = rng.randint(1, 8)
            from AoE2ScenarioParser.datasets.players import PlayerId
            tm.copy_trigger_per_player(PlayerId(fp), i, create_copy_for_players=[PlayerId(p) for p in players])
            self._rec("copy_trigger_per_player", fp, i, players)

    def op_variant(self):
        # the scenario variant is a public attribute of the scenario; Return of Rome needs scenario version >= 1.49
        choices = ["aoe2", "legacy"] + (["ror"] if self.vt >= (1, 49) else [])
        v = self.rng.choice(choices)
        self.scn.variant = v; self._rec("variant", v)

    def op_add_variable(self):
        tm = self.scn.trigger_manager
        used = {v.variable_id for v in tm.variables}
        free = [i for i in range(256) if i not in used]
        if not free:
            return
        i = self.rng.choice(free[:40])
        name = self.rng.choice(STRS) or "v"
        tm.add_variable(name, i); self._rec("add_variable", i, name)

    def op_add_unit(self):
        rng = self.rng
        um = self.scn.unit_manager
        size = self.scn.map_manager.map_size
        p = rng.randint(0, 8)
        kw = dict(player=p, unit_const=rng.choice([4, 83, 109, 70, 1, 0]), x=f32(rng.uniform(0, size)), y=f32(rng.uniform(0, size)),
                  z=f32(rng.choice([0.0, 1.0])), rotation=f32(rng.choice([0.0, 1.5, 3.0])), animation_frame=rng.randint(0, 10), status=rng.choice([0, 2]))
        um.add_unit(**kw); self._rec("add_unit", kw)

    def op_remove_unit(self):
        um = self.scn.unit_manager
        allu = [u for l in um.units for u in l]
        if not allu:
            return
        u = self.rng.choice(allu)
        um.remove_unit(unit=u); self._rec("remove_unit", u.reference_id)

    def op_set_unit(self):
        um = self.scn.unit_manager
        allu = [u for l in um.units for u in l]
        if not allu:
            return
        u = self.rng.choice(allu)
        a = self.rng.choice(UNIT_ATTRS + ["player"])
        if a == "player":
            v = self.rng.randint(0, 8)
        elif a in ("x", "y", "z", "rotation"):
            v = f32(self.rng.uniform(0, 10))
        elif a == "garrisoned_in_id":
            v = self.rng.randint(-1, 100)
        elif a == "status":
            v = self.rng.randint(0, 5)
        else:
            v = self.rng.randint(0, 2000)
        setattr(u, a, v); self._rec("set_unit", u.reference_id, a, v)

    def op_map(self):
        mm = self.scn.map_manager
        r = self.rng.random()
        if r < 0.3:
            s = self.rng.randint(2, 7)
            mm.map_size = s; self._rec("map_size", s)
        else:
            t = self.rng.choice(mm.terrain)
            a = self.rng.choice(["terrain_id", "elevation", "layer"])
            v = self.rng.randint(0, 100) if a != "elevation" else self.rng.randint(0, 7)
            if a == "layer":
                v = self.rng.choice([-1, 0, 5, 40])
            setattr(t, a, v); self._rec("set_tile", t.i, a, v)

    def op_player(self):
        rng = self.rng
        pm = self.scn.player_manager
        p = rng.randint(0, 8)
        pl = pm.players[p]
        choices = list(PLAYER_ATTRS_ALL) + (PLAYER_ATTRS_NON_GAIA + PLAYER_ATTRS_DEPRECATED + ["disabled_techs", "disabled_buildings", "disabled_units", "diplomacy"] if p > 0 else [])
        if self.vt >= (1, 40):
            choices += ["architecture_set"] + (["initial_player_view_x", "initial_player_view_y"] if True else [])
        if self.vt >= (1, 53):
            choices.append("lock_personality")
        a = rng.choice(choices)
        if a in ("food", "wood", "gold", "stone"):
            v = rng.choice([0, 1, 200, rng.randint(0, 50000)])
        elif a == "color":
            v = rng.randint(0, 7)
        elif a in ("lock_civ", "lock_personality", "human", "allied_victory"):
            v = bool(rng.randint(0, 1))
        elif a in ("civilization", "architecture_set"):
            v = rng.randint(1, 40)
        elif a == "starting_age":
            v = rng.choice([0, 2, rng.randint(0, 6)])
        elif a == "population_cap":
            v = rng.choice([0, 25, 75, 200, 500])
        elif a in PLAYER_ATTRS_DEPRECATED:
            v = rng.choice([0, 72, rng.randint(0, 200)])
        elif a == "base_priority":
            v = rng.choice([0, 1, rng.randint(0, 100)])
        elif a == "tribe_name":
            v = rng.choice(STRS)[:20]
        elif a == "string_table_name_id":
            v = rng.choice([0, -1, -2, rng.randint(-2, 100000)])
        elif a.startswith("initial_player_view"):
            v = rng.choice([0, -1, rng.randint(-1, 100)])
        elif a.startswith("disabled_"):
            v = sorted(rng.sample(range(1, 900), rng.randint(0, 5)))
        elif a == "diplomacy":
            v = list(pl.diplomacy)
            q = rng.randrange(8)
            if q != p - 1:
                v[q] = rng.choice([0, 1, 3])
        import warnings
        with warnings.catch_warnings():
            warnings.simplefilter("ignore")
            setattr(pl, a, v)
        self._rec("set_player", p, a, v)

    def op_inplace_list(self):
        """edit a plain list the scenario already holds IN PLACE (append / pop / item assignment on the very list object):
        the managers hand out their lists, so this is an ordinary way to change them"""
        rng = self.rng
        r = rng.random()
        if r < 0.5:
            p = rng.randint(1, 8)
            a = rng.choice(["disabled_techs", "disabled_buildings", "disabled_units"])
            l = getattr(self.scn.player_manager.players[p], a)
            what = ("player", p, a)
        else:
            effs = [(ti, ei, e) for ti, t in enumerate(self.scn.trigger_manager.triggers) for ei, e in enumerate(t.effects)
                    if isinstance(getattr(e, "selected_object_ids", None), list)]
            if not effs:
                return
            ti, ei, e = rng.choice(effs)
            l = e.selected_object_ids
            what = ("effect", ti, ei, "selected_object_ids")
        k = rng.random()
        if k < 0.6 or not l:
            v = rng.randint(1, 900); l.append(v); self._rec("list_append", *what, v)
        elif k < 0.8:
            l.pop(); self._rec("list_pop", *what)
        else:
            i = rng.randrange(len(l)); v = rng.randint(1, 900); l[i] = v; self._rec("list_setitem", *what, i, v)

    def op_active_players(self):
        n = self.rng.randint(1, 8)
        self.scn.player_manager.active_players = n; self._rec("active_players", n)

    def op_message(self):
        mm = self.scn.message_manager
        a = self.rng.choice(MESSAGE_ATTRS)
        v = self.rng.randint(-1, 100000) if a.endswith("_id") else self.rng.choice(STRS)
        setattr(mm, a, v); self._rec("set_message", a, v)

    def op_option(self):
        om = self.scn.option_manager
        a = self.rng.choice(OPTION_ATTRS + ["victory_years", "secondary_game_modes", "villager_force_drop", "lock_coop_alliances"])
        if a in ("secondary_game_modes", "villager_force_drop", "lock_coop_alliances"):
            # attributes only some versions have: skipped where the version refuses them (C15's subject)
            v = self.rng.choice([0, 1, 5, 15, 17, 2 ** 31, 4294967295]) if a == "secondary_game_modes" else bool(self.rng.randint(0, 1))
            try:
                if getattr(om, a) is None:
                    return
                setattr(om, a, v)
            except Exception as e:
                if type(e).__name__ == "UnsupportedAttributeError":
                    return
                raise
            self._rec("set_option", a, v)
            return
        if a == "victory_condition":
            v = self.rng.choice([0, 1, 2, 3, 4, 6])
        elif a == "victory_score":
            v = self.rng.randint(0, 100000)
        elif a == "victory_years":
            v = self.rng.choice([10.0, 25.5, 150.0])
        else:
            v = bool(self.rng.randint(0, 1))
        setattr(om, a, v); self._rec("set_option", a, v)

    def op_xs(self):
        if self.vt < (1, 40):
            return
        v = self.rng.choice(["", "script", "my_script"])
        self.scn.xs_manager.script_name = v; self._rec("script_name", v)

    OPS = [("op_add_trigger", 8), ("op_add_effect", 5), ("op_add_condition", 3), ("op_remove_trigger", 4), ("op_remove_component", 3),
           ("op_set_trigger_attr", 4), ("op_reorder", 3), ("op_copy", 3), ("op_variant", 1), ("op_add_variable", 2), ("op_add_unit", 6), ("op_remove_unit", 3), ("op_set_unit", 4),
           ("op_map", 5), ("op_player", 8), ("op_active_players", 1), ("op_message", 3), ("op_option", 3), ("op_xs", 1), ("op_inplace_list", 5), ("op_component_order", 3), ("op_write_hook", 1)]

    def step(self):
        ops = [o for o, w in self.OPS for _ in range(w) if self.allow_components or o not in ("op_add_effect", "op_add_condition", "op_remove_component")]
        getattr(self, self.rng.choice(ops))()


def small_bases(version, base, tmp, quiet):
    """the small (4x4 map) start files of the histories: the version's base file and, where the structure has blocks gated by
    the trigger version (v1.54: `redacted` exists from 4.0 on, the shipped default is 3.9), the same file at trigger version 4.0"""
    import os
    from AoE2ScenarioParser.scenarios.aoe2_de_scenario import AoE2DEScenario
    out = []
    with quiet():
        s0 = AoE2DEScenario.from_file(base)
        s0.map_manager.map_size = 4
        fn = os.path.join(tmp, "small.aoe2scenario")
        s0.write_to_file(fn)
        out.append(fn)
        t = s0.sections["Triggers"]
        if "redacted" in t.retriever_map and float(t.trigger_version) <= 3.9:
            t.trigger_version = 4.0
            t.redacted = bytes(16)
            fn2 = os.path.join(tmp, "small_tv40.aoe2scenario")
            s0.write_to_file(fn2)
            AoE2DEScenario.from_file(fn2)          # must be loadable, else it is no start file
            out.append(fn2)
    return out


# ---- observable manager state ----------------------------------------------------------------------
def _norm(v):
    from enum import Enum
    if isinstance(v, Enum):
        v = v.value
    if isinstance(v, bool):
        return int(v)
    if isinstance(v, float):
        try:
            return "f32:" + struct.pack("<f", v).hex()
        except OverflowError:
            return "f32:overflow"
    if isinstance(v, (list, tuple)):
        return [_norm(x) for x in v]
    if isinstance(v, bytes):
        return "b:" + v.hex()
    return v


def _get(o, a):
    from AoE2ScenarioParser.exceptions.asp_exceptions import UnsupportedAttributeError
    import warnings
    try:
        with warnings.catch_warnings():
            warnings.simplefilter("ignore")
            return _norm(getattr(o, a))
    except UnsupportedAttributeError:
        return None          # "unavailable" and "reads as None" are the two admissible faces of a version-gated attribute (C15)


def unset_aa_effects(scn):
    """effects of the armour/attack family whose class/amount pair was never supplied (the `[]` sentinel of the defaults):
    the library then writes NO quantity field for them (known finding F15)"""
    out = []
    for t in scn.trigger_manager.triggers:
        for i, e in enumerate(t.effects):
            if getattr(e, "_armour_attack_source", None) == "quantity":
                c, q = e.armour_attack_class, e.armour_attack_quantity
                if isinstance(c, list) or isinstance(q, list) or c is None or q is None:
                    out.append((t.trigger_id, i, e.effect_type))
    return out


def dump_managers(scn):
    """canonical, JSON-able dump of everything the property calls observable manager state"""
    from AoE2ScenarioParser.objects.data_objects.effect import Effect
    from AoE2ScenarioParser.objects.data_objects.condition import Condition
    eff_attrs = [n for l in Effect._link_list for n in l.get_names() if n not in ("_variable_ref",)] + ["variable", "armour_attack_quantity", "armour_attack_class"]
    cond_attrs = [n for l in Condition._link_list for n in l.get_names()]
    tm = scn.trigger_manager
    d = {}
    d["triggers"] = [{
        **{a: _get(t, a) for a in TRIGGER_ATTRS + ["trigger_id"]},
        "effect_order": _norm(t.effect_order), "condition_order": _norm(t.condition_order),
        "effects": [{a: _get(e, a) for a in eff_attrs if a != "legacy_location_object_reference"} for e in t.effects],
        "conditions": [{a: _get(c, a) for a in cond_attrs} for c in t.conditions],
    } for t in tm.triggers]
    d["trigger_display_order"] = _norm(tm.trigger_display_order)
    d["variables"] = sorted([[v.variable_id, v.name] for v in tm.variables])
    um = scn.unit_manager
    d["units"] = [[{a: _get(u, a) for a in UNIT_ATTRS + ["reference_id", "player", "caption_string_id"]} for u in lst] for lst in um.units]
    mm = scn.map_manager
    # (MapManagerDE.collide_and_correct / villager_force_drop are deprecated aliases "moved to the OptionManager": not dumped)
    d["map"] = {"map_size": mm.map_size, "terrain": [[_norm(t.terrain_id), _norm(t.elevation), _norm(t.layer)] for t in mm.terrain],
                "map_color_mood": _get(mm, "_map_color_mood")}
    pm = scn.player_manager
    d["players"] = [{a: _get(p, a) for a in PLAYER_ATTRS_ALL + ["active", "lock_personality", "architecture_set"] +
                     (PLAYER_ATTRS_NON_GAIA + PLAYER_ATTRS_DEPRECATED + ["disabled_techs", "disabled_buildings", "disabled_units", "diplomacy",
                                               "initial_player_view_x", "initial_player_view_y"] if i > 0 else ["initial_player_view_x", "initial_player_view_y"])}
                    for i, p in enumerate(pm.players)]
    d["active_players"] = pm.active_players
    d["messages"] = {a: _get(scn.message_manager, a) for a in MESSAGE_ATTRS}
    om = scn.option_manager
    d["options"] = {a: _get(om, a) for a in OPTION_ATTRS + ["_victory_years_10ths", "secondary_game_modes", "villager_force_drop", "lock_coop_alliances"]}
    d["script_name"] = _get(scn.xs_manager, "script_name")
    return d


def diff_dumps(a, b, path=""):
    """first difference between two dumps as (path, a, b) or None"""
    if type(a) != type(b):
        return (path, a, b)
    if isinstance(a, dict):
        for k in a:
            if k not in b:
                return (path + "." + str(k), a[k], "<missing>")
            r = diff_dumps(a[k], b[k], path + "." + str(k))
            if r:
                return r
        for k in b:
            if k not in a:
                return (path + "." + str(k), "<missing>", b[k])
        return None
    if isinstance(a, list):
        if len(a) != len(b):
            return (path + ".len", len(a), len(b))
        for i, (x, y) in enumerate(zip(a, b)):
            r = diff_dumps(x, y, f"{path}[{i}]")
            if r:
                return r
        return None
    return None if a == b else (path, a, b)
