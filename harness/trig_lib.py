"""Shared by h_c06 / h_c07: run the trigger-manager command language of lean/Driver/TrigCommon.lean on the REAL
library objects and render the same canonical observation line; evaluate the property oracles by object identity.

Only API-level things are read: `tm.triggers` (objects, in list order), `trigger.trigger_id`, `tm.trigger_display_order`,
`effect.effect_type` / `effect.trigger_id`, returned objects (by identity), ok/error.
"""
import contextlib, io, re

from harness import common


class Lib:
    """Imports of the library under test (done once per process)."""
    _inst = None

    def __init__(self):
        common.lib_setup()
        from AoE2ScenarioParser.objects.managers.de.trigger_manager_de import TriggerManagerDE
        from AoE2ScenarioParser.scenarios.aoe2_scenario import _initialise_version_dependencies
        from AoE2ScenarioParser.objects.support.trigger_select import TS
        from AoE2ScenarioParser.objects.support.enums.group_by import GroupBy
        from AoE2ScenarioParser.datasets.players import PlayerId
        from AoE2ScenarioParser.datasets.effects import EffectId
        self.TriggerManagerDE, self.TS, self.GroupBy, self.PlayerId, self.EffectId = TriggerManagerDE, TS, GroupBy, PlayerId, EffectId
        self._init_deps = _initialise_version_dependencies
        self._deps = False
        self.ACT = int(EffectId.ACTIVATE_TRIGGER)
        self.DEACT = int(EffectId.DEACTIVATE_TRIGGER)

    @classmethod
    def get(cls):
        if cls._inst is None:
            cls._inst = Lib()
        return cls._inst

    def detached(self):
        """a detached manager exactly like the repository's test-suite builds it"""
        if not self._deps:
            with contextlib.redirect_stdout(io.StringIO()):
                self._init_deps("DE", 1.47)
            self._deps = True
        return self.TriggerManagerDE([], [], [])

    def live(self):
        from AoE2ScenarioParser.scenarios.aoe2_de_scenario import AoE2DEScenario
        with contextlib.redirect_stdout(io.StringIO()):
            scn = AoE2DEScenario.from_default()
        self._deps = True
        return scn


def drv_line(cmd):
    """the line for the Lean driver: `I<k>` (TS.index(k)) and `i<k>` (plain int) are the same selector in the model"""
    return re.sub(r"(?<![A-Za-z])I(-?\d)", r"i\1", cmd)


def parse_effs(w):
    if w in ("-", ""):
        return []
    out = []
    for e in w.split("."):
        out.append((e[0], int(e[1:])))
    return out


def show_list(l):
    return ",".join(str(x) for x in l) if l else "-"


class Snapshot:
    """pre-state of one operation, by object identity"""
    def __init__(self, real, with_order=True):
        tm = real.tm
        self.trigs = list(tm.triggers)
        self.n = len(self.trigs)
        self.pos = {}
        for i, t in enumerate(self.trigs):
            self.pos.setdefault(id(t), i)
        self.order = list(tm.trigger_display_order) if with_order else None
        # per trigger: [(effect object, kind, raw target, target object or None)]
        self.effs = []
        for t in self.trigs:
            row = []
            for e in t.effects:
                k = real.kind(e)
                tgt = e.trigger_id
                tobj = self.trigs[tgt] if (k != "o" and isinstance(tgt, int) and 0 <= tgt < self.n) else None
                row.append((e, k, tgt, tobj))
            self.effs.append(row)


class Real:
    """One real trigger manager driven by the command language; renders the driver's observation format."""

    def __init__(self, lib, tm):
        self.lib, self.tm = lib, tm
        self.reset()

    # ------------------------------------------------------------------ state
    def reset(self):
        self.tm.triggers = []
        self.ren = {}
        self.keep = []            # keeps every object alive so that id() stays unique
        self.dead = {}            # id(effect) -> (effect, op that removed its target): links whose target was removed
        self.names = 0

    def kind(self, e):
        et = e.effect_type
        return "a" if et == self.lib.ACT else "d" if et == self.lib.DEACT else "o"

    def add_effect(self, t, k, target):
        if k == "a":
            t.new_effect.activate_trigger(trigger_id=target)
        elif k == "d":
            t.new_effect.deactivate_trigger(trigger_id=target)
        else:
            e = t.new_effect.research_technology(technology=1)
            e.trigger_id = target

    def sel(self, w):
        TS = self.lib.TS
        k, v = w[0], int(w[1:])
        if k == "i":
            return v
        if k == "I":
            return TS.index(v)
        if k == "d":
            return TS.display(v)
        if k == "o":
            return TS.trigger(self.tm.triggers[v])
        raise ValueError(w)

    def new_name(self):
        self.names += 1
        return f"t{self.names}"

    # ------------------------------------------------------------------ observation
    def observe(self, ret, with_order=True):
        tm = self.tm
        trigs = list(tm.triggers)
        for t in trigs:
            if id(t) not in self.ren:
                self.ren[id(t)] = len(self.ren)
                self.keep.append(t)
        pos = {}
        for i, t in enumerate(trigs):
            pos.setdefault(id(t), i)
        ids = show_list([t.trigger_id for t in trigs])
        uids = ",".join(str(self.ren[id(t)]) for t in trigs)
        effs = "|".join((".".join(f"{self.kind(e)}{e.trigger_id}" for e in t.effects) or "-") for t in trigs)
        if ret is None:
            rs = "-"
        else:
            rs = ";".join(f"{int(k)}:" + (",".join(str(pos.get(id(o), "x")) for o in objs) or "-") for k, objs in ret) or "-"
        if with_order:
            st, o = common.outcome(lambda: list(tm.trigger_display_order))
            os_ = show_list(o) if st == "ok" else "error"
            return f"ok ids={ids} uids={uids} order={os_} eff={effs} ret={rs}"
        return f"ok ids={ids} uids={uids} eff={effs} ret={rs}"

    # ------------------------------------------------------------------ commands
    def execute(self, cmd):
        """run one command on the real manager. Returns (status, ret) with ret = [(key, [objects])] or None;
        raises nothing."""
        ws = cmd.split()
        tm, lib = self.tm, self.lib
        op = ws[0]

        def run():
            if op == "init":
                n, effs, order = int(ws[1]), ws[2], ws[3]
                for _ in range(n):
                    tm.add_trigger(self.new_name())
                if effs != "-":
                    for i, row in enumerate(effs.split("|")):
                        for k, t in parse_effs(row):
                            self.add_effect(tm.triggers[i], k, t)
                if order != "-":
                    tm.trigger_display_order = [int(x) for x in order.split(",")]
                return None
            if op == "add":
                return [(0, [tm.add_trigger(self.new_name())])]
            if op == "eff":
                self.add_effect(tm.triggers[int(ws[1])], ws[2][0], int(ws[2][1:]))
                return None
            if op == "setorder":
                tm.trigger_display_order = [] if ws[1] == "-" else [int(x) for x in ws[1].split(",")]
                return None
            if op == "copy":
                return [(0, [tm.copy_trigger(self.sel(ws[1]), append_after_source=ws[2] != "0")])]
            if op == "tree":
                return [(0, list(tm.copy_trigger_tree(self.sel(ws[1]))))]
            if op in ("pp", "treepp"):
                frm = lib.PlayerId(int(ws[2]))
                players = None if ws[3] == "None" else ([] if ws[3] == "-" else [lib.PlayerId(int(x)) for x in ws[3].split(",")])
                gaia = ws[4] != "0"
                if op == "pp":
                    d = tm.copy_trigger_per_player(frm, self.sel(ws[1]), include_gaia=gaia, create_copy_for_players=players)
                    return [(int(p), [t]) for p, t in d.items()]
                g = {"none": lib.GroupBy.NONE, "trigger": lib.GroupBy.TRIGGER, "player": lib.GroupBy.PLAYER}[ws[5]]
                d = tm.copy_trigger_tree_per_player(frm, self.sel(ws[1]), include_gaia=gaia, create_copy_for_players=players,
                                                    group_triggers_by=g)
                return [(int(p), list(l)) for p, l in d.items()]
            if op == "import":
                index = int(ws[1])
                spec = [] if ws[2] == "-" else [(int(s.split(":")[0]), parse_effs(s.split(":")[1])) for s in ws[2].split("|")]
                src = lib.TriggerManagerDE([], [], [])
                for i in range(max([t for t, _ in spec], default=-1) + 1):
                    src.add_trigger(f"s{i}")
                done = set()
                for t, effs in spec:
                    if t not in done:
                        for k, tg in effs:
                            self.add_effect(src.triggers[t], k, tg)
                        done.add(t)
                self.keep.append(src)
                return [(0, list(tm.import_triggers([src.triggers[t] for t, _ in spec], index)))]
            if op == "move":
                tm.move_triggers([] if ws[1] == "-" else [int(x) for x in ws[1].split(",")], int(ws[2]))
                return None
            if op == "reorder":
                if ws[1] == "None":
                    tm.reorder_triggers()
                else:
                    tm.reorder_triggers([] if ws[1] == "-" else [int(x) for x in ws[1].split(",")])
                return None
            if op == "remove":
                sels = [] if ws[1] == "-" else [self.sel(w) for w in ws[1].split(",")]
                if len(sels) == 1 and ws[1][0] in "iId" and self.one_remove:
                    tm.remove_trigger(sels[0])
                else:
                    tm.remove_triggers(sels)
                return None
            if op == "get":
                t = tm.get_trigger(self.sel(ws[1]))
                return [] if t is None else [(0, [t])]
            raise RuntimeError("unknown command " + cmd)

        with contextlib.redirect_stdout(io.StringIO()):
            st, r = common.outcome(run)
        if st == "error" and r == "RuntimeError":
            raise RuntimeError("harness: unknown command " + cmd)
        return st, r

    one_remove = True

    # ------------------------------------------------------------------ oracle of C06
    def c06_oracle(self, cmd, pre, ret, with_order=True):
        """the five clauses of C06 on the real objects after `cmd` (pre = Snapshot before). Yields (clause, text)."""
        tm = self.tm
        op = cmd.split()[0]
        trigs = list(tm.triggers)
        n = len(trigs)
        out = []
        # 1. id = position
        bad = [(i, t.trigger_id) for i, t in enumerate(trigs) if t.trigger_id != i]
        if bad:
            out.append(("id-position", f"trigger at list position {bad[0][0]} has trigger_id {bad[0][1]}"))
        if len({id(t) for t in trigs}) != n:
            out.append(("id-position", "the same trigger object occurs twice in the trigger list"))
        # 2. display order is a permutation of all ids
        if with_order:
            st, o = common.outcome(lambda: list(tm.trigger_display_order))
            if st != "ok" or sorted(o) != list(range(n)):
                out.append(("display-perm", f"display order {o} is not a permutation of range({n})"))
        post_pos = {}
        for i, t in enumerate(trigs):
            post_pos.setdefault(id(t), i)

        def points_at(tgt):
            return trigs[tgt] if isinstance(tgt, int) and 0 <= tgt < n else None

        # 3./5. links of effects that existed before
        for i, t in enumerate(pre.trigs):
            if id(t) not in post_pos:
                continue
            now = list(t.effects)
            for j, (e, k, tgt, tobj) in enumerate(pre.effs[i]):
                if j >= len(now) or now[j] is not e:
                    out.append(("effects-kept", f"effect list of a surviving trigger changed")); break
                if k == "o":
                    if e.trigger_id != tgt:
                        out.append(("frame", f"trigger_id of a non-activation effect changed {tgt} -> {e.trigger_id}"))
                    continue
                if tobj is not None:
                    if id(tobj) in post_pos:
                        if points_at(e.trigger_id) is not tobj:
                            out.append(("link-preserved", f"effect {j} of trigger '{t.name}' pointed at '{tobj.name}', now trigger_id={e.trigger_id}"))
                    else:
                        self.dead[id(e)] = (e, op, tobj)
        # 5. an effect whose target was removed must never designate a trigger
        for key in list(self.dead):
            e, killer, tobj = self.dead[key]
            p = points_at(e.trigger_id)
            if p is not None:
                out.append(("removed-target", f"an effect whose target '{tobj.name}' was removed by {killer} now points at '{p.name}' (trigger_id={e.trigger_id})", killer))
                del self.dead[key]
        # 4. tree copies refer to copies
        if op in ("tree", "treepp") and ret:
            ws = cmd.split()
            for key, group in ret:
                if op == "treepp" and key == int(ws[2]):
                    continue            # the source player's own triggers (covered by clause 3)
                members = {id(t) for t in group}
                for t in group:
                    for j, e in enumerate(t.effects):
                        if self.kind(e) == "o":
                            continue
                        p = points_at(e.trigger_id)
                        if p is None or id(p) not in members:
                            out.append(("tree-closed", f"copy '{t.name}' effect {j} (trigger_id={e.trigger_id}) does not point at a copy of the same tree"))
                # correspondence copy <-> source along the effects, from the root
                root_src = self._sel_obj(pre, ws[1])
                if root_src is not None and group:
                    src_of = {id(group[0]): root_src}
                    todo = [group[0]]
                    while todo:
                        c = todo.pop()
                        s = src_of[id(c)]
                        si = pre.pos.get(id(s))
                        if si is None:
                            break
                        srow = pre.effs[si]
                        ceffs = list(c.effects)
                        if len(ceffs) != len(srow):
                            out.append(("tree-closed", "copy has a different number of effects")); break
                        for (se, k, tgt, tobj), ce in zip(srow, ceffs):
                            if k == "o" or tobj is None:
                                continue
                            p = points_at(ce.trigger_id)
                            if p is None or id(p) in pre.pos:
                                out.append(("tree-closed", f"copy '{c.name}' points at an original (trigger_id={ce.trigger_id})")); continue
                            if id(p) in src_of:
                                if src_of[id(p)] is not tobj:
                                    out.append(("tree-closed", f"copy '{c.name}' points at the copy of another trigger"))
                            else:
                                src_of[id(p)] = tobj
                                todo.append(p)
        # import: internal links -> imported copies, external -> no trigger
        if op == "import" and ret:
            ws = cmd.split()
            spec = [] if ws[2] == "-" else [(int(s.split(":")[0]), parse_effs(s.split(":")[1])) for s in ws[2].split("|")]
            copies = ret[0][1]
            last = {}
            first_effs = {}
            for (t, effs), c in zip(spec, copies):
                last[t] = c
                first_effs.setdefault(t, effs)
            for (t, _), c in zip(spec, copies):
                effs = first_effs[t]
                ce = list(c.effects)
                if len(ce) != len(effs):
                    continue        # the same source trigger listed twice: its copies share the spec of the first
                for (k, tg), e in zip(effs, ce):
                    if k == "o":
                        continue
                    p = points_at(e.trigger_id)
                    if tg in last:
                        if p is not last[tg]:
                            out.append(("import-internal", f"imported link to source trigger {tg} now trigger_id={e.trigger_id}"))
                    elif p is not None:
                        out.append(("import-external", f"imported link to a trigger that was not imported points at '{p.name}'"))
        return out

    def _sel_obj(self, pre, w):
        k, v = w[0], int(w[1:])
        try:
            if k in "iI":
                return pre.trigs[v] if 0 <= v < pre.n else None
            if k == "d":
                return pre.trigs[pre.order[v]]
            if k == "o":
                return pre.trigs[v]
        except Exception:
            return None
        return None


def has_dup_target(pre, root):
    """does the activation tree under `root` (pre-state) contain a trigger with two activation effects to the same target"""
    if root is None:
        return False
    seen, todo = set(), [root]
    while todo:
        t = todo.pop()
        if id(t) in seen:
            continue
        seen.add(id(t))
        i = pre.pos.get(id(t))
        if i is None:
            continue
        tg = [tobj for (_, k, _, tobj) in pre.effs[i] if k != "o" and tobj is not None]
        if len({id(x) for x in tg}) != len(tg):
            return True
        todo.extend(tg)
    return False
