"""Shared by h_c06 / h_c07: run the trigger-manager command language of lean/Driver/TrigCommon.lean on the REAL
library objects and render the same canonical observation line; evaluate the property oracles by object identity.

Only API-level things are read: `tm.triggers` (objects, in list order), `trigger.trigger_id`, `tm.trigger_display_order`,
`effect.effect_type` / `effect.trigger_id`, returned objects (by identity), ok/error.
"""
import contextlib, io, os, re

from harness import common


class Lib:
    """Imports of the library under test (done once per process)."""
    _inst = None

    def __init__(self):
        common.lib_setup()
        from AoE2ScenarioParser.objects.managers.de.trigger_manager_de import TriggerManagerDE
        from AoE2ScenarioParser.scenarios.aoe2_scenario import _initialise_version_dependencies
        from AoE2ScenarioParser.objects.support.trigger_select import TS
        from AoE2ScenarioParser.objects.support.enums.group_by import GroupBy
        from AoE2ScenarioParser.datasets.players import PlayerId
        from AoE2ScenarioParser.datasets.effects import EffectId
        self.TriggerManagerDE, self.TS, self.GroupBy, self.PlayerId, self.EffectId = TriggerManagerDE, TS, GroupBy, PlayerId, EffectId
        self._init_deps = _initialise_version_dependencies
        self._deps = False
        self.ACT = int(EffectId.ACTIVATE_TRIGGER)
        self.DEACT = int(EffectId.DEACTIVATE_TRIGGER)
        # which effect types ARE the (de)activation effects is a fact of the file format: taken from the names in the newest
        # version's effects.json (an independent copy of that fact) when it can be read; the enum is only the fallback
        try:
            import glob, json
            vdir = os.path.join(common.REPO, "AoE2ScenarioParser", "versions", "DE")
            newest = sorted(glob.glob(os.path.join(vdir, "v*")), key=lambda d: [int(x) for x in os.path.basename(d)[1:].split(".")])[-1]
            names = {v.get("name"): int(k) for k, v in json.load(open(os.path.join(newest, "effects.json"))).items()}
            if "activate_trigger" in names and "deactivate_trigger" in names:
                self.ACT, self.DEACT = names["activate_trigger"], names["deactivate_trigger"]
        except Exception:
            pass

    @classmethod
    def get(cls):
        if cls._inst is None:
            cls._inst = Lib()
        return cls._inst

    def detached(self):
        """a detached manager exactly like the repository's test-suite builds it"""
        if not self._deps:
            with contextlib.redirect_stdout(io.StringIO()):
                self._init_deps("DE", 1.47)
            self._deps = True
        return self.TriggerManagerDE([], [], [])

    def live(self):
        from AoE2ScenarioParser.scenarios.aoe2_de_scenario import AoE2DEScenario
        with contextlib.redirect_stdout(io.StringIO()):
            scn = AoE2DEScenario.from_default()
        self._deps = True
        return scn


def drv_line(cmd):
    """the line for the Lean driver: `I<k>` (TS.index(k)) and `i<k>` (plain int) are the same selector in the model"""
    return re.sub(r"(?<![A-Za-z])I(-?\d)", r"i\1", cmd)


def parse_effs(w):
    if w in ("-", ""):
        return []
    out = []
    for e in w.split("."):
        out.append((e[0], int(e[1:])))
    return out


def show_list(l):
    return ",".join(str(x) for x in l) if l else "-"


class Snapshot:
    """pre-state of one operation, by object identity"""
    def __init__(self, real, with_order=True):
        tm = real.tm
        self.trigs = list(tm.triggers)
        self.n = len(self.trigs)
        self.pos = {}
        for i, t in enumerate(self.trigs):
            self.pos.setdefault(id(t), i)
        self.order = list(tm.trigger_display_order) if with_order else None
        # per trigger: [(effect object, kind, raw target, target object or None)]
        self.effs = []
        for t in self.trigs:
            row = []
            for e in t.effects:
                k = real.kind(e)
                tgt = e.trigger_id
                tobj = self.trigs[tgt] if (k != "o" and isinstance(tgt, int) and 0 <= tgt < self.n) else None
                row.append((e, k, tgt, tobj))
            self.effs.append(row)


class Real:
    """One real trigger manager driven by the command language; renders the driver's observation format."""

    def __init__(self, lib, tm):
        self.lib, self.tm = lib, tm
        self.reset()

    # ------------------------------------------------------------------ state
    def reset(self):
        self.tm.triggers = []
        self.ren = {}
        self.keep = []            # keeps every object alive so that id() stays unique
        self.dead = {}            # id(effect) -> (effect, op that removed its target): links whose target was removed
        self.names = 0

    def kind(self, e):
        et = e.effect_type
        return "a" if et == self.lib.ACT else "d" if et == self.lib.DEACT else "o"

    def add_effect(self, t, k, target):
        if k == "a":
            t.new_effect.activate_trigger(trigger_id=target)
        elif k == "d":
            t.new_effect.deactivate_trigger(trigger_id=target)
        else:
            e = t.new_effect.research_technology(technology=1)
            e.trigger_id = target

    def sel(self, w):
        TS = self.lib.TS
        k, v = w[0], int(w[1:])
        if k == "i":
            return v
        if k == "I":
            return TS.index(v)
        if k == "d":
            return TS.display(v)
        if k == "o":
            return TS.trigger(self.tm.triggers[v])
        raise ValueError(w)

    def new_name(self):
        self.names += 1
        return f"t{self.names}"

    # ------------------------------------------------------------------ observation
    def observe(self, ret, with_order=True):
        tm = self.tm
        trigs = list(tm.triggers)
        for t in trigs:
            if id(t) not in self.ren:
                self.ren[id(t)] = len(self.ren)
                self.keep.append(t)
        pos = {}
        for i, t in enumerate(trigs):
            pos.setdefault(id(t), i)
        ids = show_list([t.trigger_id for t in trigs])
        uids = ",".join(str(self.ren[id(t)]) for t in trigs)
        effs = "|".join((".".join(f"{self.kind(e)}{e.trigger_id}" for e in t.effects) or "-") for t in trigs)
        if ret is None:
            rs = "-"
        else:
            rs = ";".join(f"{int(k)}:" + (",".join(str(pos.get(id(o), "x")) for o in objs) or "-") for k, objs in ret) or "-"
        if with_order:
            st, o = common.outcome(lambda: list(tm.trigger_display_order))
            os_ = show_list(o) if st == "ok" else "error"
            return f"ok ids={ids} uids={uids} order={os_} eff={effs} ret={rs}"
        return f"ok ids={ids} uids={uids} eff={effs} ret={rs}"

    # ------------------------------------------------------------------ commands
    def execute(self, cmd):
        """run one command on the real manager. Returns (status, ret) with ret = [(key, [objects])] or None;
        raises nothing."""
        ws = cmd.split()
        tm, lib = self.tm, self.lib
        op = ws[0]

        def run():
            if op == "init":
                n, effs, order = int(ws[1]), ws[2], ws[3]
                for _ in range(n):
                    tm.add_trigger(self.new_name())
                if effs != "-":
                    for i, row in enumerate(effs.split("|")):
                        for k, t in parse_effs(row):
                            self.add_effect(tm.triggers[i], k, t)
                if order != "-":
                    tm.trigger_display_order = [int(x) for x in order.split(",")]
                return None
            if op == "add":
                return [(0, [tm.add_trigger(self.new_name())])]
            if op == "eff":
                self.add_effect(tm.triggers[int(ws[1])], ws[2][0], int(ws[2][1:]))
                return None
            if op == "setorder":
                tm.trigger_display_order = [] if ws[1] == "-" else [int(x) for x in ws[1].split(",")]
                return None
            if op == "copy":
                return [(0, [tm.copy_trigger(self.sel(ws[1]), append_after_source=ws[2] != "0")])]
            if op == "tree":
                return [(0, list(tm.copy_trigger_tree(self.sel(ws[1]))))]
            if op in ("pp", "treepp"):
                frm = lib.PlayerId(int(ws[2]))
                players = None if ws[3] == "None" else ([] if ws[3] == "-" else [lib.PlayerId(int(x)) for x in ws[3].split(",")])
                gaia = ws[4] != "0"
                if op == "pp":
                    d = tm.copy_trigger_per_player(frm, self.sel(ws[1]), include_gaia=gaia, create_copy_for_players=players)
                    return [(int(p), [t]) for p, t in d.items()]
                g = {"none": lib.GroupBy.NONE, "trigger": lib.GroupBy.TRIGGER, "player": lib.GroupBy.PLAYER}[ws[5]]
                d = tm.copy_trigger_tree_per_player(frm, self.sel(ws[1]), include_gaia=gaia, create_copy_for_players=players,
                                                    group_triggers_by=g)
                return [(int(p), list(l)) for p, l in d.items()]
            if op == "import":
                index = int(ws[1])
                spec = [] if ws[2] == "-" else [(int(s.split(":")[0]), parse_effs(s.split(":")[1])) for s in ws[2].split("|")]
                src = lib.TriggerManagerDE([], [], [])
                for i in range(max([t for t, _ in spec], default=-1) + 1):
                    src.add_trigger(f"s{i}")
                done = set()
                for t, effs in spec:
                    if t not in done:
                        for k, tg in effs:
                            self.add_effect(src.triggers[t], k, tg)
                        done.add(t)
                self.keep.append(src)
                return [(0, list(tm.import_triggers([src.triggers[t] for t, _ in spec], index)))]
            if op == "move":
                tm.move_triggers([] if ws[1] == "-" else [int(x) for x in ws[1].split(",")], int(ws[2]))
                return None
            if op == "reorder":
                if ws[1] == "None":
                    tm.reorder_triggers()
                else:
                    tm.reorder_triggers([] if ws[1] == "-" else [int(x) for x in ws[1].split(",")])
                return None
            if op == "remove":
                sels = [] if ws[1] == "-" else [self.sel(w) for w in ws[1].split(",")]
                if len(sels) == 1 and ws[1][0] in "iId" and self.one_remove:
                    tm.remove_trigger(sels[0])
                else:
                    tm.remove_triggers(sels)
                return None
            if op == "get":
                t = tm.get_trigger(self.sel(ws[1]))
                return [] if t is None else [(0, [t])]
            raise RuntimeError("unknown command " + cmd)

        with contextlib.redirect_stdout(io.StringIO()):
            st, r = common.outcome(run)
        if st == "error" and r == "RuntimeError":
            raise RuntimeError("harness: unknown command " + cmd)
        return st, r

    one_remove = True

    # ------------------------------------------------------------------ oracle of C06
    def c06_oracle(self, cmd, pre, ret, with_order=True):
        """the five clauses of C06 on the real objects after `cmd` (pre = Snapshot before). Yields (clause, text)."""
        tm = self.tm
        op = cmd.split()[0]
        trigs = list(tm.triggers)
        n = len(trigs)
        out = []
        # 1. id = position
        bad = [(i, t.trigger_id) for i, t in enumerate(trigs) if t.trigger_id != i]
        if bad:
            out.append(("id-position", f"trigger at list position {bad[0][0]} has trigger_id {bad[0][1]}"))
        if len({id(t) for t in trigs}) != n:
            out.append(("id-position", "the same trigger object occurs twice in the trigger list"))
        # 2. display order is a permutation of all ids
        if with_order:
            st, o = common.outcome(lambda: list(tm.trigger_display_order))
            if st != "ok" or sorted(o) != list(range(n)):
                out.append(("display-perm", f"display order {o} is not a permutation of range({n})"))
        post_pos = {}
        for i, t in enumerate(trigs):
            post_pos.setdefault(id(t), i)

        def points_at(tgt):
            return trigs[tgt] if isinstance(tgt, int) and 0 <= tgt < n else None

        # 3./5. links of effects that existed before
        for i, t in enumerate(pre.trigs):
            if id(t) not in post_pos:
                continue
            now = list(t.effects)
            for j, (e, k, tgt, tobj) in enumerate(pre.effs[i]):
                if j >= len(now) or now[j] is not e:
                    out.append(("effects-kept", f"effect list of a surviving trigger changed")); break
                if k == "o":
                    if e.trigger_id != tgt:
                        out.append(("frame", f"trigger_id of a non-activation effect changed {tgt} -> {e.trigger_id}"))
                    continue
                if tobj is not None:
                    if id(tobj) in post_pos:
                        if points_at(e.trigger_id) is not tobj:
                            out.append(("link-preserved", f"effect {j} of trigger '{t.name}' pointed at '{tobj.name}', now trigger_id={e.trigger_id}"))
                    else:
                        self.dead[id(e)] = (e, op, tobj)
        # 5. an effect whose target was removed must never designate a trigger
        for key in list(self.dead):
            e, killer, tobj = self.dead[key]
            p = points_at(e.trigger_id)
            if p is not None:
                out.append(("removed-target", f"an effect whose target '{tobj.name}' was removed by {killer} now points at '{p.name}' (trigger_id={e.trigger_id})", killer))
                del self.dead[key]
        # 4. tree copies refer to copies
        if op in ("tree", "treepp") and ret:
            ws = cmd.split()
            for key, group in ret:
                if op == "treepp" and key == int(ws[2]):
                    continue            # the source player's own triggers (covered by clause 3)
                members = {id(t) for t in group}
                for t in group:
                    for j, e in enumerate(t.effects):
                        if self.kind(e) == "o":
                            continue
                        p = points_at(e.trigger_id)
                        if p is None or id(p) not in members:
                            out.append(("tree-closed", f"copy '{t.name}' effect {j} (trigger_id={e.trigger_id}) does not point at a copy of the same tree"))
                # correspondence copy <-> source along the effects, from the root
                root_src = self._sel_obj(pre, ws[1])
                if root_src is not None and group:
                    src_of = {id(group[0]): root_src}
                    todo = [group[0]]
                    while todo:
                        c = todo.pop()
                        s = src_of[id(c)]
                        si = pre.pos.get(id(s))
                        if si is None:
                            break
                        srow = pre.effs[si]
                        ceffs = list(c.effects)
                        if len(ceffs) != len(srow):
                            out.append(("tree-closed", "copy has a different number of effects")); break
                        for (se, k, tgt, tobj), ce in zip(srow, ceffs):
                            if k == "o" or tobj is None:
                                continue
                            p = points_at(ce.trigger_id)
                            if p is None or id(p) in pre.pos:
                                out.append(("tree-closed", f"copy '{c.name}' points at an original (trigger_id={ce.trigger_id})")); continue
                            if id(p) in src_of:
                                if src_of[id(p)] is not tobj:
                                    out.append(("tree-closed", f"copy '{c.name}' points at the copy of another trigger"))
                            else:
                                src_of[id(p)] = tobj
                                todo.append(p)
        # import: internal links -> imported copies, external -> no trigger
        if op == "import" and ret:
            ws = cmd.split()
            spec = [] if ws[2] == "-" else [(int(s.split(":")[0]), parse_effs(s.split(":")[1])) for s in ws[2].split("|")]
            copies = ret[0][1]
            last = {}
            first_effs = {}
            for (t, effs), c in zip(spec, copies):
                last[t] = c
                first_effs.setdefault(t, effs)
            for (t, _), c in zip(spec, copies):
                effs = first_effs[t]
                ce = list(c.effects)
                if len(ce) != len(effs):
                    continue        # the same source trigger listed twice: its copies share the spec of the first
                for (k, tg), e in zip(effs, ce):
                    if k == "o":
                        continue
                    p = points_at(e.trigger_id)
                    if tg in last:
                        if p is not last[tg]:
                            out.append(("import-internal", f"imported link to source trigger {tg} now trigger_id={e.trigger_id}"))
                    elif p is not None:
                        out.append(("import-external", f"imported link to a trigger that was not imported points at '{p.name}'"))
        return out

    def _sel_obj(self, pre, w):
        k, v = w[0], int(w[1:])
        try:
            if k in "iI":
                return pre.trigs[v] if 0 <= v < pre.n else None
            if k == "d":
                return pre.trigs[pre.order[v]]
            if k == "o":
                return pre.trigs[v]
        except Exception:
            return None
        return None


def has_dup_target(pre, root):
    """does the activation tree under `root` (pre-state) contain a trigger with two activation effects to the same target"""
    if root is None:
        return False
    seen, todo = set(), [root]
    while todo:
        t = todo.pop()
        if id(t) in seen:
            continue
        seen.add(id(t))
        i = pre.pos.get(id(t))
        if i is None:
            continue
        tg = [tobj for (_, k, _, tobj) in pre.effs[i] if k != "o" and tobj is not None]
        if len({id(x) for x in tg}) != len(tg):
            return True
        todo.extend(tg)
    return False


def in_domain(cmd, pre):
    """arguments for which the documented behaviour is "succeeds" (valid, duplicate-free ids / selections): an
    exception on these is a violation of the property, not a rejected input"""
    ws = cmd.split()
    op, n = ws[0], pre.n

    def sel_ok(w):
        k, v = w[0], int(w[1:])
        return 0 <= v < n

    def sel_target(w):
        k, v = w[0], int(w[1:])
        if k == "d":
            return pre.order[v] if pre.order is not None and sorted(pre.order) == list(range(n)) else None
        return v
    try:
        if op == "add":
            return True
        if op == "move":
            if ws[1] == "-":
                return False
            ids = [int(x) for x in ws[1].split(",")]
            return len(set(ids)) == len(ids) and all(0 <= i < n for i in ids) and int(ws[2]) >= 0
        if op == "reorder":
            if ws[1] == "None":
                return True
            if ws[1] == "-":
                return False
            ids = [int(x) for x in ws[1].split(",")]
            return n > 0 and sorted(ids) == list(range(n))
        if op == "remove":
            if ws[1] == "-":
                return True
            sels = ws[1].split(",")
            if not all(sel_ok(w) for w in sels):
                return False
            tg = [sel_target(w) for w in sels]
            return None not in tg and len(set(tg)) == len(tg)
        if op in ("get", "copy", "pp"):
            if not sel_ok(ws[1]):
                return False
            return ws[1][0] != "d" or sel_target(ws[1]) is not None
        if op == "import":
            return ws[2] != "-" or int(ws[1]) == -1
    except Exception:
        return False
    return False


def changes_state(cmd):
    return cmd.split()[0] not in ("get", "init", "setorder", "eff")


# ----------------------------------------------------------------------------------------------- the case runner
class Runner:
    def __init__(self, ctx, R, lib, pid):
        self.ctx, self.R, self.lib, self.pid = ctx, R, lib, pid
        self.cmds, self.expect, self.meta = [], [], []
        self.viol = {}
        self.mode = self.probe()
        self.push(f"mode {self.mode[0]} {self.mode[1]} {self.mode[2]}", "ok", None)

    def push(self, cmd, obs, meta):
        self.cmds.append(drv_line(cmd)); self.expect.append(obs); self.meta.append(meta)

    def probe(self):
        """which variant of the two recorded defects does this tree implement (selects the model variant only; the
        oracles below do not depend on it)"""
        real = Real(self.lib, self.lib.detached())
        real.execute("init 3 a1|-|- -"); real.execute("remove i1")
        f4 = 1 if real.tm.triggers[0].effects[0].trigger_id == -1 else 0
        real.reset()
        real.execute("init 2 a1.d1|- -"); real.execute("tree i0")
        f15 = 1 if len(real.tm.triggers) == 4 else 0
        real.reset()
        real.execute("init 2 - 1,0"); real.execute("import -1 0:-")
        f5 = 0 if list(real.tm.trigger_display_order) == [0, 1, 2] else 1
        return f4, f15, f5

    def violation(self, sig, what, replay, size):
        key = tuple(sorted(sig.items()))
        if key not in self.viol or size < self.viol[key][0]:
            self.viol[key] = (size, sig, what, replay)

    def flush_violations(self):
        for _, (size, sig, what, replay) in sorted(self.viol.items(), key=lambda kv: kv[1][0]):
            self.R.violation(sig, what, replay)

    def case(self, real, env, base, ops, tags=(), oracle=None):
        """one history: `base` (an init command) followed by `ops` on a freshly reset manager"""
        R = self.R
        real.reset()
        self.push("reset", "ok", None)
        hist = []
        links = "a" in base.split()[2] or "d" in base.split()[2] if base.startswith("init") else True
        changed = False
        status = "ok"
        synced = True
        gen = ops if callable(ops) else None
        ops = [] if gen else list(ops)
        queue = [base] + ops
        qi = 0
        while True:
            if qi < len(queue):
                cmd = queue[qi]
            elif gen is not None:
                cmd = gen(len(real.tm.triggers), qi - 1)
                if cmd is None:
                    break
                ops.append(cmd)
            else:
                break
            qi += 1
            quiet = cmd.startswith("q ")
            body = cmd[2:] if quiet else cmd
            # a command whose first selector is a display index reads the display order before anything else, so
            # reading it here (for the oracle's pre-state) is not observable
            ws_ = body.split()
            first_d = len(ws_) > 1 and ws_[0] in ("copy", "tree", "pp", "treepp", "remove", "get") and ws_[1][:1] == "d"
            pre = Snapshot(real, with_order=synced or first_d)
            st, ret = real.execute(body)
            hist.append(cmd)
            replay = {"env": env, "base": base, "ops": hist[1:]}
            if st == "error":
                if in_domain(body, pre):
                    self.violation({"op": body.split()[0], "clause": "raised"}, f"{body} raised {ret} on in-domain arguments  [after {hist}]",
                                   replay, len(base) + sum(len(h) for h in hist))
                self.push(cmd, "error", replay)
                status = "error"
                break
            obs = real.observe(ret, with_order=not quiet)
            synced = not quiet
            bad = (oracle or self.c06)(real, body, pre, ret, not quiet)
            stop = False
            for item in bad:
                clause, text = item[0], item[1]
                opn = item[2] if len(item) > 2 else body.split()[0]
                sig = {"op": opn, "clause": clause}
                if body.split()[0] in ("tree", "treepp") and clause != "removed-target":
                    ws = body.split()
                    sig["dup_target"] = has_dup_target(pre, real._sel_obj(pre, ws[1]))
                    sig["grouped"] = body.split()[0] == "treepp" and ws[5] != "none"
                self.violation(sig, f"{text}  [after {hist}]", replay, len(base) + sum(len(h) for h in hist))
                if clause in ("id-position", "effects-kept", "display-perm"):
                    stop = True
            if stop:
                status = "violation"
                break                  # aliased list: the value model cannot follow, the history ends here
            self.push(cmd, obs, replay)
            if changes_state(body):
                changed = True
        opn = [c.split()[1] if c.startswith("q ") else c.split()[0] for c in ops]
        R.case(key=(env, base) + tuple(ops), nontrivial=bool(links and changed and status == "ok"),
               sample={"env": env, "base": base, "ops": list(ops), "last": self.expect[-1][:160]},
               tags=tuple("op:" + o for o in opn) + (f"n:{base.split()[1]}" if base.startswith("init") else "n:?", "st:" + status) + tuple(tags))

    @staticmethod
    def c06(real, cmd, pre, ret, with_order):
        return real.c06_oracle(cmd, pre, ret, with_order)

    def compare(self):
        drv = self.ctx.driver()
        R = self.R
        if drv is None:
            R.extra["driver"] = "unavailable (Lean build failed) - oracles only"
            return
        out = drv.batch(self.cmds)
        # a history is a run of lines between two `reset`s: report only its first disagreement
        skip = False
        for cmd, o, x, m in zip(self.cmds, out, self.expect, self.meta):
            if cmd == "reset":
                skip = False
            if skip:
                continue
            if o != x:
                R.mismatch(cmd, m, impl=x, model=o)
                skip = True
            else:
                R.traces += 1


# ----------------------------------------------------------------------------------------------- oracle of C07
def c07_oracle(real, cmd, pre, ret, with_order):
    """the permutation laws of C07 on the real objects (by identity; names are unique per object in the harness).
    Needs the display order before the operation (pre.order) and after it."""
    ws = cmd.split()
    op = ws[0]
    out = []
    if op not in ("move", "reorder", "remove", "get") or pre.order is None or not with_order:
        return out
    tm = real.tm
    trigs = list(tm.triggers)
    st, order = common.outcome(lambda: list(tm.trigger_display_order))
    if st != "ok" or sorted(order) != list(range(len(trigs))):
        return [("display-perm", f"display order {order} is not a permutation after {cmd}")]
    disp = [trigs[i] for i in order]
    D = [pre.trigs[i] for i in pre.order]
    same = lambda a, b: len(a) == len(b) and all(x is y for x, y in zip(a, b))
    nm = lambda l: [t.name for t in l]
    if op == "move":
        ids = [pre.trigs[int(x)] for x in ws[1].split(",")]
        k = int(ws[2])
        isin = lambda x: any(x is y for y in ids)
        want = [x for x in D[:k] if not isin(x)] + ids + [x for x in D[k:] if not isin(x)]
        if not same(disp, want):
            out.append(("move-spec", f"display sequence {nm(disp)} after {cmd}, expected {nm(want)} (display sequence before: {nm(D)})"))
        if not same(trigs, want):
            out.append(("move-list", f"list order {nm(trigs)} after {cmd}, expected {nm(want)}"))
    elif op == "reorder":
        want = D if ws[1] == "None" else [pre.trigs[int(x)] for x in ws[1].split(",")]
        if not same(trigs, want) or not same(disp, want):
            out.append(("reorder-spec", f"list {nm(trigs)} / display {nm(disp)} after {cmd}, expected {nm(want)}"))
    elif op == "remove":
        S = [] if ws[1] == "-" else [real._sel_obj(pre, w) for w in ws[1].split(",")]
        isin = lambda x: any(x is y for y in S)
        if not same(trigs, [x for x in pre.trigs if not isin(x)]):
            out.append(("remove-list", f"list {nm(trigs)} after {cmd} on {nm(pre.trigs)}"))
        if not same(disp, [x for x in D if not isin(x)]):
            out.append(("remove-display", f"display sequence {nm(disp)} after {cmd}, before {nm(D)}"))
    elif op == "get":
        want = real._sel_obj(pre, ws[1])
        got = ret[0][1][0] if ret else None
        if want is not None and got is not want:
            out.append(("select", f"{cmd} returned {getattr(got, 'name', None)!r}, expected {want.name!r}"))
    return out


def select_agreement(real):
    """selecting by index, by display index or by object reference designates the same trigger (all triggers of the
    current state). Returns a list of (clause, text)."""
    tm, TS = real.tm, real.lib.TS
    out = []
    order = list(tm.trigger_display_order)
    for i, t in enumerate(list(tm.triggers)):
        try:
            a, b = tm.get_trigger(i), tm.get_trigger(TS.index(i))
            c, d = tm.get_trigger(TS.display(order.index(i))), tm.get_trigger(TS.trigger(t))
        except Exception as e:           # noqa
            out.append(("select", f"selection of trigger {i} raised {type(e).__name__}")); continue
        if not (a is t and b is t and c is t and d is t):
            out.append(("select", f"selectors of trigger {i} disagree: {[x.name if x is not None else None for x in (a, b, c, d)]}"))
    return out


class RealOA:
    """the `oa` commands on a real Trigger: kind 'e' = effects / effect_order, 'c' = conditions / condition_order"""

    def __init__(self, lib, kind):
        self.lib, self.kind = lib, kind
        self.n = 0
        self.reset()

    def lst(self):
        return self.t.effects if self.kind == "e" else self.t.conditions

    def reset(self):
        # a FRESH trigger per case: re-using one trigger through `t.effects = []` leaves its `_effect_hash` stale
        # (the setter does not refresh it) and the id()-based hash of a new effect allocated at a freed effect's address
        # then collides - that is the "ideal hash" assumption of DESIGN 3, not part of C07 (see design.d/C07.md)
        if self.n % 500 == 0:
            self.tm = self.lib.detached()
        self.n += 1
        self.t = self.tm.add_trigger("oa")
        self.ren, self.keep = {}, []

    def execute(self, cmd):
        ws = cmd.split()
        t, e = self.t, self.kind == "e"

        def run():
            op = ws[1]
            if op == "reset":
                self.reset()
            elif op == "append":
                (t.new_effect.research_technology(technology=1) if e else t.new_condition.timer(timer=5))
            elif op == "rmat":
                (t.remove_effect(effect_index=int(ws[2])) if e else t.remove_condition(condition_index=int(ws[2])))
            elif op == "rmdisp":
                (t.remove_effect(display_index=int(ws[2])) if e else t.remove_condition(display_index=int(ws[2])))
            elif op == "rmobj":
                p = int(ws[2])
                if p >= len(self.lst()):
                    raise ValueError("no such object")
                (t.remove_effect(effect=t.effects[p]) if e else t.remove_condition(condition=t.conditions[p]))
            elif op == "setorder":
                l = [] if ws[2] == "-" else [int(x) for x in ws[2].split(",")]
                if e:
                    t.effect_order = l
                else:
                    t.condition_order = l
            elif op == "obs":
                items = list(self.lst())
                for x in items:
                    if id(x) not in self.ren:
                        self.ren[id(x)] = len(self.ren); self.keep.append(x)
                order = list(t.effect_order if e else t.condition_order)
                return f"ok items={','.join(str(self.ren[id(x)]) for x in items)} order={show_list(order)}", items, order
            else:
                raise RuntimeError("unknown oa command")
            return "ok", None, None
        with contextlib.redirect_stdout(io.StringIO()):
            st, r = common.outcome(run)
        if st == "error":
            if r == "RuntimeError":
                raise RuntimeError(cmd)
            return "error", None, None
        return r
