"""What the managers read is what they hand back (value level): the nested text `mgrtrace.load_traced` records for the
constructors' inputs is compared, link by link, with the nested text `mgrtrace.save_traced` records for the values pushed by
an unedited save. A link that is never pushed (index-history links, links the version lacks) shows as `N` on the push side
and is skipped."""


def parse(text):
    """nested text -> python lists; '{..}' and '[..]' both become lists (tagged), atoms stay strings"""
    pos = 0
    n = len(text)

    def val():
        nonlocal pos
        c = text[pos]
        if c in "[{":
            close = "]" if c == "[" else "}"
            pos += 1
            items = []
            if text[pos] == close:
                pos += 1
                return (c, items)
            while True:
                items.append(val())
                if text[pos] == ",":
                    pos += 1
                    continue
                if text[pos] == close:
                    pos += 1
                    return (c, items)
                raise ValueError(f"unexpected {text[pos]!r} at {pos}")
        start = pos
        while pos < n and text[pos] not in ",]}":
            pos += 1
        return text[start:pos]
    v = val()
    if pos != n:
        raise ValueError("trailing text")
    return v


def diffs(pulled, pushed, path="", out=None, limit=20):
    """list of (path, pulled atom/shape, pushed atom/shape) where an actually pushed value differs from the pulled one"""
    if out is None:
        out = []
    if len(out) >= limit:
        return out
    if isinstance(pushed, str):
        if pushed == "N":
            return out
        if pushed != pulled:
            out.append((path, pulled if isinstance(pulled, str) else "<nested>", pushed))
        return out
    if isinstance(pulled, str):
        if pulled == "N" and pushed[0] == "[" and not pushed[1]:
            return out                        # a list the version lacks: pulled None, pushed empty
        out.append((path, pulled, "<nested>"))
        return out
    if pulled[0] != pushed[0] or len(pulled[1]) != len(pushed[1]):
        out.append((path, f"{pulled[0]}x{len(pulled[1])}", f"{pushed[0]}x{len(pushed[1])}"))
        return out
    for i, (a, b) in enumerate(zip(pulled[1], pushed[1])):
        diffs(a, b, f"{path}/{i}", out, limit)
    return out
