"""C15 – only what a scenario version has can be used in it, and nothing else is refused.

One subprocess per scenario version (c15_worker): every version-gated attribute (every link with a `Support` of the
regenerated link table) is read, assigned None, assigned a value, saved, re-loaded and re-read on a LIVE scenario of
that version (fresh objects and objects pulled from sections), with a byte comparison against a control scenario that
only writes what the version's structure has; every EffectId / ConditionId member is created through its helper, and
one component of every type the version has is saved and re-loaded. The observations are compared with the Lean model
(`drv_c15` over the regenerated tables) and the property's clauses are evaluated directly (ground truth: the field
exists in the version's structure.json / the type is in the version's effects.json / conditions.json).
"""
import json, os
from harness import common, c1516_pool


def run(ctx):
    R = common.Result("exhaustive: 15 versions x every link with a Support (fresh and pulled objects: read, assign None, assign a value, "
                      "save, re-load, re-read; byte comparison with a control scenario) x every EffectId/ConditionId member (create through its helper; "
                      "one component of every type the version has saved and re-loaded in one file; for the shipped default additionally single-component "
                      "files at the file's own trigger version: 6 sampled in quick, all in thorough). non-trivial = the version LACKS the attribute / type "
                      "(the refusing side), plus every save/re-load; distinct by (version, attribute | type)")
    T = json.load(open(os.path.join(common.ROOT, "gen", "versions.json")))
    versions = [v["version"] for v in T]
    corpus = ctx.corpus()          # replays name (version, attribute | type): all of them are inside the exhaustive sweep
    res = c1516_pool.run_versions("c15", versions, ctx)
    cmds, expect, meta = [], [], []
    for v, r, err in res:
        if r is None:
            raise RuntimeError(f"C15 worker for version {v} failed:\n{err}")
        for c in r["cases"]:
            R.case(key=c["key"], nontrivial=c["nontrivial"], sample=c.get("sample"), tags=c["tags"])
            cmds.append(c["cmd"]); expect.append(c["obs"]); meta.append(c)
        for viol in r["violations"]:
            R.violation(viol["signature"], viol["what"], viol["replay"])
        if r.get("unconfirmed"):
            R.extra.setdefault("unconfirmed_violations", []).extend({"version": v, **x} for x in r["unconfirmed"][:5])
    # the model's table of gated links must be the one the harness covered
    for v in T:
        cmds.append(f"witness {v['hundredths']}"); expect.append("links= effects=- conditions=-"); meta.append({"key": f"{v['version']}:witness"})
    drv = ctx.driver()
    if drv is not None:
        out = drv.batch(cmds)
        for cmd, o, x, m in zip(cmds, out, expect, meta):
            if o != x:
                R.mismatch(cmd, {"cmd": cmd, "key": m["key"]}, impl=x, model=o)
            else:
                R.traces += 1
    else:
        R.extra["driver"] = "unavailable (Lean build failed) - oracles only"
    R.generated_obligations = len(versions)
    R.extra["corpus_entries"] = len(corpus)
    return R.to_json(exhaustive=True)
