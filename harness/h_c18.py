"""C18 - values written directly into a section win over the managers.

Live scenarios (`AoE2DEScenario.from_default()` and a small base file derived from it and re-loaded per case).
Every manager-linked field is found by walking the managers' `_link_list`s exactly as `AoE2Object.commit` does
(managers in commit order, links reversed, group members reversed, history/unsupported links skipped); that walk
also yields the *commit program* the Lean model (Aoe.Model.Dirty, driver drv_c18) is given.

Per case: one setting of ALLOW_DIRTY_RETRIEVER_OVERWRITE, a random history mixing direct section edits
(`scenario.sections[X].f = v`, fields of structs inside lists, a struct list assigned directly), manager edits
(setattr on the manager objects, public API: add/remove triggers, variables, units, map_size, player attributes)
and 2-4 saves. After every save the file is re-loaded with the library and for every field the value found there
(and the live `retriever.is_dirty`) is
  * judged by the ORACLE = the property's own clauses, computed from the harness' bookkeeping only:
      touched & setting off -> saved == last directly assigned value
      touched & setting on  -> saved == what the manager holds
      untouched             -> saved == what the manager holds (count fields: the length of the saved list;
                               object lists: as many records as the manager has objects)
      is_dirty == "the user assigned this field since load"   (library bookkeeping never marks a field)
  * compared with the Lean model's answer for the same history (correspondence).
Observations are values of the re-loaded file (DESIGN 2.4); when a file cannot be re-loaded (a count written by the
user / defect F2) the values serialised from the live sections are used and the case is tagged `obs:sections`.
"""
import contextlib, copy, io, os, shutil, struct, tempfile, math
from harness import common

GROWABLE = ("trigger_data", "variable_data", "units", "terrain_data")    # struct lists the histories grow / shrink


# ----------------------------------------------------------------------------------------------------------------------
# canonical values
def canon(v, dt=None):
    """canonical token of a retriever / manager value, as the file would hold it (bool = int, enum = int, f32 rounding)"""
    if v is None:
        return "None"
    if isinstance(v, (bool, int)):
        if dt is not None and dt.type == "f":
            v = float(v)                                # struct.pack('f', 0) == struct.pack('f', 0.0)
        else:
            return f"i:{int(v)}"
    if isinstance(v, float):
        if dt is not None and dt.type == "f" and dt.length == 4:
            try:
                return "t:f" + struct.pack("<f", v).hex()
            except (OverflowError, struct.error):
                return "t:f!" + repr(v)
        return "t:d" + struct.pack("<d", v).hex()
    if isinstance(v, str):
        return "t:s" + v.encode("utf-8", "surrogateescape").hex()
    if isinstance(v, (bytes, bytearray)):
        return "t:b" + bytes(v).hex()
    if isinstance(v, (list, tuple)):
        return "t:l[" + ";".join(canon(x, dt)[2:] if canon(x, dt) != "None" else "N" for x in v) + "]"
    return "t:o" + repr(v).replace(" ", "_")


def alt_scalar(dt, cur, rng, small):
    t, n = dt.type, dt.length
    if t in ("u", "s"):
        if isinstance(cur, float):
            cur = int(cur)
        hi = (1 << (8 * n - (1 if t == "s" else 0))) - 1
        cands = [0, 1, 2, 3] if small else [0, 1, 2, 3, 5, 7, min(hi, 100), min(hi, 200)]
        cands = [c for c in cands if c <= hi and c != cur]
        return rng.choice(cands)
    if t == "f":
        c = rng.choice([0.0, 0.5, 1.0, 2.5, 40.0, 72.0, 100.0])
        return c if c != cur else c + 1.0
    if t == "str":
        s = "u" + "".join(rng.choice("abcxyz019") for _ in range(rng.randrange(0, 6)))
        return s if s != cur else s + "q"
    if t == "c":
        k = max(1, min(n - 1, 6))
        s = "".join(rng.choice("abcxyz") for _ in range(rng.randrange(1, k + 1)))
        return s if s != cur else (s[:-1] + ("a" if s[-1] != "a" else "b"))
    if t == "data":
        b = bytes(rng.randrange(256) for _ in range(n))
        return b if b != cur else bytes((b[0] ^ 1,)) + b[1:]
    raise ValueError(t)


def alt_value(dt, cur, rng, small=True):
    """a value of the same shape as `cur` (so the file stays well-formed) that differs from it"""
    if isinstance(cur, (list, tuple)):
        if len(cur) == 0:
            return None                                  # an empty list has no same-shape alternative
        out = list(cur)
        if len(out) > 1 and all(isinstance(x, int) for x in out) and sorted(out) == list(range(len(out))):
            while out == list(cur):                      # an order array stays a permutation
                rng.shuffle(out)
            return out
        k = rng.randrange(len(out))
        for i in range(len(out)):
            if i == k or rng.random() < 0.3:
                out[i] = alt_scalar(dt, out[i], rng, small)
        return out
    if cur is None:
        return None
    return alt_scalar(dt, cur, rng, small)


# ----------------------------------------------------------------------------------------------------------------------
class Plain:
    __slots__ = ("key", "container", "rname", "host", "attr", "cb", "slot", "volatile", "mval", "inlist", "index", "fname")


class LList:
    __slots__ = ("key", "container", "rname", "host", "attr", "refresh", "objs", "fields", "children")


class Walk:
    """the pushes of one commit, in the order the library performs them"""
    def __init__(self):
        self.prog = []          # ("plain", Plain) | ("objs", LList)
        self.plains = {}        # slot key -> Plain
        self.lists = {}         # list key -> LList
        self.problems = []


def _strip(item):
    return item[:-11] if item.endswith("]") else item


def walk_scenario(scn, volatile=frozenset(), read=True):
    from AoE2ScenarioParser.sections.retrievers.retriever_object_link_group import RetrieverObjectLinkGroup
    from AoE2ScenarioParser.sections.dependencies.dependency_action import DependencyAction
    W = Walk()
    sections = scn.sections
    version = scn.scenario_version
    om = getattr(scn, "_object_manager", None)
    if om is not None and hasattr(om, "managers"):
        managers = list(om.managers.items())
    else:                                               # documented commit order (DESIGN B.4)
        managers = [(n, getattr(scn, a)) for n, a in (("Message", "message_manager"), ("Player", "player_manager"),
                    ("Map", "map_manager"), ("Unit", "unit_manager"), ("Trigger", "trigger_manager"),
                    ("Xs", "xs_manager"), ("Option", "option_manager"))]

    def descend(section, items, hist, pos0, prefix):
        """follow link items (all of them) from `section`; returns (section object, path text)"""
        for off, item in enumerate(items):
            name = _strip(item)
            nxt = getattr(section, name)
            prefix = prefix + "." + name
            if item.endswith("]"):
                idx = hist[pos0 + off]
                nxt = nxt[idx]
                prefix += f"[{idx}]"
            section = nxt
        return section, prefix

    def refresh_targets(container, cpath, retr, secname):
        """count fields refreshed from this list: [(key, 'len'|'sqrt')]"""
        out = []
        dep = getattr(retr, "on_commit", None)
        if dep is None or isinstance(dep, list) or dep.dependency_action != DependencyAction.REFRESH:
            return out
        for tsec, tname in dep.dependency_target.targets:
            if tsec == "self":
                tcont, tkey = container, f"{cpath}.{tname}"
            else:
                tcont, tkey = sections[tsec], f"{tsec}.{tname}"
            tr = tcont.retriever_map.get(tname)
            rd = getattr(tr, "on_refresh", None) if tr is not None else None
            if rd is None or isinstance(rd, list) or rd.dependency_action != DependencyAction.SET_VALUE:
                continue
            code = rd.dependency_eval.eval_code.replace(" ", "")
            if code == f"len({retr.name})":
                out.append((tkey, "len", tcont, tname))
            elif code == f"int(math.sqrt(len({retr.name})))":
                out.append((tkey, "sqrt", tcont, tname))
            else:
                W.problems.append(f"unmodelled refresh {tkey}: {code}")
        return out

    def emit(obj, hostpath, link, hist, group_section, group_path, collector):
        if link.retrieve_history_number is not None:
            return
        if link.support and not link.support.supports(version):
            return
        items = link.splitted_link
        rname = items[-1]
        if collector is not None:
            # an object of a growable list: its record may not exist yet - only names and values are needed
            container, cpath, retr, key = None, None, None, rname
        else:
            if group_section is not None:
                container, cpath = descend(group_section, items[:-1], hist, 0, group_path)
            else:
                container, cpath = descend(sections[link.section_name], items[:-1], hist, 0, link.section_name)
            retr = container.retriever_map[rname]
            key = f"{cpath}.{rname}"
        if link.process_as_object:
            children = list(getattr(obj, link.name))
            if rname in GROWABLE and collector is None:
                L = LList()
                L.key, L.container, L.rname, L.host, L.attr = key, container, rname, obj, link.name
                L.refresh = refresh_targets(container, cpath, retr, None)
                L.objs, L.fields, L.children = [], [], children
                for i, ch in enumerate(children):
                    col = []
                    walk_obj(ch, f"{hostpath}.{link.name}[{i}]", hist + [i], col)
                    L.objs.append(col)
                fields = []
                for col in L.objs:
                    for p in col:
                        if p.fname not in fields:
                            fields.append(p.fname)
                L.fields = fields
                W.lists[key] = L
                W.prog.append(("objs", L))
            elif collector is not None:
                # a list inside a growable list (conditions / effects of a trigger): the histories keep these empty
                if len(children) != 0:
                    W.problems.append(f"nested list {hostpath}.{link.name} not empty")
            else:
                if len(children) != len(retr.data):
                    W.problems.append(f"fixed list {key}: {len(children)} objects for {len(retr.data)} records")
                for i, ch in enumerate(children):
                    walk_obj(ch, f"{hostpath}.{link.name}[{i}]", hist + [i], None)
            return
        P = Plain()
        P.key, P.container, P.rname, P.host, P.attr, P.cb = key, container, rname, obj, link.name, link.commit_callback
        P.slot = f"{hostpath}.{link.name}"
        P.volatile = (type(obj).__name__, link.name) in volatile
        P.inlist, P.index, P.fname = None, None, rname
        P.mval = None
        if read and not P.volatile:
            try:
                v = getattr(obj, link.name)
                if P.cb:
                    v = P.cb(obj, link.name, v)
                P.mval = v
            except Exception as e:                       # the manager itself is in a state it cannot commit
                W.problems.append(f"manager attribute {hostpath}.{link.name} raises {type(e).__name__}")
        if collector is not None:
            collector.append(P)
        else:
            W.plains[P.slot] = P
            W.prog.append(("plain", P))

    def walk_obj(obj, hostpath, hist, collector):
        for link in reversed(obj._link_list):
            if isinstance(link, RetrieverObjectLinkGroup):
                if collector is not None:
                    gsec, gpath = None, None
                else:
                    gsec, gpath = descend(sections[link.section_name], link.splitted_link, hist, 0, link.section_name)
                for m in reversed(link.group):
                    emit(obj, hostpath, m, hist, gsec, gpath, collector)
            else:
                emit(obj, hostpath, link, hist, None, None, collector)

    for name, mgr in managers:
        walk_obj(mgr, name, [], None)
    return W


def find_volatile(scn):
    """links whose manager attribute changes by being read (UnitManager.next_unit_id hands out an id per read)"""
    from AoE2ScenarioParser.sections.retrievers.retriever_object_link_group import RetrieverObjectLinkGroup
    out = set()
    om = scn._object_manager.managers if hasattr(scn, "_object_manager") else {}
    for mgr in om.values():
        for link in mgr._link_list:
            members = link.group if isinstance(link, RetrieverObjectLinkGroup) else [link]
            for m in members:
                if m.process_as_object or m.retrieve_history_number is not None:
                    continue
                try:
                    a, b = getattr(mgr, m.name), getattr(mgr, m.name)
                except Exception:
                    continue
                if canon(a) != canon(b):
                    out.add((type(mgr).__name__, m.name))
    return frozenset(out)


# ----------------------------------------------------------------------------------------------------------------------
# JSON-able values (replays)
def enc(v):
    if isinstance(v, (bytes, bytearray)):
        return {"__b": bytes(v).hex()}
    if isinstance(v, (list, tuple)):
        return [enc(x) for x in v]
    if isinstance(v, bool):
        return bool(v)
    if isinstance(v, int):
        return int(v)
    return v


def dec(v):
    if isinstance(v, dict) and "__b" in v:
        return bytes.fromhex(v["__b"])
    if isinstance(v, list):
        return [dec(x) for x in v]
    return v


F2_ROOT = "F2-grow-through-user-setter"


class Env:
    """library handles + scratch directory + base file shared by all cases of a run"""
    def __init__(self):
        self.settings = common.lib_setup()
        from AoE2ScenarioParser.scenarios.aoe2_de_scenario import AoE2DEScenario
        self.Scn = AoE2DEScenario
        self.tmp = tempfile.mkdtemp(prefix="c18_")
        self.n = 0
        self.volatile = frozenset()
        self.base = None
        self.shape_names = set()

    def quiet(self, fn, *a, **k):
        with contextlib.redirect_stdout(io.StringIO()):
            return fn(*a, **k)

    def path(self, stem="case"):
        # same stem in a fresh directory: saving rewrites DataHeader.filename to the stem
        self.n += 1
        d = os.path.join(self.tmp, f"d{self.n}")
        os.makedirs(d, exist_ok=True)
        return os.path.join(d, stem + ".aoe2scenario")

    def build_base(self):
        s = self.quiet(self.Scn.from_default)
        self.volatile = find_volatile(s)
        s.map_manager.map_size = 2
        tm, um = s.trigger_manager, s.unit_manager
        tm.add_trigger("base0")
        tm.add_trigger("base1", description="d1", looping=True)
        tm.add_variable("var0", 0)
        tm.add_variable("var1", 5)
        um.add_unit(1, 4, 0.5, 0.5)
        um.add_unit(1, 74, 1.5, 0.5)
        um.add_unit(2, 4, 1.5, 1.5)
        um.add_unit(0, 59, 0.5, 1.5)
        p1 = self.path("base")
        self.quiet(s.write_to_file, p1)
        s2 = self.quiet(self.Scn.from_file, p1)
        self.base = self.path("base")
        self.quiet(s2.write_to_file, self.base)
        self.shape_names = shape_field_names(s2)

    def load(self, source):
        if source == "default":
            return self.quiet(self.Scn.from_default)
        return self.quiet(self.Scn.from_file, self.base)

    def close(self):
        shutil.rmtree(self.tmp, ignore_errors=True)


def is_counted(retr):
    """the number of items of this retriever is dictated by another field (SET_REPEAT dependency)"""
    from AoE2ScenarioParser.sections.dependencies.dependency_action import DependencyAction
    for st in ("on_construct", "on_refresh"):
        d = getattr(retr, st, None)
        for dd in (d if isinstance(d, list) else [d]):
            if dd is not None and dd.dependency_action == DependencyAction.SET_REPEAT:
                return True
    return False


def shape_field_names(scn):
    """names of retrievers that decide how many items another retriever has (targets of SET_REPEAT dependencies):
    a user-written value there makes the file inconsistent by the user's own doing"""
    from AoE2ScenarioParser.sections.dependencies.dependency_action import DependencyAction
    names = set()

    def scan(rmap, structs):
        for r in rmap.values():
            for st in ("on_construct", "on_refresh"):
                d = getattr(r, st, None)
                for dd in (d if isinstance(d, list) else [d]):
                    if dd is not None and dd.dependency_action == DependencyAction.SET_REPEAT and dd.dependency_target is not None:
                        for t in dd.dependency_target.targets:
                            names.add(t[1])
        for m in (structs or {}).values():
            scan(m.retriever_map, m.structs)
    for sec in scn.sections.values():
        scan(sec.retriever_map, sec.struct_models)
    return names


# ----------------------------------------------------------------------------------------------------------------------
class Case:
    """one scenario, one setting, one history; collects driver commands, oracle verdicts, coverage"""
    def __init__(self, env, allow, source, fixed):
        self.env, self.allow, self.source, self.fixed = env, bool(allow), source, fixed
        env.settings.ALLOW_DIRTY_RETRIEVER_OVERWRITE = self.allow
        self.scn = env.load(source)
        self.ops = []                 # the explicit history (replay)
        self.cmds, self.expect = [], []
        self.violations = []          # (signature, what)
        self.vkeys = set()            # fields the oracle already reports in this case
        self.reload_diffs = []        # re-loaded file differs from the serialised sections although nothing explains it
        self.tags = []
        self.ended = None             # reason the history stopped early
        self.touched, self.uval = {}, {}          # plain key -> bool / last directly assigned value
        self.ltouched, self.ulen = {}, {}         # list key -> bool / length of the directly assigned list
        self.rtouched = {}                        # (list key, i, fname) -> last directly assigned value
        self.grown = set()                        # lists the library has grown in this session
        self.f2_extended = set()                  # user-assigned lists the library has extended in place
        self.f2_marked = set()                    # lists whose marker appeared during a commit that grew them
        self.shape_edit = False
        self.roles = {}                           # key -> role string (coverage)
        self.nsaves = 0
        self.obs_kind = []
        self._W = walk_scenario(self.scn, env.volatile)
        self._stale = False
        self.problems = list(self._W.problems)
        self._declare()

    @property
    def W(self):
        """the current walk (managers may have gained / lost objects since the last one)"""
        if self._stale:
            self.rewalk()
        return self._W

    # -- declaration of the scenario to the model -------------------------------------------------
    def _dt(self, container, rname):
        return container.retriever_map[rname].datatype

    def _declare(self):
        W = self.W
        self.cmd(f"reset allow={int(self.allow)} fixed={int(self.fixed)}", "ok")
        self.fields = {}                  # plain key -> (container, rname)
        self.last_writer = {}             # plain key -> ("plain", slot) | ("count", list key, kind)
        self.slotnum = {}
        self.mvals = {}                   # slot -> canonical manager value last told to the model
        self.mobjs = {}                   # list key -> canonical object list last told to the model
        for kind, p in W.prog:
            if kind == "plain":
                if p.volatile:
                    continue
                self.fields.setdefault(p.key, (p.container, p.rname))
            else:
                for tkey, k, tcont, tname in p.refresh:
                    self.fields.setdefault(tkey, (tcont, tname))
        for key, (cont, rname) in self.fields.items():
            v = getattr(cont, rname)
            self.cmd(f"field {key} {canon(v, self._dt(cont, rname))}", "ok")
        self.lfields = {}
        for lkey, L in W.lists.items():
            recs = getattr(L.container, L.rname)
            self.cmd(f"list {lkey} {len(recs)}", "ok")
            model = L.container.find_struct_model_by_retriever(L.container.retriever_map[L.rname]) \
                if hasattr(L.container, "find_struct_model_by_retriever") else None
            names = []
            # record fields = the plain links of the child class (read from a child if there is one, else from the class)
            names = list(L.fields) if L.fields else self._child_fields(L)
            self.lfields[lkey] = names
            for f in names:
                self.cmd(f"lfield {lkey} {f} t:dflt", "ok")
            if len(recs):
                for f in names:
                    self.cmd(f"lcol {lkey} {f} " + "|".join(canon(getattr(r, f), r.retriever_map[f].datatype) for r in recs), "ok")
        for kind, p in W.prog:
            if kind == "plain":
                if p.volatile:
                    continue
                n = self.slotnum.setdefault(p.slot, len(self.slotnum))
                self.cmd(f"prog plain {n} {p.key}", "ok")
                self.last_writer[p.key] = ("plain", p.slot)
            else:
                tg = ",".join(f"{tkey}:{k}" for tkey, k, _, _ in p.refresh) or "-"
                self.cmd(f"prog objs {p.key} {tg}", "ok")
                for tkey, k, _, _ in p.refresh:
                    self.last_writer[tkey] = ("count", p.key, k)
        self._tell_managers(W)

    def _child_fields(self, L):
        """plain link names of the child class of an (empty) growable list, in commit order"""
        from AoE2ScenarioParser.sections.retrievers.retriever_object_link_group import RetrieverObjectLinkGroup
        cls = None
        for link in type(L.host)._link_list:
            members = link.group if isinstance(link, RetrieverObjectLinkGroup) else [link]
            for m in members:
                if m.name == L.attr:
                    cls = m.process_as_object
        out = []
        if cls is None:
            return out
        ver = self.scn.scenario_version
        for link in reversed(cls._link_list):
            members = reversed(link.group) if isinstance(link, RetrieverObjectLinkGroup) else [link]
            for m in members:
                if m.retrieve_history_number is not None or m.process_as_object:
                    continue
                if m.support and not m.support.supports(ver):
                    continue
                out.append(m.splitted_link[-1])
        return out

    def _obj_text(self, L, col, i):
        """canonical text of one manager object (its plain links, push order)"""
        if not col:
            return "."
        dts = self._rec_dts(L)
        return ",".join(f"{p.fname}={canon(p.mval, dts.get(p.fname))}" for p in col)

    def _rec_dts(self, L):
        c = getattr(self, "_dts_cache", None)
        if c is None:
            c = self._dts_cache = {}
        if L.key not in c:
            cont = L.container
            model = cont.find_struct_model_by_retriever(cont.retriever_map[L.rname])
            c[L.key] = {n: r.datatype for n, r in model.retriever_map.items()}
        return c[L.key]

    def _tell_managers(self, W):
        for kind, p in W.prog:
            if kind == "plain":
                if p.volatile:
                    continue
                cv = canon(p.mval, self._dt(p.container, p.rname))
                if self.mvals.get(p.slot) != cv:
                    self.mvals[p.slot] = cv
                    if cv == "None":
                        self.problems.append(f"manager holds None for {p.slot}")
                    self.cmd(f"mgr {self.slotnum[p.slot]} {cv}", "ok")
            else:
                txt = "|".join(self._obj_text(p, col, i) for i, col in enumerate(p.objs)) or "-"
                if self.mobjs.get(p.key) != txt:
                    self.mobjs[p.key] = txt
                    self.cmd(f"mobjs {p.key} {txt}", "ok")

    def cmd(self, c, e):
        self.cmds.append(c)
        self.expect.append(e)

    def role(self, key, ch):
        self.roles[key] = self.roles.get(key, "") + ch

    # -- history ops -------------------------------------------------------------------------------
    def apply(self, op):
        """execute one explicit op on the real scenario; mirror it to the model; keep the oracle's books"""
        if self.ended:
            return
        self.ops.append(op)
        k = op["op"]
        if k == "save":
            return self.save()
        W = self.W
        if k == "user":
            key, val = op["key"], dec(op["val"])
            if key not in self.fields:
                return
            cont, rname = self.fields[key]
            cur = getattr(cont, rname)
            self.len_before = {key: len(cur)} if isinstance(cur, list) else {}
            setattr(cont, rname, val)
            # keep an independent copy: the section now owns `val`, and code that refreshes a list in place must not
            # be able to rewrite the oracle's record of what the user assigned
            self.touched[key], self.uval[key] = True, copy.deepcopy(val)
            retr = cont.retriever_map[rname]
            cur_len = len(retr.data) if isinstance(retr.data, list) else None
            # a count / gate written by the user makes the file inconsistent by the user's own doing; so does a counted
            # list of another length - unless the retriever's own commit step refreshes its counter (on_commit)
            if rname in self.env.shape_names or (is_counted(retr) and getattr(retr, "on_commit", None) is None
                                                  and isinstance(val, list) and len(val) != self.len_before.get(key, len(val))):
                self.shape_edit = True
            self.cmd(f"user {key} {canon(val, self._dt(cont, rname))}", "ok")
            self.role(key, "u")
        elif k == "unknown":
            # a name that is no retriever: only a Python attribute appears, nothing is saved differently
            sec = self.scn.sections[op["section"]]
            setattr(sec, op["name"], dec(op["val"]))
            self.cmd(f"user {op['section']}.{op['name']} {canon(dec(op['val']))}", "ok")
        elif k == "urec":
            L = W.lists.get(op["list"])
            if L is None:
                return
            recs = getattr(L.container, L.rname)
            i, f, val = op["i"], op["f"], dec(op["val"])
            if i >= len(recs):
                return
            setattr(recs[i], f, val)
            self.rtouched[(L.key, i, f)] = copy.deepcopy(val)
            self.cmd(f"urec {L.key} {i} {f} {canon(val, recs[i].retriever_map[f].datatype)}", "ok")
            self.role(f"{L.key}[].{f}", "u")
        elif k == "ulist":
            L = W.lists.get(op["list"])
            if L is None:
                return
            recs = getattr(L.container, L.rname)
            keep = [x for x in op["keep"] if x < len(recs)]
            setattr(L.container, L.rname, [recs[x] for x in keep])
            self.ltouched[L.key], self.ulen[L.key] = True, len(keep)
            self.shape_edit = True
            old = {kk: v for kk, v in self.rtouched.items() if kk[0] == L.key}
            for kk in old:
                del self.rtouched[kk]
            for new_i, old_i in enumerate(keep):
                for (lk, i, f), v in old.items():
                    if i == old_i:
                        self.rtouched[(lk, new_i, f)] = v
            self.cmd(f"ulist {L.key} {','.join(map(str, keep)) or '-'}", "ok")
            self.role(L.key, "U")
        elif k == "mset":
            p = W.plains.get(op["slot"])
            if p is None:
                return
            common.outcome(setattr, p.host, p.attr, dec(op["val"]))
            if p.rname in self.env.shape_names or is_counted(p.container.retriever_map[p.rname]):
                self.shape_edit = True          # the manager now holds a count / counted list of the history's making
            self.role(p.key, "m")
        elif k == "mrec":
            L = W.lists.get(op["list"])
            if L is None or op["i"] >= len(L.children):
                return
            common.outcome(setattr, L.children[op["i"]], op["attr"], dec(op["val"]))
            self.role(f"{L.key}[].{op['f']}", "m")
        elif k == "api":
            self.api(op)
        # manager-side structure may have changed: walk again (cheap) so that later ops address current objects
        if k in ("api", "ulist"):
            self._stale = True

    def rewalk(self):
        W2 = walk_scenario(self.scn, self.env.volatile)
        self.problems += [p for p in W2.problems if p not in self.problems]
        self._W, self._stale = W2, False
        return W2

    def api(self, op):
        s, w = self.scn, op["what"]
        tm, um = s.trigger_manager, s.unit_manager
        if w == "add_trigger":
            common.outcome(tm.add_trigger, op["name"])
            self.role("Triggers.trigger_data", "g")
        elif w == "remove_trigger":
            if len(tm.triggers) > op["i"]:
                common.outcome(tm.remove_trigger, op["i"])
                self.role("Triggers.trigger_data", "c")
        elif w == "add_variable":
            common.outcome(tm.add_variable, op["name"], op["id"])
            self.role("Triggers.variable_data", "g")
        elif w == "remove_variable":
            if len(tm.variables) > op["i"]:
                del tm.variables[op["i"]]
                self.role("Triggers.variable_data", "c")
        elif w == "add_unit":
            common.outcome(um.add_unit, op["player"], op["const"], op["x"], op["y"])
            self.role(f"Units.players_units[{op['player']}].units", "g")
        elif w == "remove_unit":
            us = um.units[op["player"]]
            if len(us) > op["i"]:
                common.outcome(um.remove_unit, unit=us[op["i"]])
                self.role(f"Units.players_units[{op['player']}].units", "c")
        elif w == "map_size":
            common.outcome(setattr, s.map_manager, "map_size", op["n"])
            self.role("Map.terrain_data", "r")
        elif w == "player_attr":
            common.outcome(setattr, s.player_manager.players[op["player"]], op["attr"], dec(op["val"]))
        elif w == "tile_attr":
            t = s.map_manager.terrain
            if op["i"] < len(t):
                common.outcome(setattr, t[op["i"]], op["attr"], op["val"])

    # -- save + observation + oracle -----------------------------------------------------------------
    def save(self):
        self.nsaves += 1
        W = self.rewalk()
        if self.problems:
            self.ended = "unmodelled: " + "; ".join(self.problems[:3])
            return
        self._tell_managers(W)
        mvals = {p.slot: p.mval for kind, p in W.prog if kind == "plain"}
        mobjs = {key: [{p.fname: p.mval for p in col} for col in L.objs] for key, L in W.lists.items()}
        pre_len = {key: (len(getattr(L.container, L.rname)) if getattr(L.container, L.rname) is not None else None)
                   for key, L in W.lists.items()}
        grows_now, dirty_before = set(), {}
        for key, L in W.lists.items():
            dirty_before[key] = getattr(L.container.retriever_map[L.rname], "is_dirty", None)
            if pre_len[key] is not None and len(L.objs) > pre_len[key]:
                self.grown.add(key)
                grows_now.add(key)
        fn = self.env.path()
        st, err = common.outcome(self.env.quiet, self.scn.write_to_file, fn)
        for key in self.roles:
            self.roles[key] += "s"
        if st != "ok":
            self.cmd("save", "error")
            self.ended = f"save raised {err}"
            self.tags.append("save:error:" + str(err))
            return
        self.cmd("save", "ok")
        for key, L in W.lists.items():
            # F2 attribution: the marker appeared during a commit that grew this list
            if key in grows_now and dirty_before[key] is False and getattr(L.container.retriever_map[L.rname], "is_dirty", None):
                self.f2_marked.add(key)
        # observation. The file is written from the live sections as they are after the commit
        # (Retriever.get_data_as_bytes serialises `data`), so those values are what the file holds; the file is
        # re-loaded with the library and, whenever it is a consistent file, must show the very same values
        # ("obs:file"). A file that the history itself made inconsistent (a count or a counted list written by the
        # user, defect F2) cannot be decoded meaningfully: then only the serialised values are used ("obs:sections").
        obs = self._collect(W, self.scn.sections)
        st, reloaded = common.outcome(self.env.quiet, self.env.Scn.from_file, fn)
        kind = "file"
        if st != "ok":
            self.tags.append("reload:error:" + str(reloaded))
            kind = "sections"
            consistent = not self.shape_edit and not any(
                getattr(L.container, L.rname) is None or len(getattr(L.container, L.rname)) != len(L.objs)
                for L in W.lists.values())
            # (a ValueError while re-loading is an out-of-enum value the user wrote: the user's own doing)
            if consistent and "EndOfFile" in str(reloaded):
                self._viol({"clause": "saved-file-unreadable", "allow": int(self.allow)},
                           f"reload: the file written after {len(self.ops)} operations that never touched a count or gate field cannot be "
                           f"re-loaded ({reloaded}): the values the user assigned are not what the file holds", key="reload")
        else:
            st, obs2 = common.outcome(self._collect, W, reloaded.sections)
            if st != "ok" or obs2 != obs:
                kind = "sections"
                consistent = not self.shape_edit and not any(
                    getattr(L.container, L.rname) is None or len(getattr(L.container, L.rname)) != len(L.objs)
                    for L in W.lists.values())
                self.tags.append("reload:differs:" + ("file-consistent-by-construction" if consistent else "inconsistent-by-history"))
                if consistent:
                    diff = [k for k in obs if st == "ok" and obs2.get(k) != obs[k]][:3]
                    self.reload_diffs.append(diff)
        self.obs_kind.append(kind)
        self.tags.append("obs:" + kind)
        try:
            os.remove(fn)
        except OSError:
            pass
        self._judge(W, obs, mvals, mobjs)

    def _collect(self, W, sections):
        """canonical values of every observed field in a section tree: {key: token}"""
        obs = {}
        for lkey, L in W.lists.items():
            cont, rname = self._resolve(sections, lkey)
            recs = getattr(cont, rname)
            obs[("len", lkey)] = None if recs is None else len(recs)
            for i, r in enumerate(recs or []):
                for f in self.lfields.get(lkey, []):
                    obs[(lkey, i, f)] = canon(getattr(r, f), r.retriever_map[f].datatype)
        for key, (cont, rname) in self.fields.items():
            c2, r2 = self._resolve(sections, key)
            obs[key] = canon(getattr(c2, r2), self._dt(cont, rname))
        return obs

    @staticmethod
    def _resolve(sections, key):
        """'Units.players_units[1].unit_count' -> (container section object, retriever name) in another section tree"""
        parts = key.split(".")
        cur = sections[parts[0]]
        for part in parts[1:-1]:
            if part.endswith("]"):
                name, idx = part[:-1].split("[")
                cur = getattr(cur, name)[int(idx)]
            else:
                cur = getattr(cur, part)
        return cur, parts[-1]

    def _viol(self, sig, what, key=None):
        self.violations.append((sig, what))
        self.vkeys.add(key if key is not None else what.split(":")[0])

    def _judge(self, W, obs, mvals, mobjs):
        allow = self.allow
        nth = self.nsaves
        saved_len = {}
        # ---- struct lists
        for lkey, L in W.lists.items():
            n = obs[("len", lkey)]
            saved_len[lkey] = n
            lretr = L.container.retriever_map[L.rname]
            dirty = getattr(lretr, "is_dirty", None)
            self.cmd(f"len {lkey}", f"{n} dirty={int(bool(dirty))}" if dirty is not None else f"{n} dirty=?")
            nm = len(L.objs)
            touched = self.ltouched.get(lkey, False)
            by_growth = (not touched) and bool(dirty) and lkey in self.f2_marked
            if dirty is not None and bool(dirty) != touched:
                sig = {"clause": "bookkeeping_never_marks", "field_kind": "object-list", "marked": bool(dirty)}
                if by_growth:
                    sig["root"] = F2_ROOT
                self._viol(sig, f"{lkey}: is_dirty={dirty} although the user {'assigned' if touched else 'never assigned'} the list "
                                f"(save #{nth}; the library {'grew' if lkey in self.grown else 'did not grow'} it)")
            if touched and not allow:
                want = self.ulen[lkey]
                if n != want:
                    sig = {"clause": "user_value_saved", "field_kind": "object-list"}
                    if n is not None and n > want and (nm > want or lkey in self.f2_extended):
                        # the pinned update_retriever_length extends the list object in place before the (dropped) write
                        self.f2_extended.add(lkey)
                        sig.update(root=F2_ROOT, effect="user-list-extended-in-place")
                    self._viol(sig, f"{lkey}: the user assigned a list of {want} records, the manager holds {nm} objects, "
                                    f"the file has {n} records (setting off)")
            else:
                if n != nm:
                    sig = {"clause": "allow_manager_wins" if touched else "untouched_follow_manager", "field_kind": "object-list"}
                    if by_growth and not allow and n is not None and n > nm:
                        sig.update(root=F2_ROOT, effect="shrink-dropped")
                    self._viol(sig, f"{lkey}: the manager holds {nm} objects, the file has {n} records "
                                    f"({'assigned by the user, setting on' if touched else 'never assigned by the user'}; save #{nth})")
            # landed cuts forget the records beyond the new end
            if n is not None:
                for kk in [kk for kk in self.rtouched if kk[0] == lkey and kk[1] >= n]:
                    del self.rtouched[kk]
            # ---- fields of the records
            lrecs = getattr(L.container, L.rname) or []
            dts = self._rec_dts(L)
            for i in range(n or 0):
                for f in self.lfields.get(lkey, []):
                    dt = dts[f]
                    got = obs[(lkey, i, f)]
                    d = getattr(lrecs[i].retriever_map[f], "is_dirty", None) if i < len(lrecs) else None
                    self.cmd(f"rget {lkey} {i} {f}", f"{got} dirty={int(bool(d))}" if d is not None else f"{got} dirty=?")
                    tk = (lkey, i, f)
                    rt = tk in self.rtouched
                    if d is not None and bool(d) != rt:
                        self._viol({"clause": "bookkeeping_never_marks", "field_kind": "record-field", "marked": bool(d)},
                                   f"{lkey}[{i}].{f}: is_dirty={d}, user-assigned={rt}")
                    if rt and not allow:
                        want = canon(self.rtouched[tk], dt)
                        clause = "user_value_saved"
                    elif i < nm and f in mobjs[lkey][i]:
                        want = canon(mobjs[lkey][i][f], dt)
                        clause = "allow_manager_wins" if rt else "untouched_follow_manager"
                    else:
                        continue
                    nontriv = rt or (self.roles.get(f"{lkey}[].{f}", "").count("m") > 0)
                    self.stat(f"{lkey.split('[')[0]}..{f}", clause, nontriv)
                    if got != want:
                        self._viol({"clause": clause, "field_kind": "record-field"},
                                   f"{lkey}[{i}].{f}: file has {got}, expected {want} ({clause}, save #{nth})")
        # ---- plain fields (manager-linked and count fields)
        for key, (cont, rname) in self.fields.items():
            dt = self._dt(cont, rname)
            got = obs[key]
            d = getattr(cont.retriever_map[rname], "is_dirty", None)
            self.cmd(f"get {key}", f"{got} dirty={int(bool(d))}" if d is not None else f"{got} dirty=?")
            t = self.touched.get(key, False)
            if d is not None and bool(d) != t:
                self._viol({"clause": "bookkeeping_never_marks", "field_kind": "count-field" if self.last_writer.get(key, ("",))[0] == "count" else "plain",
                            "marked": bool(d)}, f"{key}: is_dirty={d}, user-assigned={t} (save #{nth})")
            lw = self.last_writer.get(key)
            if t and not allow:
                want, clause = canon(self.uval[key], dt), "user_value_saved"
            elif lw is None:
                continue
            elif lw[0] == "plain":
                want, clause = canon(mvals[lw[1]], dt), ("allow_manager_wins" if t else "untouched_follow_manager")
            else:
                n = saved_len.get(lw[1])
                if n is None:
                    continue
                want = canon(n if lw[2] == "len" else int(math.sqrt(n)))
                clause = "allow_manager_wins" if t else "untouched_follow_manager"
            self.stat(key, clause, t or "m" in self.roles.get(key, ""))
            if got != want:
                self._viol({"clause": clause, "field_kind": "count-field" if lw and lw[0] == "count" else "plain"},
                           f"{key}: file has {got}, expected {want} ({clause}; user-assigned={t}, setting {'on' if allow else 'off'}, save #{nth})")

    def stat(self, key, clause, nontrivial):
        self.tags.append(("case", key, clause, nontrivial))


# ----------------------------------------------------------------------------------------------------------------------
# random histories
TRIGGER_NAMES = ["alpha", "beta", "gamma", "delta", "eps"]


def gen_phase(case, rng, inten, allow_shape):
    """ops of one phase (everything between two saves), chosen from the live state; returns explicit ops"""
    ops = []
    W = case.W
    scn = case.scn
    pu, pm = inten
    # --- structure: grow / shrink the growable lists through the managers' public API
    tm, um = scn.trigger_manager, scn.unit_manager
    r = rng.random()
    nt = len(tm.triggers)
    if r < 0.45:
        for _ in range(rng.randrange(1, 4)):
            ops.append({"op": "api", "what": "add_trigger", "name": rng.choice(TRIGGER_NAMES) + str(rng.randrange(100))})
            nt += 1
    elif r < 0.8 and nt > 0:
        for _ in range(rng.randrange(1, min(3, nt) + 1)):
            ops.append({"op": "api", "what": "remove_trigger", "i": rng.randrange(nt)})
            nt -= 1
    r = rng.random()
    nv = len(tm.variables)
    if r < 0.3:
        used = {v.variable_id for v in tm.variables}
        free = [i for i in range(20) if i not in used]
        for _ in range(rng.randrange(1, 3)):
            if free:
                vid = free.pop(rng.randrange(len(free)))
                ops.append({"op": "api", "what": "add_variable", "name": "v" + str(rng.randrange(100)), "id": vid})
    elif r < 0.55 and nv > 0:
        ops.append({"op": "api", "what": "remove_variable", "i": rng.randrange(nv)})
    for p in (0, 1, 2):
        r = rng.random()
        n = len(um.units[p])
        if r < 0.25:
            for _ in range(rng.randrange(1, 3)):
                ops.append({"op": "api", "what": "add_unit", "player": p, "const": rng.choice([4, 74, 59, 83]),
                            "x": rng.randrange(4) + 0.5, "y": rng.randrange(4) + 0.5})
        elif r < 0.5 and n > 0:
            ops.append({"op": "api", "what": "remove_unit", "player": p, "i": rng.randrange(n)})
    if rng.random() < 0.3:
        ops.append({"op": "api", "what": "map_size", "n": rng.choice([1, 2, 3])})
    if rng.random() < 0.5:
        for _ in range(rng.randrange(1, 4)):
            attr = rng.choice(["food", "wood", "gold", "stone", "population_cap", "tribe_name", "base_priority", "lock_civ"])
            val = ("tribe" + str(rng.randrange(50))) if attr == "tribe_name" else rng.randrange(0, 200)
            ops.append({"op": "api", "what": "player_attr", "player": rng.randrange(1, 9), "attr": attr, "val": val})
    for op in ops:
        case.apply(op)
    ops2 = []
    W = case.W
    # --- a struct list assigned directly
    if rng.random() < 0.12:
        lkey = rng.choice([k for k in W.lists if not k.startswith("Map.")])
        L = W.lists[lkey]
        recs = getattr(L.container, L.rname) or []
        idx = list(range(len(recs)))
        rng.shuffle(idx)
        keep = idx[: rng.randrange(0, len(idx) + 1)]
        if rng.random() < 0.5:
            keep = sorted(keep)
        ops2.append({"op": "ulist", "list": lkey, "keep": keep})
    # --- plain fields: direct section edits and manager edits
    for key, (cont, rname) in case.fields.items():
        if rng.random() < pu:
            if (rname in case.env.shape_names or is_counted(cont.retriever_map[rname])) and not allow_shape:
                continue
            cur = getattr(cont, rname)
            if rng.random() < 0.15 and cur is not None:
                v = list(cur) if isinstance(cur, list) else cur          # pin the field to the value it already has
            else:
                v = alt_value(cont.retriever_map[rname].datatype, cur, rng, small=rng.random() < 0.8)
            if v is not None:
                ops2.append({"op": "user", "key": key, "val": enc(v)})
    for slot, p in W.plains.items():
        if p.volatile or rng.random() >= pm:
            continue
        if (p.rname in case.env.shape_names or is_counted(p.container.retriever_map[p.rname])) and not allow_shape:
            continue
        v = alt_value(p.container.retriever_map[p.rname].datatype, p.mval, rng, small=rng.random() < 0.8)
        if v is not None:
            ops2.append({"op": "mset", "slot": slot, "val": enc(v)})
    # --- fields of records
    for lkey, L in W.lists.items():
        recs = getattr(L.container, L.rname) or []
        dts = case._rec_dts(L)
        for i, r in enumerate(recs):
            for f in case.lfields.get(lkey, []):
                if rng.random() < pu:
                    cur = getattr(r, f)
                    if rng.random() < 0.15 and cur is not None:
                        v = list(cur) if isinstance(cur, list) else cur
                    else:
                        v = alt_value(dts[f], cur, rng, small=rng.random() < 0.8)
                    if v is not None:
                        ops2.append({"op": "urec", "list": lkey, "i": i, "f": f, "val": enc(v)})
        for i, col in enumerate(L.objs):
            for p in col:
                if rng.random() < pm:
                    v = alt_value(dts[p.fname], p.mval, rng, small=rng.random() < 0.8)
                    if v is not None:
                        ops2.append({"op": "mrec", "list": lkey, "i": i, "attr": p.attr, "f": p.fname, "val": enc(v)})
    if rng.random() < 0.05:
        ops2.append({"op": "unknown", "section": "Map", "name": "no_such_retriever", "val": 7})
    rng.shuffle(ops2)
    for op in ops2:
        case.apply(op)
    case.apply({"op": "save"})


def run_ops(env, allow, source, fixed, ops):
    c = Case(env, allow, source, fixed)
    for op in ops:
        c.apply(op)
        if c.ended:
            break
    return c


def sigkey(sig):
    import json
    return json.dumps(sig, sort_keys=True)


def shrink(env, allow, source, fixed, ops, target, max_trials=90, vkey=None):
    """greedy removal of ops while a violation with the same signature remains"""
    def fails(o):
        c = run_ops(env, allow, source, fixed, o)
        return any(sigkey(s) == target for s, _ in c.violations)
    trials = 0
    # 1. only the ops that speak about the violating field (plus structure ops and saves)
    if vkey is not None:
        c0 = Case(env, allow, source, fixed)
        slot_key = {slot: p.key for slot, p in c0.W.plains.items()}

        def relevant(o):
            k = o["op"]
            if k in ("api", "save", "ulist"):
                return True
            if k == "user":
                return o["key"] == vkey
            if k == "mset":
                return slot_key.get(o["slot"]) == vkey
            if k in ("urec", "mrec"):
                return vkey.startswith(o["list"] + "[") and vkey.endswith("." + o["f"])
            return False
        cand = [o for o in ops if relevant(o)]
        if len(cand) < len(ops):
            trials += 1
            if fails(cand):
                ops = cand
    # 2. whole classes of value edits, then single ops
    for pred in (lambda o: o["op"] in ("api", "save", "ulist"), lambda o: o["op"] != "mset", lambda o: o["op"] != "mrec",
                 lambda o: o["op"] != "user", lambda o: o["op"] != "urec"):
        cand = [o for o in ops if pred(o)]
        if len(cand) < len(ops):
            trials += 1
            if fails(cand):
                ops = cand
    # cut everything after the first save that shows it
    for k in range(1, len(ops)):
        if ops[k - 1]["op"] == "save":
            trials += 1
            if fails(ops[:k]):
                ops = ops[:k]
                break
    i = len(ops) - 1
    while i >= 0 and trials < max_trials:
        cand = ops[:i] + ops[i + 1:]
        trials += 1
        if fails(cand):
            ops = cand
        i -= 1
    return ops


def probe_fixed(env):
    """which `update_retriever_length` does the code under test have? (behavioural probe: grow, save, shrink, save)"""
    env.settings.ALLOW_DIRTY_RETRIEVER_OVERWRITE = False
    s = env.load("base")
    tm = s.trigger_manager
    n0 = len(tm.triggers)
    tm.add_trigger("probe")
    st, _ = common.outcome(env.quiet, s.write_to_file, env.path())
    tm.remove_trigger(n0)
    st2, _ = common.outcome(env.quiet, s.write_to_file, env.path())
    return st == "ok" and st2 == "ok" and len(s.sections["Triggers"].trigger_data) == n0


def run(ctx):
    import json
    R = common.Result(
        "every manager-linked field found by walking the live _link_lists (about 350 plain fields, 12 struct lists, their record "
        "fields, 17 count fields) x both settings x seeded random histories of 2-4 saves mixing direct section edits, manager "
        "edits (setattr + public API) and grow/shrink of triggers, variables, units, terrain; observation = value in the "
        "re-loaded file (+ is_dirty). One evaluation = one (field, save) verdict of the oracle. non-trivial = the field was "
        "assigned directly or its manager value was changed in that history; distinct by (field, clause, setting, role string)")
    env = Env()
    cwd = os.getcwd()
    try:
        os.chdir(env.tmp)        # the library drops an `error_file.txt` into the working directory when a load fails
        env.build_base()
        fixed = probe_fixed(env)
        R.extra["update_retriever_length_variant"] = "repaired (grow through internal write)" if fixed else "pinned (grow through the user setter: F2)"
        R.extra["volatile_links_excluded"] = sorted(map(list, env.volatile))
        drv = ctx.driver()
        if drv is None:
            R.extra["driver"] = "unavailable (Lean build failed) - oracles only"
        rng = ctx.rng
        seen_sigs = {}
        fam_cov, fam_all = {}, set()
        shrink_budget = [ctx.budget(30, 120)]      # seconds spent on minimising failing histories
        pending = []            # cases waiting for the driver batch

        def flush():
            if drv is None or not pending:
                pending.clear()
                return
            import time
            cmds = [c for cs in pending for c in cs.cmds]
            t0 = time.time()
            out = drv.batch(cmds)
            R.extra["driver_s"] = round(R.extra.get("driver_s", 0) + time.time() - t0, 2)
            R.extra["driver_lines"] = R.extra.get("driver_lines", 0) + len(cmds)
            k = 0
            for cs in pending:
                n = len(cs.cmds)
                bad = None
                for cmd, o, x in zip(cs.cmds, out[k:k + n], cs.expect):
                    if x.endswith("dirty=?"):
                        o, x = o.rsplit(" ", 1)[0], x.rsplit(" ", 1)[0]
                    if o != x:
                        w = cmd.split(" ")
                        fkey = f"{w[1]}[{w[2]}].{w[3]}" if w[0] == "rget" else (w[1] if len(w) > 1 else "")
                        if fkey in cs.vkeys:
                            continue                    # the oracle already reports this very field in this history
                        bad = (cmd, o, x)
                        break
                k += n
                if bad is None:
                    R.traces += 1
                else:
                    R.mismatch(f"{bad[0]} (allow={int(cs.allow)}, source={cs.source})",
                               {"allow": int(cs.allow), "source": cs.source, "ops": cs.ops}, impl=bad[2], model=bad[1])
            pending.clear()

        def account(cs, label):
            for t in cs.tags:
                if isinstance(t, tuple):
                    _, key, clause, nontriv = t
                    role = cs.roles.get(key, "")
                    fam = key if "[" not in key else key.split("[")[0] + "[]" + key.split("]", 1)[1]
                    R.case(key=(fam, clause, int(cs.allow), role), nontrivial=nontriv,
                           tags=(clause, f"allow={int(cs.allow)}"),
                           sample={"field": key, "clause": clause, "allow": int(cs.allow), "history": role} if nontriv else None)
                else:
                    R.dist[t.split(":ValueError")[0][:60]] += 1
            for t in cs.tags:
                if isinstance(t, tuple) and t[3]:
                    fam = t[1] if "[" not in t[1] else t[1].split("[")[0] + "[]" + t[1].split("]", 1)[1]
                    fam_cov.setdefault((t[2], int(cs.allow)), set()).add(fam)
                if isinstance(t, tuple):
                    fam_all.add(t[1] if "[" not in t[1] else t[1].split("[")[0] + "[]" + t[1].split("]", 1)[1])
            R.dist["cases"] += 1
            R.dist[f"source={cs.source}"] += 1
            for sig, what in cs.violations:
                sk = sigkey(sig)
                if sk in seen_sigs:
                    seen_sigs[sk]["count"] += 1
                    continue
                import time
                t0 = time.time()
                if shrink_budget[0] > 0 and len(seen_sigs) < 8:
                    small = shrink(env, cs.allow, cs.source, fixed, cs.ops, sk, vkey=what.split(":")[0])
                    c2 = run_ops(env, cs.allow, cs.source, fixed, small)
                    what2 = next((w for s, w in c2.violations if sigkey(s) == sk), what)
                else:
                    small, what2 = cs.ops, what
                shrink_budget[0] -= time.time() - t0
                seen_sigs[sk] = {"signature": sig, "what": what2, "count": 1,
                                 "replay": {"allow": int(cs.allow), "source": cs.source, "ops": small, "found_by": label}}
            if cs.reload_diffs:
                R.extra.setdefault("unexplained_reload_differences", []).extend(cs.reload_diffs[:2])
            pending.append(cs)
            if sum(len(c.cmds) for c in pending) > 150000:
                flush()

        # 1. corpus / replay first
        for i, c in enumerate(ctx.corpus()):
            rp = c.get("replay", c)
            if "ops" not in rp:
                continue
            cs = run_ops(env, rp.get("allow", 0), rp.get("source", "base"), fixed, rp["ops"])
            account(cs, f"corpus[{i}]")
        # 2. directed histories: the clauses on single fields, both settings
        for allow in (0, 1):
            for ops in directed_histories():
                cs = run_ops(env, allow, "base", fixed, ops)
                account(cs, "directed")
        # 2a. sweeps: EVERY field is assigned directly and every manager value is changed, both settings, with and
        #     without the fields that dictate the shape of the file (the latter sweep is observed through the file)
        for allow in (0, 1):
            for allow_shape in (False, True):
                cs = Case(env, allow, "base", fixed)
                for inten in ((1.0, 1.0), (0.0, 1.0), (0.5, 0.5)):
                    if not cs.ended:
                        gen_phase(cs, rng, inten, allow_shape)
                account(cs, "sweep")
        # 2b. links whose manager attribute cannot be read without changing it (UnitManager.next_unit_id on the pinned
        #     tree): only the clause that does not need the manager's value - setting off, the user's value is saved
        for (cls, attr) in sorted(env.volatile):
            env.settings.ALLOW_DIRTY_RETRIEVER_OVERWRITE = False
            scn = env.load("base")
            W = walk_scenario(scn, env.volatile, read=True)
            for kind, p in W.prog:
                if kind == "plain" and p.volatile and p.attr == attr:
                    dt = p.container.retriever_map[p.rname].datatype
                    v = alt_value(dt, getattr(p.container, p.rname), rng)
                    setattr(p.container, p.rname, v)
                    fn = env.path()
                    st, _ = common.outcome(env.quiet, scn.write_to_file, fn)
                    st2, s2 = common.outcome(env.quiet, env.Scn.from_file, fn)
                    got = None
                    if st == "ok" and st2 == "ok":
                        c2, r2 = Case._resolve(s2.sections, p.key)
                        got = getattr(c2, r2)
                    d = getattr(p.container.retriever_map[p.rname], "is_dirty", None)
                    R.case(key=(p.key, "user_value_saved", 0, "volatile"), nontrivial=True, tags=("volatile-link",))
                    if st != "ok" or st2 != "ok" or canon(got, dt) != canon(v, dt) or d is False:
                        R.violation({"clause": "user_value_saved", "field_kind": "plain", "link": "volatile"},
                                    f"{p.key}: directly assigned {v!r}, file has {got!r} (save {st}, reload {st2}, is_dirty={d})",
                                    {"allow": 0, "source": "base", "ops": [{"op": "user", "key": p.key, "val": enc(v)}, {"op": "save"}]})
        # 3. seeded random histories
        ncases = ctx.budget(150, 2400)
        ndefault = ctx.budget(2, 12)
        for i in range(ncases):
            allow = i % 2
            source = "default" if i < ndefault else "base"
            cs = Case(env, allow, source, fixed)
            inten = rng.choice([(0.02, 0.02), (0.1, 0.1), (0.3, 0.1), (0.1, 0.3), (0.3, 0.3), (0.0, 0.2), (0.2, 0.0)])
            allow_shape = rng.random() < 0.12
            if source == "default":
                cs.apply({"op": "api", "what": "map_size", "n": rng.choice([2, 3])})
            for _ in range(rng.randrange(2, 5)):
                if cs.ended:
                    break
                gen_phase(cs, rng, inten, allow_shape)
            if cs.ended and cs.ended.startswith("unmodelled"):
                R.dist["unmodelled"] += 1
                R.extra.setdefault("unmodelled", []).append(cs.ended)
            account(cs, f"random[{i}]")
        flush()
        R.extra["field_families"] = len(fam_all)
        R.extra["field_families_nontrivial_per_clause_and_setting"] = {f"{c}/allow={a}": len(v) for (c, a), v in sorted(fam_cov.items())}
        for sk, v in seen_sigs.items():
            R.violation(v["signature"], f"{v['what']}  [{v['count']} occurrence(s)]", v["replay"])
        # a refresh expression the commit-program model cannot express ends a case without a verdict: that is a gap between
        # model and code (never silence) - reported as a broken correspondence, once per distinct reason
        for reason in sorted(set(R.extra.get("unmodelled", [])))[:5]:
            R.mismatch("the commit program of the code under test contains a step the model does not understand: " + reason,
                       {"op": "unmodelled", "reason": reason, "cases_without_verdict": R.dist.get("unmodelled", 0)})
    finally:
        os.chdir(cwd)
        env.settings.ALLOW_DIRTY_RETRIEVER_OVERWRITE = False
        env.close()
    return R.to_json(exhaustive=False)


def directed_histories():
    """small fixed histories: each clause on representative fields (both settings are applied by the caller)"""
    H = []
    sv = {"op": "save"}
    # a plain option field: user value vs manager value, two saves
    H.append([{"op": "mset", "slot": "Option.lock_teams", "val": True}, {"op": "user", "key": "Diplomacy.lock_teams", "val": 3}, sv,
              {"op": "mset", "slot": "Option.lock_teams", "val": False}, sv])
    # a field written by two managers (Map, then Option)
    H.append([{"op": "mset", "slot": "Option.collide_and_correct", "val": False}, sv,
              {"op": "user", "key": "Map.collide_and_correct", "val": 2}, sv, sv])
    # strings of the message manager
    H.append([{"op": "mset", "slot": "Message.instructions", "val": "from manager"},
              {"op": "user", "key": "Messages.ascii_hints", "val": "direct"}, sv,
              {"op": "mset", "slot": "Message.hints", "val": "manager hints"}, sv])
    # grow, save, shrink, save (F2) - triggers, variables, units
    H.append([{"op": "api", "what": "add_trigger", "name": "g1"}, {"op": "api", "what": "add_trigger", "name": "g2"},
              {"op": "api", "what": "add_trigger", "name": "g3"}, sv,
              {"op": "api", "what": "remove_trigger", "i": 4}, {"op": "api", "what": "remove_trigger", "i": 3}, sv])
    H.append([{"op": "api", "what": "add_variable", "name": "g", "id": 9}, sv, {"op": "api", "what": "remove_variable", "i": 2}, sv])
    H.append([{"op": "api", "what": "add_unit", "player": 1, "const": 4, "x": 0.5, "y": 0.5}, sv,
              {"op": "api", "what": "remove_unit", "player": 1, "i": 2}, {"op": "api", "what": "remove_unit", "player": 1, "i": 0}, sv])
    H.append([{"op": "api", "what": "map_size", "n": 3}, sv, {"op": "api", "what": "map_size", "n": 1}, sv])
    # shrink first (cut through the internal write), then grow
    H.append([{"op": "api", "what": "remove_trigger", "i": 0}, sv, {"op": "api", "what": "add_trigger", "name": "again"}, sv])
    # a field inside a struct of a list, user versus manager
    H.append([{"op": "urec", "list": "Triggers.trigger_data", "i": 1, "f": "trigger_name", "val": "direct name"},
              {"op": "mrec", "list": "Triggers.trigger_data", "i": 1, "attr": "name", "f": "trigger_name", "val": "manager name"}, sv,
              {"op": "mrec", "list": "Triggers.trigger_data", "i": 0, "attr": "name", "f": "trigger_name", "val": "other"}, sv])
    # the user assigns a struct list directly, the manager has more objects
    H.append([{"op": "ulist", "list": "Triggers.variable_data", "keep": [0]}, sv])
    H.append([{"op": "ulist", "list": "Triggers.trigger_data", "keep": [1, 0]}, {"op": "api", "what": "remove_trigger", "i": 1}, sv])
    # count fields written directly
    H.append([{"op": "user", "key": "Triggers.number_of_variables", "val": 1}, sv])
    H.append([{"op": "user", "key": "Units.players_units[1].unit_count", "val": 1}, sv,
              {"op": "api", "what": "add_unit", "player": 1, "const": 4, "x": 0.5, "y": 0.5}, sv])
    H.append([{"op": "unknown", "section": "Map", "name": "no_such_retriever", "val": 7}, sv])
    # a list of ANOTHER LENGTH written directly into a counted field whose own commit refreshes its counter
    H.append([{"op": "user", "key": "Options.disabled_tech_ids_player_1", "val": [11, 12, 13]}, sv,
              {"op": "user", "key": "Options.disabled_unit_ids_player_1", "val": [4, 5]},
              {"op": "user", "key": "Options.disabled_building_ids_player_1", "val": [70]}, sv])
    H.append([{"op": "user", "key": "Map.script_name", "val": "direct.xs"}, sv, sv])
    # a count the user pinned in ONE section does not stop the untouched copies of that count elsewhere from following the manager
    H.append([{"op": "user", "key": "FileHeader.trigger_count", "val": 7}, {"op": "api", "what": "add_trigger", "name": "p1"},
              {"op": "api", "what": "add_trigger", "name": "p2"}, sv, {"op": "api", "what": "remove_trigger", "i": 0}, sv])
    H.append([{"op": "user", "key": "Options.number_of_triggers", "val": 9}, {"op": "api", "what": "add_trigger", "name": "p1"}, sv, sv])
    return H
