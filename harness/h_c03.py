"""C03 – what you set is what you get after save and reload.

Per version: seeded random edit histories over all managers (harness/histories.py) with saves at arbitrary points. At each
save the observable manager state is dumped (triggers/effects/conditions/orders/variables, units per owner, terrain + size,
the nine players' attributes, messages, options, script name; floats at 32-bit precision), the file is re-loaded in the same
process (same version) and the dump of the re-loaded managers must be EQUAL (oracle = the property itself).
The saved file is also decoded by the generated Lean reader (well-formed, consistent) and the model's `construct` side of the
manager model is compared where available.
"""
import os, random, shutil, tempfile, json
from harness import common, codec_common as cc, bases, vworker, histories, mgrtrace, players_tie

RULE = ("per version: seeded random histories over all public manager operations (in-domain arguments) with 2-3 saves each; at every "
        "save dump(managers) == dump(reload(saved file)); non-trivial = a save preceded by at least 3 recorded operations; "
        "distinct by (version, history seed, save index)")


def worker(version, args):
    common.lib_setup(xs_check=True)
    from AoE2ScenarioParser.scenarios.aoe2_de_scenario import AoE2DEScenario
    R = common.Result(RULE); R.export_keys = True
    drv = common.Driver(args["driver"]) if args.get("driver") else None
    tmp = tempfile.mkdtemp(prefix="c03_")
    try:
        base = bases.base_file(version, args.get("driver"))
        smalls = histories.small_bases(version, base, tmp, cc.quiet)
        cmds, expect, m4 = [f"table {version}"], [], []
        for h in range(args["nhist"]):
            hseed = f"C03:{args['seed']}:{version}:{h}"
            rng = random.Random(hseed)
            with cc.quiet():
                scn = AoE2DEScenario.from_file(smalls[h % len(smalls)])
            H = histories.History(scn, rng, version)
            for sidx in range(rng.randint(1, 3)):
                n0 = len(H.ops)
                with cc.quiet():
                    for _ in range(rng.randint(3, args["seglen"])):
                        st, e = common.outcome(H.step)
                fn = os.path.join(tmp, f"h{h}_{sidx}.aoe2scenario")
                with cc.quiet():
                    d1 = histories.dump_managers(scn)
                    st, e = common.outcome(mgrtrace.save_traced, scn, fn)
                traced = e if st == "ok" else None
                replay = {"version": version, "history_seed": hseed, "save_index": sidx, "nops": len(H.ops), "ops": H.ops[-40:]}
                key = f"{h}:{sidx}"
                if st != "ok":
                    R.case(key=key, nontrivial=True, tags=("save:raises",))
                    continue                                   # C04 reports saves that raise
                with cc.quiet():
                    d_after = histories.dump_managers(scn)     # saving must not change the managers either
                    st2, lt = common.outcome(mgrtrace.load_traced, fn)
                scn2, pulled = (lt if st2 == "ok" else (lt, None))
                if st2 != "ok":
                    R.case(key=key, nontrivial=True, tags=("reload:raises",))
                    R.violation({"kind": "reload-raises", "error": scn2}, f"the saved file cannot be loaded again ({scn2}): nothing of what was set comes back", replay)
                    continue
                with cc.quiet():
                    d2 = histories.dump_managers(scn2)
                del scn2
                R.case(key=key, nontrivial=len(H.ops) - n0 >= 3, tags=("save",),
                       sample={"version": version, "ops": H.ops[-5:], "triggers": len(d1["triggers"]), "units": sum(len(x) for x in d1["units"])} if len(R.samples) < 2 else None)
                hooked = getattr(H, "_hooked", False)      # an on-write hook edits the managers during the save: it is part of it
                df = histories.diff_dumps(d_after if hooked else d1, d2)
                if df:
                    path = df[0]
                    import re
                    gen = re.sub(r"\[\d+\]", "[]", path)
                    R.violation({"kind": "reload-differs", "where": gen},
                                f"after save+reload {path} is {df[2]!r}, it was {df[1]!r} in memory at the moment of the save" + (" (after the on-write hook of this scenario ran)" if hooked else ""), {**replay, "path": path, "memory": df[1], "reloaded": df[2]})
                df2 = None if hooked else histories.diff_dumps(d1, d_after)
                if df2 and not (df2[0].startswith(".units") and False):
                    R.violation({"kind": "save-changes-managers", "where": df2[0].split("[")[0]},
                                f"saving changed the in-memory manager state at {df2[0]}: {df2[1]!r} -> {df2[2]!r}", {**replay, "path": df2[0]})
                # the Lean reader on the saved file
                raw = open(fn, "rb").read()
                os.remove(fn)
                if drv:
                    o = drv.batch([f"table {version}", "hdr " + cc.hexd(raw)])
                    if o[1].startswith("ok"):
                        n = int(o[1].split("consumed=")[1])
                        body = cc.inflate(raw[n:])
                        # M4: commit engine must predict the file; construct engine must predict the constructors' inputs
                        if traced and traced[0] is not None:
                            cmds += ["settree " + traced[0], "commit " + traced[1], "ser"]
                            m4.append(("commit", len(cmds) - 1, (raw[:n], body), replay))
                        cmds += ["hdr " + cc.hexd(raw), "body " + cc.hexd(body)]
                        expect.append((len(cmds) - 1, replay))
                        if pulled is not None:
                            cmds += ["construct"]
                            m4.append(("construct", len(cmds) - 1, pulled, replay))
            for k, v in H.counts.items():
                R.dist["op:" + k] += v
            del scn
        if drv and expect:
            out = drv.batch(cmds)
            for idx, replay in expect:
                if not out[idx].startswith("ok rest=0 eof=[] consistent=true"):
                    R.mismatch("saved file is not well-formed for the Lean reader (see C04)", replay, model=out[idx][:80])
                else:
                    R.traces += 1
            for kind, idx, want, replay in m4:
                R.dist["m4:" + kind] += 1
                if kind == "commit":
                    o = out[idx]
                    ok_ = o.startswith("ok") and tuple(cc.unhexd(x.split("=", 1)[1]) for x in o.split()[1:]) == want
                    if not ok_:
                        R.mismatch("Lean commit engine predicts a different file than the library wrote (" + out[idx - 1][:40] + ")", replay)
                    else:
                        R.traces += 1
                else:
                    if out[idx] != want:
                        R.mismatch("Lean construct engine hands the managers different values than the library pulled", {**replay, "diff": cc.first_diff(want, out[idx])})
                    else:
                        R.traces += 1
        # the per-player lists of PlayerManager (Aoe.Model.Players / Aoe.Props.Hooks) vs player_manager.py
        if drv:
            with cc.quiet():
                scn = AoE2DEScenario.from_file(base)
            players_tie.run(R, drv, scn, random.Random(f"C03:players:{args['seed']}:{version}"), args.get("nplayers", 12), version)
    finally:
        shutil.rmtree(tmp, ignore_errors=True)
    return R.to_json()


def run(ctx):
    R = common.Result(RULE)
    vs = bases.versions()
    args = {"seed": ctx.seed, "driver": ctx.driver_path, "nhist": ctx.budget(10, 80), "seglen": 10 if ctx.quick else 25, "nplayers": ctx.budget(12, 60)}
    per = vworker.run_versions("h_c03", "worker", vs, args)
    cc.merge_results(R, per, "C03")
    R.extra["versions"] = vs
    return R.to_json()
