"""C04 – every file the library writes is well-formed.

Per version: random edit histories (harness/histories.py) on a base scenario with SEVERAL saves of the same scenario object
(additions and removals in between). Every written file is handed to the independent reader (the Lean decoder generated from
structure.json): it must decode with no bytes missing or left over, be `Consistent` (every stored count/length equals the number
of stored elements, optional blocks as the trigger version dictates, string prefixes), the three trigger counts must agree with
the trigger list, and the library itself must be able to re-load it.
"""
import os, random, shutil, tempfile, json
from harness import common, codec_common as cc, bases, vworker, histories, mgrtrace

RULE = ("per version: seeded random edit histories over all managers with 2-4 saves of one scenario object; every saved file decoded "
        "by the generated Lean reader + re-loaded by the library; non-trivial = a save after at least one structural change "
        "(list grown or shrunk since the previous save); distinct by (version, history seed, save index)")


def name_index(version):
    st = json.load(open(os.path.join(bases.VDIR, "v" + version, "structure.json")))
    secs = list(st.keys())
    idx = {}
    for si, sn in enumerate(secs):
        for fi, fn in enumerate(st[sn]["retrievers"].keys()):
            idx[(sn, fn)] = ("h" if si == 0 else f"b.{si - 1}") + f".{fi}"
    return idx


def probe_histories():
    """minimal past failures (corpus) expressed as scripted histories; always run first"""
    return [
        {"name": "two-new-effects", "steps": [("trigger", 1, 2, 1), ("save",)]},
        {"name": "grow-save-shrink-save", "steps": [("trigger", 3, 0, 0), ("save",), ("remove_triggers", 2), ("save",)]},
        {"name": "units-grow-shrink", "steps": [("units", 4), ("save",), ("remove_units", 3), ("save",)]},
        {"name": "variables", "steps": [("variables", 3), ("save",), ("trigger", 1, 1, 0), ("save",)]},
        {"name": "aa-effect-without-pair", "steps": [("aa_effect",), ("save",)]},
        # a save that fails half-way (an effect message that is no string), the mistake corrected, a second save: the second
        # file has to be well-formed although part of the first commit had already happened
        {"name": "failed-save-then-corrected", "steps": [("trigger", 1, 1, 1), ("break_message",), ("failing_save",), ("fix_message",), ("save",)]},
        {"name": "grow-failed-save-corrected", "steps": [("trigger", 2, 1, 0), ("save",), ("trigger", 1, 2, 0), ("break_message",), ("failing_save",),
                                                          ("fix_message",), ("save",)]},
        # a save that fails while the SECTIONS are serialised (a unit id that does not fit its field), onto a fresh path and
        # onto an earlier good file: whatever is at the destination afterwards has to be a well-formed file
        {"name": "serialisation-fails-fresh-path", "steps": [("units", 2), ("break_unit",), ("failing_save",), ("fix_unit",), ("save",)]},
        {"name": "serialisation-fails-over-good-file", "steps": [("units", 2), ("break_unit",), ("failing_save_over",), ("fix_unit",), ("save",)]},
    ]


def check_file(R, drv, version, fn, idx, scn_state, replay, nontrivial, key):
    """decode with the model + re-load with the library; returns True if well-formed"""
    from AoE2ScenarioParser.scenarios.aoe2_de_scenario import AoE2DEScenario
    raw = open(fn, "rb").read()
    ok = True
    why = None
    if drv:
        o = drv.batch([f"table {version}", "hdr " + cc.hexd(raw)])
        if not o[1].startswith("ok"):
            ok, why = False, f"header undecodable: {o[1]}"
        else:
            n = int(o[1].split("consumed=")[1])
            try:
                body = cc.inflate(raw[n:])
            except Exception as e:
                body, ok, why = None, False, f"body not inflatable: {e}"
            if body is not None:
                q = [f"table {version}", "hdr " + cc.hexd(raw), "body " + cc.hexd(body), "whybad"]
                for k in (("FileHeader", "trigger_count"), ("Options", "number_of_triggers"), ("Triggers", "number_of_triggers"), ("Triggers", "trigger_data")):
                    q.append("get " + idx[k])
                o = drv.batch(q)
                if not o[2].startswith("ok"):
                    ok, why = False, f"independent reader fails: {o[2]}"
                elif not o[2].startswith("ok rest=0 eof=[] consistent=true"):
                    ok, why = False, f"decoded but not well-formed: {o[2]} first-bad={o[3]}"
                else:
                    ntrig = o[7].count("{") and len(_top_split(o[7]))
                    counts = [o[4], o[5], o[6]]
                    if not all(c == f"i{ntrig}" for c in counts):
                        ok, why = False, f"trigger counts {counts} vs {ntrig} stored triggers"
    with cc.quiet():
        st, r = common.outcome(AoE2DEScenario.from_file, fn)
    if st != "ok":
        ok, why = False, (why + "; " if why else "") + f"library cannot re-load its own file ({r})"
    else:
        del r
    R.case(key=key, nontrivial=nontrivial, tags=("save:" + ("ok" if ok else "bad"),), sample=replay if len(R.samples) < 3 else None)
    if not ok and scn_state is not None:
        ua = histories.unset_aa_effects(scn_state)
        if ua:
            R.violation({"kind": "aa-effect-without-pair"}, "an armour/attack effect created without class and amount is written without its quantity field: " + why,
                        {**replay, "unset_aa_effects": ua[:5]})
            return False
    if not ok:
        kind = "undecodable" if ("reader fails" in why or "undecodable" in why) else "counts" if "counts" in why else "not-wellformed" if "well-formed" in why else "reload"
        R.violation({"kind": kind, "history": replay.get("probe", "random")}, why, replay)
    elif drv:
        R.traces += 1
    return ok


def _top_split(s):
    """top-level elements of a canonical list text `[a,b,...]`"""
    s = s.strip()
    if s in ("[]", ""):
        return []
    out, depth, cur = [], 0, ""
    for ch in s[1:-1]:
        if ch in "[{":
            depth += 1
        elif ch in "]}":
            depth -= 1
        if ch == "," and depth == 0:
            out.append(cur); cur = ""
        else:
            cur += ch
    out.append(cur)
    return out


def worker(version, args):
    common.lib_setup(xs_check=True)
    from AoE2ScenarioParser.scenarios.aoe2_de_scenario import AoE2DEScenario
    R = common.Result(RULE); R.export_keys = True
    drv = common.Driver(args["driver"]) if args.get("driver") else None
    idx = name_index(version)
    tmp = tempfile.mkdtemp(prefix="c04_")
    try:
        base = bases.base_file(version, args.get("driver"))
        # small bases (map 4x4) so that saves are fast; for v1.54 also at trigger version 4.0
        smalls = histories.small_bases(version, base, tmp, cc.quiet)
        small = smalls[0]
        pick = [0]

        def fresh():
            pick[0] += 1
            with cc.quiet():
                return AoE2DEScenario.from_file(smalls[pick[0] % len(smalls)])

        # ---- corpus / probes ---------------------------------------------------------------------------
        for pr in probe_histories():
            scn = fresh()
            nsave = 0
            for stp in pr["steps"]:
                with cc.quiet():
                    if stp[0] == "trigger":
                        for i in range(stp[1]):
                            t = scn.trigger_manager.add_trigger(f"p{i}")
                            for _ in range(stp[2]):
                                t.new_effect.send_chat(source_player=1, message="hi")
                            for _ in range(stp[3]):
                                t.new_condition.timer(timer=3)
                    elif stp[0] == "aa_effect":
                        from AoE2ScenarioParser.datasets import effects as _eff
                        if 78 not in _eff.default_attributes:      # CREATE_OBJECT_ARMOR exists from 1.51 on
                            break
                        t = scn.trigger_manager.add_trigger("aa")
                        t.new_effect.create_object_armor()      # the effects.json defaults of 77/78 are the `[]` sentinels
                    elif stp[0] == "remove_triggers":
                        for _ in range(stp[1]):
                            scn.trigger_manager.remove_trigger(len(scn.trigger_manager.triggers) - 1)
                    elif stp[0] == "units":
                        for i in range(stp[1]):
                            scn.unit_manager.add_unit(player=1 + i % 2, unit_const=4, x=1.5, y=1.5)
                    elif stp[0] == "remove_units":
                        for _ in range(stp[1]):
                            us = [u for l in scn.unit_manager.units for u in l]
                            scn.unit_manager.remove_unit(unit=us[-1])
                    elif stp[0] == "variables":
                        for i in range(stp[1]):
                            scn.trigger_manager.add_variable(f"v{i}", i)
                    elif stp[0] == "break_message":
                        scn.trigger_manager.triggers[-1].effects[-1].message = 12345
                    elif stp[0] == "fix_message":
                        scn.trigger_manager.triggers[-1].effects[-1].message = "fixed"
                    elif stp[0] == "break_unit":
                        [u for l in scn.unit_manager.units for u in l][-1].reference_id = 2 ** 40
                    elif stp[0] == "fix_unit":
                        [u for l in scn.unit_manager.units for u in l][-1].reference_id = 77
                    elif stp[0] in ("failing_save", "failing_save_over"):
                        fnx = os.path.join(tmp, f"probe_{pr['name']}_fail.aoe2scenario")
                        if stp[0] == "failing_save_over":
                            shutil.copyfile(small, fnx)                  # an earlier good file at the destination
                        stx, ex = common.outcome(scn.write_to_file, fnx)          # expected to raise
                        if os.path.exists(fnx):
                            # whatever a save leaves at its destination - also one that raised - is a file the library wrote
                            replay_f = {"version": version, "probe": pr["name"], "steps": pr["steps"], "failed_save": True,
                                        "save_outcome": stx if stx == "ok" else ex, "bytes": os.path.getsize(fnx)}
                            check_file(R, drv, version, fnx, idx, None, replay_f, True, f"probe:{pr['name']}:failed-save-left-a-file")
                            os.remove(fnx)
                    elif stp[0] == "save":
                        fn = os.path.join(tmp, f"probe_{pr['name']}_{nsave}.aoe2scenario")
                        st, e = common.outcome(scn.write_to_file, fn)
                        replay = {"version": version, "probe": pr["name"], "steps": pr["steps"], "save_index": nsave}
                        if st != "ok":
                            R.case(key=f"probe:{pr['name']}:{nsave}", nontrivial=True, tags=("save:raises",))
                            R.violation({"kind": "save-raises", "history": pr["name"]}, f"save raises {e} in an in-domain history", replay)
                        else:
                            check_file(R, drv, version, fn, idx, scn, replay, True, f"probe:{pr['name']}:{nsave}")
                            os.remove(fn)
                        nsave += 1
            del scn
        # ---- random histories -------------------------------------------------------------------------
        m4_cmds, m4_expect = [f"table {version}"], []
        for h in range(args["nhist"]):
            hseed = f"C04:{args['seed']}:{version}:{h}"
            rng = random.Random(hseed)
            scn = fresh()
            H = histories.History(scn, rng, version)
            nsaves = rng.randint(2, 4)
            for sidx in range(nsaves):
                before = (len(scn.trigger_manager.triggers), sum(len(l) for l in scn.unit_manager.units), len(scn.trigger_manager.variables), scn.map_manager.map_size)
                with cc.quiet():
                    for _ in range(rng.randint(2, args["seglen"])):
                        st, e = common.outcome(H.step)
                        if st != "ok":
                            H.ops.append(["<op raised>", e])
                after = (len(scn.trigger_manager.triggers), sum(len(l) for l in scn.unit_manager.units), len(scn.trigger_manager.variables), scn.map_manager.map_size)
                fn = os.path.join(tmp, f"h{h}_{sidx}.aoe2scenario")
                with cc.quiet():
                    st, e = common.outcome(mgrtrace.save_traced, scn, fn)
                replay = {"version": version, "history_seed": hseed, "save_index": sidx, "ops": H.ops[-40:], "nops": len(H.ops)}
                if st == "ok" and drv and e[0] is not None:
                    # M4 correspondence: the Lean commit engine, given the sections as they were when the commit started and the
                    # values the managers pushed, must produce exactly the file the library wrote
                    raw_ = open(fn, "rb").read()
                    hl_ = len(scn.sections["FileHeader"].get_data_as_bytes())      # length of the header as just written
                    m4_cmds += ["settree " + e[0], "commit " + e[1], "ser"]
                    m4_expect.append((len(m4_cmds) - 1, raw_[:hl_], cc.inflate(raw_[hl_:]), replay))
                for k, v in H.counts.items():
                    R.dist["op:" + k] += 0
                if st != "ok":
                    R.case(key=f"{h}:{sidx}", nontrivial=True, tags=("save:raises",))
                    R.violation({"kind": "save-raises", "history": "random", "error": e}, f"save raises {e} in an in-domain history", replay)
                    break
                good = check_file(R, drv, version, fn, idx, scn, replay, before != after, f"{h}:{sidx}")
                os.remove(fn)
                if not good:
                    break
            for k, v in H.counts.items():
                R.dist["op:" + k] += v
            del scn
        if drv and m4_expect:
            out = drv.batch(m4_cmds)
            for ix, h_, b_, replay in m4_expect:
                o = out[ix]
                R.dist["m4:commit-compared"] += 1
                if not o.startswith("ok"):
                    R.mismatch("Lean commit engine fails where the library saved: " + out[ix - 1][:60] + " / " + o[:60], replay)
                    continue
                mh, mb = [cc.unhexd(x.split("=", 1)[1]) for x in o.split()[1:]]
                if (mh, mb) != (h_, b_):
                    pos = next((k for k in range(min(len(mb), len(b_))) if mb[k] != b_[k]), min(len(mb), len(b_)))
                    R.mismatch(f"Lean commit engine predicts a different file (header equal: {mh == h_}, body {len(b_)} vs {len(mb)} bytes, first difference at {pos})", replay)
                else:
                    R.traces += 1
    finally:
        shutil.rmtree(tmp, ignore_errors=True)
    return R.to_json()


def run(ctx):
    R = common.Result(RULE)
    vs = bases.versions()
    args = {"seed": ctx.seed, "driver": ctx.driver_path, "nhist": ctx.budget(12, 80), "seglen": 8 if ctx.quick else 14}
    per = vworker.run_versions("h_c04", "worker", vs, args)
    cc.merge_results(R, per, "C04")
    R.extra["versions"] = vs
    return R.to_json()
