"""C12 – unrepresentable values are rejected, never silently corrupted.

Per version (one subprocess each): a small working scenario (map 4x4, one trigger with one effect and one condition, a unit,
a variable) is loaded; for sampled integer- and string-typed retrievers (top level and inside structs) a value at / beyond the
field's limits is written, the scenario is saved and – when the save succeeds – re-loaded.
Oracle (property text, independent of the model): unrepresentable -> the save raises; representable -> the save succeeds and
the re-loaded value equals the written one. Correspondence: the Lean encoder, given the same edit, must accept/reject alike.
"""
import os, random, shutil, tempfile
from harness import common, codec_common as cc, bases, vworker

RULE = ("per version: every sampled int/str/fixed-char retriever of a small working scenario x values at and beyond the limits "
        "(min-1, min, max, max+1, huge; strings at the length-prefix limit, multi-byte strings, fixed-width strings at n / n+1 bytes); "
        "non-trivial = a value at or beyond a limit; distinct by (version, retriever path, value class)")


def leaf_paths(scn):
    """[(positional path for the driver, accessor (get,set), retriever)] for every leaf retriever; struct lists: first element"""
    out = []

    def walk(sec, ppath, getter_chain):
        for fi, (name, r) in enumerate(sec.retriever_map.items()):
            if name == "__END_OF_FILE_MARK__":
                continue
            if r.datatype.type == "struct":
                if isinstance(r.data, list) and r.data:
                    walk(r.data[0], f"{ppath}.{fi}[0]", getter_chain + [(name, 0)])
                continue
            out.append((f"{ppath}.{fi}", sec, name, r, getter_chain + [(name, None)]))
    secs = list(scn.sections.values())
    walk(secs[0], "h", [("FileHeader", None)])
    for si, s in enumerate(secs[1:]):
        walk(s, f"b.{si}", [(s.name, None)])
    return out


def representable(r, v, no_trail):
    t, n = r.datatype.type, r.datatype.length
    if t in ("u", "s"):
        bits = 8 * n
        lo, hi = (-(1 << (bits - 1)), (1 << (bits - 1)) - 1) if t == "s" else (0, (1 << bits) - 1)
        return lo <= v <= hi
    if t == "str":
        b = v.encode("utf-8")
        if r.name not in no_trail and not b.endswith(b"\0"):
            b += b"\0"
        return len(b) < (1 << (8 * n - 1))
    if t == "c":
        return len(v.encode("utf-8")) <= n
    raise ValueError(t)


def worker(version, args):
    common.lib_setup(xs_check=True)
    from AoE2ScenarioParser.scenarios.aoe2_de_scenario import AoE2DEScenario
    from AoE2ScenarioParser.helper.bytes_conversions import _no_string_trail
    rng = random.Random(f"C12:{args['seed']}:{version}")
    R = common.Result(RULE); R.export_keys = True
    drv = common.Driver(args["driver"]) if args.get("driver") else None
    tmp = tempfile.mkdtemp(prefix="c12_")
    try:
        base = bases.base_file(version, args.get("driver"))
        with cc.quiet():
            scn = AoE2DEScenario.from_file(base)
            scn.map_manager.map_size = 4
            T = scn.sections["Triggers"]
            has_redacted = "redacted" in T.retriever_map
            if has_redacted:                       # defect F3 dodge, see BUILDING.md
                T.trigger_version = 4.0
                T.redacted = bytes(16)
            tr = scn.trigger_manager.add_trigger("t")
            tr.new_effect.send_chat(source_player=1, message="hello")
            tr.new_condition.timer(timer=5)
            scn.trigger_manager.add_variable("v", 3)
            scn.unit_manager.add_unit(player=1, unit_const=4, x=1.5, y=2.5)
            wd = os.path.join(tmp, "w"); os.makedirs(wd)
            work = os.path.join(wd, "work.aoe2scenario")
            scn.write_to_file(work)
            del scn
            scn = AoE2DEScenario.from_file(work)
        raw = open(work, "rb").read()
        hlen = scn.sections["FileHeader"].byte_length
        body = cc.inflate(raw[hlen:])
        paths = leaf_paths(scn)
        # retrievers that some repeat count is read from (counts, gates) are structural, not attribute values: editing one alone
        # makes the file inconsistent by construction, which is not what C12 is about
        import json as _json, re as _re
        stxt = open(os.path.join(bases.VDIR, "v" + version, "structure.json")).read()
        structural = set()
        def _scan(rec):
            for k_, r_ in rec["retrievers"].items():
                for d_ in r_.get("dependencies", {}).values():
                    for x_ in (d_ if isinstance(d_, list) else [d_]):
                        if x_.get("action") == "SET_REPEAT" and x_.get("target"):
                            for t_ in (x_["target"] if isinstance(x_["target"], list) else [x_["target"]]):
                                structural.add(t_.split(":")[1])
            for s_ in rec.get("structs", {}).values():
                _scan(s_)
        for sec_ in _json.loads(stxt).values():
            _scan(sec_)
        cand = [p for p in paths if p[3].datatype.type in ("u", "s", "str", "c") and p[2] not in structural
                and not (p[1].name == "FileHeader" and p[2] == "version")
                and not (p[1].name == "DataHeader" and p[2] == "filename")]     # the save itself sets it to the output stem
        rng.shuffle(cand)
        cand = cand[: args["nfields"]] if args["nfields"] else cand
        # always include the fixed-width string retrievers and one str16 (length-prefix limit)
        for p in paths:
            if p[3].datatype.type == "c" and p not in cand and not (p[1].name == "FileHeader" and p[2] == "version"):
                cand.append(p)
        cmds = [f"table {version}", "hdr " + cc.hexd(raw), "body " + cc.hexd(body)]
        expect = []   # (index of the 'ser' answer, impl outcome, meta)
        out_dir = os.path.join(tmp, "o"); os.makedirs(out_dir)
        for (ppath, sec, name, r, chain) in cand:
            t, n = r.datatype.type, r.datatype.length
            old = r.data
            is_list = isinstance(old, list)
            if is_list and not old:
                continue
            cur = old[0] if is_list else old
            if t in ("u", "s"):
                bits = 8 * n
                lo, hi = (-(1 << (bits - 1)), (1 << (bits - 1)) - 1) if t == "s" else (0, (1 << bits) - 1)
                vals = [("min-1", lo - 1), ("min", lo), ("max", hi), ("max+1", hi + 1), ("huge", 1 << 70), ("in", rng.randint(lo, hi))]
                vals = rng.sample(vals, args["nvals"]) if args["nvals"] < len(vals) else vals
            elif t == "str":
                trail = name not in _no_string_trail
                if n == 2:
                    L = (1 << 15)
                    vals = [("len-limit-ok", "x" * (L - 2 if trail else L - 1)), ("len-limit+1", "x" * (L - 1 if trail else L)),
                            ("multibyte-over", "é" * (L // 2)), ("multibyte", "héllo ✓")]
                else:
                    vals = [("multibyte", "日本語 ✓ text"), ("plain", "abc")]
            else:
                vals = [("ascii-n", "a" * n), ("ascii-n+1", "a" * (n + 1)), ("multibyte-fit", "é" * (n // 2)),
                        ("multibyte-chars-fit-bytes-over", "é" * (n // 2 + 1))]
                if is_list and len(old) >= 2 and n >= 12:
                    # a LATER entry that has fewer characters than the first one but more bytes than the field holds
                    vals.append(("later-entry-fewer-chars-more-bytes", "€" * (n // 3 + 1)))
            for cls, v in vals:
                pos = 1 if cls == "later-entry-fewer-chars-more-bytes" else 0
                newv = (["a" * (n - 6), v] + old[2:]) if pos == 1 else (([v] + old[1:]) if is_list else v)
                rep = representable(r, v, _no_string_trail)
                with cc.quiet():
                    setattr(sec, name, newv)
                    fn = os.path.join(out_dir, "work.aoe2scenario")
                    if os.path.exists(fn):
                        os.remove(fn)
                    st, err = common.outcome(scn.write_to_file, fn, skip_reconstruction=True, skip_validation=True)
                    r.set_data(old, affect_dirty=False) if not r.is_dirty else None
                    r.is_dirty = False; r._data = old            # restore exactly (harness-side bookkeeping)
                key = f"{ppath}:{cls}"
                R.case(key=key, nontrivial=cls not in ("in", "plain", "multibyte"), tags=(f"type:{t}{n}", f"class:{cls}", "save:" + st),
                       sample={"version": version, "retriever": f"{sec.name}.{name}", "type": f"{t}{n}", "class": cls, "save": st})
                reloaded_equal = None
                if st == "ok":
                    with cc.quiet():
                        st2, scn2 = common.outcome(cc.load_sections_only, fn, version)
                    if st2 == "ok":
                        got = scn2.sections[chain[0][0]]
                        for (nm, ix) in chain[1:]:
                            got = getattr(got, nm)
                            if ix is not None:
                                got = got[ix]
                        g = got[pos] if is_list and isinstance(got, list) else got
                        reloaded_equal = (g == v)
                        del scn2
                    else:
                        reloaded_equal = False
                sig = {"type": t, "class": cls}
                replay = {"version": version, "retriever": f"{sec.name}.{name}", "path": ppath, "type": f"{t}{n}", "class": cls,
                          "value": v if isinstance(v, int) else f"{v[:8]!r}*{len(v)}"}
                if not rep and st == "ok":
                    R.violation(sig, f"unrepresentable {cls} value written to {sec.name}.{name} ({t}{n}) is accepted by the save"
                                     f" (re-loads equal: {reloaded_equal})", replay)
                elif rep and st == "ok" and not reloaded_equal:
                    R.violation({**sig, "kind": "reload-differs"}, f"representable {cls} value of {sec.name}.{name} does not re-load equal", replay)
                elif rep and st != "ok":
                    # refusing a representable value is not what C12 forbids, but the model must agree
                    pass
                canon_v = cc.canon(newv, r)
                cmds += [f"set {ppath} {canon_v}", "ser", f"set {ppath} {cc.canon(old, r)}"]
                expect.append((len(cmds) - 2, st, replay))
        if drv:
            out = drv.batch(cmds)
            for idx, st, replay in expect:
                m = "ok" if out[idx].startswith("ok") else "error"
                if m != st:
                    R.mismatch(f"save outcome differs for {replay['retriever']} {replay['class']}", replay, impl=st, model=out[idx][:60])
                else:
                    R.traces += 1
    finally:
        shutil.rmtree(tmp, ignore_errors=True)
    return R.to_json()


def run(ctx):
    R = common.Result(RULE)
    vs = bases.versions()
    args = {"seed": ctx.seed, "driver": ctx.driver_path, "nfields": ctx.budget(60, 0) if ctx.quick else 0, "nvals": 3 if ctx.quick else 6}
    if ctx.quick:
        # quick: every version, a seeded sample of retrievers; thorough: every leaf retriever x every value class
        pass
    per = vworker.run_versions("h_c12", "worker", vs, args)
    cc.merge_results(R, per, "C12")
    R.extra["versions"] = vs
    charset_case(R)
    return R.to_json()


def charset_case(R):
    """a save that succeeds re-loads to the same strings also when the charset SETTINGS are changed at run time (whatever the
    library makes of such a change, writer and reader have to agree): one fresh process per charset"""
    import subprocess, sys, os, tempfile, json
    child = (
        "import sys, io, json, contextlib, os\n"
        "from AoE2ScenarioParser import settings\n"
        "from AoE2ScenarioParser.scenarios.aoe2_de_scenario import AoE2DEScenario\n"
        "out = {}\n"
        "with contextlib.redirect_stdout(io.StringIO()):\n"
        "    s = AoE2DEScenario.from_default()\n"
        "    settings.MAIN_CHARSET = sys.argv[2]\n"
        "    texts = ['plain ascii', 'h\\u00e9llo w\\u00f6rld', '\\u041f\\u0440\\u0438\\u0432\\u0435\\u0442']\n"
        "    s.message_manager.instructions, s.message_manager.hints, s.message_manager.victory = texts\n"
        "    t = s.trigger_manager.add_trigger(texts[2])\n"
        "    fn = os.path.join(sys.argv[1], 'charset.aoe2scenario')\n"
        "    try:\n"
        "        s.write_to_file(fn)\n"
        "        s2 = AoE2DEScenario.from_file(fn)\n"
        "        got = [s2.message_manager.instructions, s2.message_manager.hints, s2.message_manager.victory, s2.trigger_manager.triggers[-1].name]\n"
        "        out = {'save': 'ok', 'same': got == texts + [texts[2]], 'got': got}\n"
        "    except Exception as e:\n"
        "        out = {'save': 'error:' + type(e).__name__}\n"
        "sys.stderr.write('RESULT ' + json.dumps(out) + '\\n')\n")
    for cs in ("cp1251", "latin-1", "utf-16"):
        d = tempfile.mkdtemp(prefix="c12cs_")
        try:
            pr = subprocess.run([sys.executable, "-c", child, d, cs], capture_output=True, text=True, timeout=600, cwd=d,
                                env={**os.environ, "PYTHONPATH": common.REPO, "PYTHONDONTWRITEBYTECODE": "1"})
            line = next((l for l in pr.stderr.splitlines() if l.startswith("RESULT ")), None)
            res = json.loads(line[7:]) if line else {"save": "crash"}
            R.case(key=f"charset:{cs}", nontrivial=True, tags=("settings:charset-at-run-time",))
            if res.get("save") == "ok" and not res.get("same"):
                R.violation({"clause": "reload-differs", "settings": "MAIN_CHARSET changed at run time", "charset": cs},
                            f"settings.MAIN_CHARSET = {cs!r} set after import: the save succeeds but the strings re-load as {res.get('got')}",
                            {"op": "charset", "charset": cs})
        finally:
            import shutil
            shutil.rmtree(d, ignore_errors=True)
