"""Tie of the per-player list model (`Aoe.Model.Players`, theorems in `Aoe.Props.Hooks`) to player_manager.py.

`_player_attributes_to_list` is run on a real PlayerManager whose players hold seeded values (incl. `None`) for every call
site found in the source (attribute, gaia_first, default, fill_empty - read from the AST) and for random parameter
combinations; `_spread_player_attributes` is run on seeded lists. Both are compared with the Lean driver (`plist`,
`pspread`). The attribute values fed to the model are the ones `getattr(player, attribute)` returns (an
UnsupportedAttributeError counts as `None`, as in the function under test).
"""
import ast, os
from harness import common

INT_ATTRS = ["lock_personality", "food", "wood", "gold", "stone", "starting_age", "lock_civ", "population_cap", "base_priority", "allied_victory",
             "string_table_name_id", "initial_camera_x", "initial_camera_y", "initial_player_view_x", "initial_player_view_y", "color"]
G = {None: "N", True: "T", False: "F"}
LINK_PROPS = {"_allied_victories": ("allied_victory", None, 0, 8), "_starting_ages": ("starting_age", False, 2, 7),
              "_lock_civilizations": ("lock_civ", False, 0, 7), "_lock_personalities": ("lock_personality", False, 0, 7),
              "_pop_caps": ("population_cap", None, 200, 8), "_base_priorities": ("base_priority", None, 0, 0),
              "_string_table_player_names": ("string_table_name_id", None, -2, 8)}


def call_sites(repo):
    src = open(os.path.join(repo, "AoE2ScenarioParser", "objects", "managers", "player_manager.py")).read()
    out = []
    for node in ast.walk(ast.parse(src)):
        if isinstance(node, ast.Call) and isinstance(node.func, ast.Attribute) and node.func.attr == "_player_attributes_to_list":
            try:
                pos = [ast.literal_eval(a) for a in node.args]
                kw = {k.arg: ast.literal_eval(k.value) for k in node.keywords}
            except Exception:
                continue                      # a non-literal default (Civilization.RANDOM): covered by the random combinations
            names = ["attribute", "gaia_first", "default", "fill_empty"]
            d = {"gaia_first": True, "default": 0, "fill_empty": 0}
            d.update(dict(zip(names, pos))); d.update(kw)
            if isinstance(d.get("attribute"), str) and isinstance(d["default"], int) and d["attribute"] in INT_ATTRS:
                out.append((d["attribute"], d["gaia_first"], d["default"], d["fill_empty"]))
    return sorted(set(out), key=str)


def fmt(l):
    return ",".join("None" if v is None else str(int(v)) for v in l) if l else "-"


def run(R, drv, scn, rng, n, version):
    """appends cases / mismatches to R; returns number of comparisons"""
    from AoE2ScenarioParser.objects.managers import player_manager as pmod
    pm = scn.player_manager
    sites = call_sites(common.REPO)
    R.extra.setdefault("players_call_sites", len(sites))
    plan = [("site",) + s for s in sites]
    # the route the commit takes: the link-name properties (they must exist - they are the names in `_link_list`); the
    # parameters are the file format's (players in the list, default of the unused tail, tail length)
    for prop, (attr, g, d, fill) in LINK_PROPS.items():
        plan.append(("prop:" + prop, attr, g, d, fill))
    generic_ok = callable(getattr(pm, "_player_attributes_to_list", None))
    for _ in range(n):
        plan.append(("rand", rng.choice(INT_ATTRS), rng.choice([None, True, False]), rng.choice([0, -1, 2, 72, 200]), rng.randint(0, 9)))
    cmds, want = [], []
    for kind, attr, g, d, fill in plan:
        for p in range(9):
            r = rng.random()
            v = None if r < 0.25 else rng.choice([0, 1, -1, 2, 200, 65535, rng.randint(-5, 500)])
            common.outcome(setattr, pm.players[p], attr, v)
        seen = []
        for p in range(9):
            st, v = common.outcome(getattr, pm.players[p], attr)
            seen.append(v if st == "ok" and (v is None or isinstance(v, int)) else None)
        if kind.startswith("prop:"):
            st, lst = common.outcome(getattr, pm, kind[5:])
            if st == "ok" and lst is not None and any(v is not None and not isinstance(v, int) for v in lst):
                continue
            if st != "ok" or lst is None:
                if all(v is None for v in seen) or lst == "UnsupportedAttributeError":
                    continue                  # the version lacks the link: it is never pushed
                R.mismatch("a per-player link property raised", {"version": version, "property": kind[5:], "players": seen, "error": lst})
                continue
        else:
            if not generic_ok:
                R.dist["players:generic-route-unavailable"] += 1
                continue
            st, lst = common.outcome(pm._player_attributes_to_list, attr, g, default=d, fill_empty=fill)
            if st != "ok" and lst == "TypeError":
                st, lst = common.outcome(pm._player_attributes_to_list, attr, g, d, fill)
            if st != "ok":
                R.dist["players:generic-route-unavailable"] += 1
                continue
        cmds.append(f"plist {G[g]} {d} {fill} {fmt(seen)}")
        want.append((fmt(lst), {"version": version, "op": "plist", "attr": attr, "gaia_first": G[g], "default": d, "fill": fill, "players": seen}))
    for _ in range(max(4, n // 2)):
        g = rng.choice([None, True, False])
        ln = rng.choice([16, 16, 9, 8, 12, rng.randint(0, 16)])
        lst = [None if rng.random() < 0.2 else rng.randint(-3, 300) for _ in range(ln)]
        attrs = {i: {} for i in range(9)}
        if not callable(getattr(pmod, "_spread_player_attributes", None)):
            R.dist["players:spread-route-unavailable"] += 1
            continue
        st, e = common.outcome(pmod._spread_player_attributes, attrs, "k", lst, g)
        if st == "ok":
            got = " ".join(("None" if attrs[p]["k"] is None else str(attrs[p]["k"])) if "k" in attrs[p] else "absent" for p in range(9))
        else:
            if e == "TypeError":
                R.dist["players:spread-route-unavailable"] += 1
                continue
            got = "raises:" + e
        cmds.append(f"pspread {G[g]} {fmt(lst)}")
        want.append((got, {"version": version, "op": "pspread", "gaia_first": G[g], "list": lst}))
    out = drv.batch(cmds)
    for (w, replay), o, c in zip(want, out, cmds):
        if w.startswith("raises:"):
            # Python raises IndexError exactly when a player OF THE LIST finds no entry
            inlist = range(1, 9) if replay["gaia_first"] == "N" else range(0, 9)
            toks = o.split()
            ok = w == "raises:IndexError" and any(toks[p] == "absent" for p in inlist)
        else:
            ok = (w == o)
        R.case(key="players:" + c, nontrivial=True, tags=("players:" + replay["op"],))
        if ok:
            R.traces += 1
        else:
            R.mismatch("per-player list model differs from player_manager.py", replay, impl=w, model=o)
    return len(cmds)
