"""Harness dispatcher:  python -m harness.run Cxx --tier T --seed S --out FILE [--driver EXE] [--replay F] [--escalate]

Imports harness.h_cxx and calls its `run(ctx)`; writes the result JSON:
  { "coverage": {evaluations, distinct_nontrivial, rule, samples, traces_validated_against_impl, distribution, ...},
    "violations": [ {signature:{...}, what:..., replay:{...}} ],      # property oracle false on the REAL code
    "mismatches": [ {...} ],                                           # model != implementation, oracle holding
    "generated_obligations": n }
"""
import argparse, importlib, json, sys, time, traceback, warnings


def main():
    ap = argparse.ArgumentParser()
    ap.add_argument("property")
    ap.add_argument("--tier", default="quick")
    ap.add_argument("--seed", type=int, default=0)
    ap.add_argument("--out", required=True)
    ap.add_argument("--driver")
    ap.add_argument("--replay")
    ap.add_argument("--escalate", action="store_true")
    a = ap.parse_args()
    warnings.simplefilter("ignore")
    from harness import common
    ctx = common.Ctx(a.property, a.tier, a.seed, a.driver, a.replay, a.escalate)
    mod = importlib.import_module("harness.h_" + a.property.lower())
    t = time.time()
    res = mod.run(ctx)
    res.setdefault("coverage", {})["harness_wall_s"] = round(time.time() - t, 2)
    with open(a.out, "w") as f:
        json.dump(res, f, default=str)


if __name__ == "__main__":
    main()
