"""C20 - elevation editing: three-way comparison  real `MapManager.set_elevation`  =  operational Lean model
(`Aoe.Map.setElevation`, fuel size^2+1)  =  closed form (`Aoe.Map.pyramid`), and the property's own clauses evaluated
on the real tiles.

Compared (DESIGN 2.4): the elevations of all tiles after the call, `ok`/`error`.  Not compared: evaluation order,
the `_xy` cache, exception classes.

Oracles:
  O1 every tile of the selected rectangle (a single tile included, border-touching included) has the requested
     elevation afterwards - on flat and on arbitrary start maps
  O2 starting from a flat map no two neighbouring tiles (diagonals included) differ by more than one level
  O3 nothing but elevations changed (size, tile count, terrain_id, layer, index of every tile)
"""
import contextlib, io, signal
from harness import common


class CaseTimeout(Exception):
    """a single set_elevation call did not return within the per-call limit"""


def timed(fn, secs):
    """common.outcome(fn) with a wall-clock limit (the real call normally takes milliseconds)"""
    def on_alarm(sig, frame):
        raise CaseTimeout()
    old = signal.signal(signal.SIGALRM, on_alarm)
    signal.setitimer(signal.ITIMER_REAL, secs)
    try:
        return common.outcome(fn)
    finally:
        signal.setitimer(signal.ITIMER_REAL, 0)
        signal.signal(signal.SIGALRM, old)


def run(ctx):
    common.lib_setup()
    from AoE2ScenarioParser.scenarios.aoe2_de_scenario import AoE2DEScenario

    R = common.Result(
        "exhaustive: flat maps of size 1..7 (quick) / 1..9 (thorough) x all rectangles x1<=x2,y1<=y2 (1x1 and "
        "border-touching included, single tiles also through the (x, y)-only call) x base, target in 0..4; a seeded sample "
        "of the 8x8 and 9x9 maps in quick; seeded random flat maps up to 40x40 with level differences up to 12; seeded random "
        "NON-flat start maps up to 10x10 (O1, O3 and model = code only); reversed / outside rectangles (ok/error and "
        "result). non-trivial = target != base and the rectangle does not cover the whole map (so the recursion has "
        "work to do); distinct by (size, base or map digest, target, rectangle, call form)")
    rng = ctx.rng
    with contextlib.redirect_stdout(io.StringIO()):
        scn = AoE2DEScenario.from_default()
    mm = scn.map_manager

    cmds, expect, meta = [], [], []
    seen_viol = set()
    state = {"timeouts": 0}
    LIMIT = 10.0

    def add(cmd, obs, m=None):
        cmds.append(cmd); expect.append(obs); meta.append(m)

    def elevs():
        return [int(t.elevation) for t in mm.terrain]

    def il(l):
        return ",".join(map(str, l)) if l else "-"

    def others():
        return mm.map_size, [(int(t.terrain_id), int(t.layer), int(t.i)) for t in mm.terrain]

    def smooth(el, s):
        for k in range(s * s):
            x, y = k % s, k // s
            for dx, dy in ((1, 0), (0, 1), (1, 1), (1, -1)):
                X, Y = x + dx, y + dy
                if 0 <= X < s and 0 <= Y < s and abs(el[k] - el[X + Y * s]) > 1:
                    return (x, y, X, Y)
        return None

    def set_size(s):
        if mm.map_size != s:
            mm.map_size = s

    def violation(sig, what, replay):
        key = tuple(sorted(sig.items()))
        if key in seen_viol:
            return
        seen_viol.add(key)
        R.violation(sig, what, replay)

    def report_single(s, b, e, x, y, form, got):
        """a single selected tile did not get the elevation: shrink to the smallest flat map showing it"""
        if ("min-single",) in seen_viol:
            return
        seen_viol.add(("min-single",))
        keep_s, keep = mm.map_size, elevs()
        found = None
        for s2 in range(1, s + 1):
            set_size(s2)
            for t in mm.terrain:
                t.elevation = 0
            mm.set_elevation(1, 0, 0)
            if mm.get_tile(0, 0).elevation != 1:
                found = s2
                break
        set_size(keep_s)
        for t, v in zip(mm.terrain, keep):
            t.elevation = v
        if found:
            R.violation({"op": "set_elevation", "selection": "single-tile", "class": "not-assigned"},
                        f"set_elevation(1, 0, 0) on a flat {found}x{found} map of elevation 0 leaves tile (0,0) at 0 "
                        f"(first seen: set_elevation({e}, {x}, {y}) [{form}] on a flat {s}x{s} map of elevation {b} left it at {got})",
                        {"op": "flat", "size": found, "base": 0, "target": 1, "rect": [0, 0, 0, 0], "form": "point", "minimised": True})
        else:
            R.violation({"op": "set_elevation", "selection": "single-tile", "class": "not-assigned-here"},
                        f"set_elevation({e}, {x}, {y}) [{form}] on a flat {s}x{s} map of elevation {b} left the tile at {got}",
                        {"op": "flat", "size": s, "base": b, "target": e, "rect": [x, y, x, y], "form": form})

    # ------------------------------------------------------------------ which single-tile behaviour is in force
    set_size(3)
    for t in mm.terrain:
        t.elevation = 0
    mm.set_elevation(3, 1, 1)
    fix_single = 1 if mm.get_tile(1, 1).elevation == 3 else 0
    R.extra["single_tile"] = "assigned" if fix_single else "never assigned (pinned)"
    add(f"mode 0 {fix_single}", "ok")

    # ------------------------------------------------------------------ one case
    def case(s, start, e, x1, y1, x2, y2, form="rect", tag="flat"):
        """start: int (flat base) or list of elevations. form: rect | point (x2, y2 omitted) | half (only x2 given)"""
        if state["timeouts"] >= 2:
            return                      # the call does not terminate: reported below, nothing more to learn
        set_size(s)
        flat = isinstance(start, int)
        init = [start] * (s * s) if flat else list(start)
        for t, v in zip(mm.terrain, init):
            t.elevation = v
        before_other = others()
        if form == "point":
            st, err = timed(lambda: mm.set_elevation(e, x1, y1), LIMIT)
            args = f"{e} {x1} {y1} None None"
        else:
            st, err = timed(lambda: mm.set_elevation(e, x1, y1, x2, y2), LIMIT)
            args = f"{e} {x1} {y1} {x2} {y2}"
        el = elevs()
        m = {"op": "flat" if flat else "map", "size": s, "base": start if flat else None, "elevations": None if flat else init,
             "target": e, "rect": [x1, y1, x2, y2], "form": form}
        if st == "error" and err == "CaseTimeout":
            state["timeouts"] += 1
            violation({"op": "set_elevation", "class": "does-not-return"},
                      f"set_elevation({args}) on a {s}x{s} map did not return within {LIMIT} s (it normally takes milliseconds)", m)
            return
        add(f"flat {s} {start}" if flat else f"flat {s} 0", None)          # answer not compared (dump of a fresh map)
        if not flat:
            add("elevs " + il(init), "ok")
        add("setelev " + args, ("ok " + il(el)) if st == "ok" else "error", m)
        valid = 0 <= x1 <= x2 < s and 0 <= y1 <= y2 < s
        single = valid and x1 == x2 and y1 == y2
        whole = valid and (x2 - x1 + 1) * (y2 - y1 + 1) == s * s
        nontrivial = valid and not whole and (not flat or e != start)
        R.case(key=(tag, s, start if flat else hash(tuple(init)), e, x1, y1, x2, y2, form), nontrivial=nontrivial,
               tags=(tag + ":" + ("single" if single else "rect" if valid else "invalid"),
                     f"size{s if s <= 9 else '10+'}", "border" if valid and (x1 == 0 or y1 == 0 or x2 == s - 1 or y2 == s - 1) else "inner"),
               sample=m if nontrivial and flat and s >= 5 and x2 > x1 else None)
        if not valid:
            return
        if st != "ok":
            violation({"op": "set_elevation", "class": "raises"}, f"set_elevation({args}) raised on a {s}x{s} map", m)
            return
        # O3
        if others() != before_other:
            violation({"op": "set_elevation", "class": "other-fields-changed"}, f"set_elevation({args}) changed more than elevations", m)
        # O1
        wrong = [(x, y, el[x + y * s]) for y in range(y1, y2 + 1) for x in range(x1, x2 + 1) if el[x + y * s] != e]
        if wrong:
            if single:
                if flat:
                    report_single(s, start, e, x1, y1, form, wrong[0][2])
                else:
                    violation({"op": "set_elevation", "selection": "single-tile", "class": "not-assigned", "start": "non-flat"},
                              f"set_elevation({args}) left tile ({x1},{y1}) at {wrong[0][2]}", m)
            else:
                violation({"op": "set_elevation", "selection": "rectangle", "class": "not-assigned"},
                          f"set_elevation({args}) on {s}x{s}: tiles {wrong[:4]} of the rectangle are not at {e}", m)
        # O4 (statistic, not an alarm of its own): the real result stays inside the interval spanned by the start
        # elevations and the request - the real-code instance of the theorem `elevations_stay_in_range`
        state["range_checked"] = state.get("range_checked", 0) + 1
        if not (min(init + [e]) <= min(el) and max(el) <= max(init + [e])):
            state["range_outside"] = state.get("range_outside", 0) + 1
        if flat:    # which closed-form comparisons fall in the proved domain of `setElevation_eq_pyramid` (see Props/C20.lean)
            key = "closed_form_proved_domain" if (abs(e - start) <= 1 or whole) else "closed_form_validated_only"
            state[key] = state.get(key, 0) + 1
        # O2 + closed form (flat start only)
        if flat:
            bad = smooth(el, s)
            if bad:
                violation({"op": "set_elevation", "class": "not-smooth", "selection": "single-tile" if single else "rectangle"},
                          f"set_elevation({args}) from a flat {s}x{s} map of elevation {start}: tiles {bad[:2]} and {bad[2:]} differ by more than 1", m)
            if not (single and wrong):      # the closed form describes the repaired single-tile behaviour
                add(f"pyramid {s} {start} {e} {x1} {y1} {x2} {y2}", il(el), m)

    def replay_case(rp):
        if rp.get("op") == "flat":
            case(rp["size"], rp["base"], rp["target"], *rp["rect"], form=rp.get("form", "rect"), tag="corpus")
        elif rp.get("op") == "map":
            case(rp["size"], rp["elevations"], rp["target"], *rp["rect"], form=rp.get("form", "rect"), tag="corpus")

    for c in ctx.corpus():
        replay_case(c.get("replay", c))

    # ------------------------------------------------------------------ exhaustive small flat maps
    def all_rects(s):
        for y1 in range(s):
            for y2 in range(y1, s):
                for x1 in range(s):
                    for x2 in range(x1, s):
                        yield x1, y1, x2, y2

    levels = range(0, 5)
    full = range(1, 8) if ctx.quick else range(1, 10)
    for s in full:
        for (x1, y1, x2, y2) in all_rects(s):
            for b in levels:
                for e in levels:
                    case(s, b, e, x1, y1, x2, y2)
                    if x1 == x2 and y1 == y2 and e == (b + 2) % 5:
                        case(s, b, e, x1, y1, x2, y2, form="point")
    if ctx.quick:
        for s in (8, 9):
            rects = list(all_rects(s))
            for (x1, y1, x2, y2) in rng.sample(rects, ctx.budget(120, 0)):
                b, e = rng.choice(levels), rng.choice(levels)
                case(s, b, e, x1, y1, x2, y2, tag="flat-sample")

    # ------------------------------------------------------------------ reversed / outside rectangles
    for s in (1, 2, 3, 5):
        for (x1, y1, x2, y2) in [(1, 0, 0, 0), (0, 1, 0, 0), (1, 1, 0, 0), (2, 0, 1, 2), (0, 0, s, 0), (0, 0, 0, s), (-1, 0, 0, 0),
                                 (0, -1, 1, 1), (s, s, s, s), (0, 0, s, s), (s - 1, 0, s, 0), (1, 0, 0, 2), (2, 0, 0, 4)]:
            case(s, 1, 3, x1, y1, x2, y2, tag="invalid")

    # ------------------------------------------------------------------ random flat maps up to 40x40
    for _ in range(ctx.budget(150, 2500)):
        s = rng.choice([rng.randrange(7, 16), rng.randrange(10, 41)])
        b = rng.randrange(0, 8)
        e = rng.choice([rng.randrange(0, 8), b + rng.randrange(-12, 13)])
        x1, y1 = rng.randrange(s), rng.randrange(s)
        x2 = rng.choice([x1, rng.randrange(x1, s), min(s - 1, x1 + rng.randrange(0, 4)), s - 1])
        y2 = rng.choice([y1, rng.randrange(y1, s), min(s - 1, y1 + rng.randrange(0, 4)), s - 1])
        case(s, b, e, x1, y1, x2, y2, form=("point" if (x1 == x2 and y1 == y2 and rng.random() < .5) else "rect"), tag="flat-random")

    # ------------------------------------------------------------------ random non-flat start maps
    for _ in range(ctx.budget(1500, 20000)):
        s = rng.randrange(1, 11)
        hi = rng.choice([2, 3, 7, 12])
        init = [rng.randrange(0, hi) for _ in range(s * s)]
        x1, y1 = rng.randrange(s), rng.randrange(s)
        x2, y2 = rng.randrange(x1, s), rng.randrange(y1, s)
        case(s, init, rng.randrange(0, hi + 2), x1, y1, x2, y2, tag="rough")

    # ------------------------------------------------------------------ correspondence
    R.extra["closed_form_cases"] = {"proved_domain (|request-base| <= 1 or whole map)": state.get("closed_form_proved_domain", 0),
                                    "validated_only (steps of two or more levels)": state.get("closed_form_validated_only", 0)}
    R.extra["range_theorem_on_real_results"] = {"theorem": "Aoe.Props.C20.elevations_stay_in_range",
                                                "cases": state.get("range_checked", 0), "outside": state.get("range_outside", 0)}
    drv = ctx.driver()
    if drv is not None:
        out = drv.batch(cmds)
        for cmd, o, x, m in zip(cmds, out, expect, meta):
            if x is None:
                continue
            if o != x:
                kind = "closed form != code" if cmd.startswith("pyramid") else "operational model != code"
                R.mismatch(f"{kind}: {cmd}", {"cmd": cmd, "case": m, "single_tile_mode": fix_single}, impl=x[:400], model=o[:400])
            else:
                R.traces += 1
    else:
        R.extra["driver"] = "unavailable (Lean build failed) - oracles only"
    return R.to_json(exhaustive=True)
