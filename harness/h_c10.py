"""C10 – unit bookkeeping: correspondence (live UnitManager of a real scenario vs Lean model `Aoe.Units`) + oracles.

Observations compared (DESIGN 2.4): the public results only – the nine `unit_manager.units[p]` lists as
(object, reference_id, player, x, y, z, rotation, unit_const, status, initial_animation_frame, garrisoned_in_id,
caption_string_id) in list order, the ids returned by add / clone / get_new_reference_id / next_unit_id,
`ok | error` of every call, and `DataHeader.next_unit_id_to_place` of a really written file.
Not compared: exception classes, `_uuid`, the generator object, `_player` (only `unit.player`).

The model has a parameter for the two `clone_unit` defects (F7 `arg or unit.attr`, F7b caption string id not
forwarded).  Which variant the code under test implements is decided by one probe call per defect
(`probe_cfg`); the *oracle* below never looks at the model and reports every clone that does not carry a
supplied value / does not inherit an unsupplied one.
"""
import contextlib, io, itertools, json, math, os, shutil, struct, tempfile, time
from harness import common

CLONE_PARAMS = ["player", "unit_const", "x", "y", "z", "rotation", "garrisoned_in_id", "animation_frame", "status"]
ATTR = {"player": "player", "unit_const": "unit_const", "x": "x", "y": "y", "z": "z", "rotation": "rotation",
        "garrisoned_in_id": "garrisoned_in_id", "animation_frame": "initial_animation_frame", "status": "status",
        "reference_id": "reference_id", "caption_string_id": "caption_string_id"}
CMDKEY = {"player": "p", "unit_const": "const", "x": "x", "y": "y", "z": "z", "rotation": "rot",
          "garrisoned_in_id": "gar", "animation_frame": "frame", "status": "status", "reference_id": "rid",
          "caption_string_id": "cap", "tile": "tile"}
FLOATY = ("x", "y", "z", "rotation")


def enc_num(v):
    """canonical spelling of a Python number (int / float) – see lean/Driver/C10.lean"""
    if isinstance(v, bool):
        raise TypeError("bool is not used as a coordinate")
    if isinstance(v, int):
        return f"i{int(v)}"
    v = float(v)
    if math.isfinite(v) and abs(v) < 2.0 ** 50 and v * 2 == int(v * 2) and not (v == 0 and math.copysign(1, v) < 0):
        return f"h{int(v * 2)}"
    return "f%d" % struct.unpack(">Q", struct.pack(">d", v))[0]


def enc_opt(v, f=lambda z: str(int(z))):
    return "None" if v is None else f(v)


def enc_tile(t):
    return "None" if t is None else f"{int(t[0])},{int(t[1])}"


def uget(u, name):
    """attribute of a unit; an attribute the scenario version does not have reads as None"""
    try:
        return getattr(u, name)
    except Exception as e:
        if type(e).__name__ == "UnsupportedAttributeError":
            return None
        raise


def unit_tuple(u):
    return (int(u.reference_id), int(u.player), enc_num(u.x), enc_num(u.y), enc_num(u.z), enc_num(u.rotation),
            int(u.unit_const), int(u.status), int(u.initial_animation_frame), int(u.garrisoned_in_id),
            "N" if uget(u, "caption_string_id") is None else int(u.caption_string_id))


class H:
    """everything shared by the sessions of one harness run"""

    def __init__(self, ctx):
        self.ctx = ctx
        self.R = None
        self.cmds, self.expect, self.meta = [], [], []
        self.sessions = []
        self.cfg = (0, 0)
        self.reported = set()
        self.shrink_deadline = float("inf")


class Session:
    """one operation history on a live unit manager, mirrored as driver commands.

    `record=False` (shrinking / probing): nothing is queued for the driver, violations are kept locally."""

    def __init__(self, h, scn, keep, pre=(), counter=None, record=True, label="seq", kindinfo=None):
        from AoE2ScenarioParser.datasets.players import PlayerId
        self.PlayerId = PlayerId
        self.h, self.scn, self.um, self.record, self.label = h, scn, scn.unit_manager, record, label
        self._viol = {}
        self.kindinfo = kindinfo or {"kind": "seq"}
        self.ops = []
        self.pre = list(pre)
        um = self.um
        if not keep:
            um.units = [[] for _ in range(9)]
        self.objs = [u for p in range(9) for u in um.units[p]]          # handle -> object (owner-major file order)
        self.hid = {id(u): i for i, u in enumerate(self.objs)}
        self.live = set(self.hid)
        self.file_ids = [int(u.reference_id) for u in self.objs]
        self.k = (um.get_new_reference_id() + 1) if counter is None else counter
        self.pre_ok = all(f < self.k for f in self.file_ids)
        self.autos = []
        if keep and not self.pre:       # replayable description of the units that were there: re-create them by add_unit
            self.pre = [["add", {"player": int(u.player), "unit_const": int(u.unit_const), "x": u.x, "y": u.y, "z": u.z,
                                 "rotation": u.rotation, "garrisoned_in_id": int(u.garrisoned_in_id),
                                 "animation_frame": int(u.initial_animation_frame), "status": int(u.status),
                                 "reference_id": int(u.reference_id),
                                 "caption_string_id": None if uget(u, "caption_string_id") is None else int(u.caption_string_id),
                                 "tile": None}] for u in self.objs]
        self.sid = len(h.sessions)
        self.base = {"next": self.k, "units": [list(unit_tuple(u)) for u in self.objs]}
        if record:
            h.sessions.append(self)
            us = ";".join(":".join(str(x) for x in (t[1], t[0]) + t[2:]) for t in map(unit_tuple, self.objs)) or "-"
            self.queue(f"load next={self.k} units={us}", "ok | " + self.lists_obs(), -1)
        self.check_inv("load")

    # ---- plumbing ------------------------------------------------------------------------------------
    def queue(self, cmd, obs, opi):
        if self.record:
            self.h.cmds.append(cmd); self.h.expect.append(obs); self.h.meta.append((self.sid, opi))

    def lists_obs(self):
        parts = []
        for p in range(9):
            us = []
            for u in self.um.units[p]:
                hdl = self.hid.get(id(u), "?")
                us.append(f"{hdl}({','.join(str(x) for x in unit_tuple(u))})")
            parts.append(f"{p}:[{' '.join(us)}]")
        return " ".join(parts)

    def snapshot(self):
        return [list(l) for l in self.um.units]

    def violation(self, sig, what):
        """remember the first (= shortest history) occurrence of every signature in this session, count the rest"""
        key = json.dumps(sig, sort_keys=True)
        e = self._viol.get(key)
        if e is None:
            self._viol[key] = [dict(sig), what, len(self.ops), 1]
        else:
            e[3] += 1

    @property
    def violations(self):
        return [{"signature": sig, "what": what, "occurrences": cnt,
                 "replay": dict(self.kindinfo, label=self.label, pre=self.pre, ops=list(self.ops[:n]))}
                for sig, what, n, cnt in self._viol.values()]

    def new_obj(self, u):
        self.hid[id(u)] = len(self.objs)
        self.objs.append(u)
        self.live.add(id(u))
        return len(self.objs) - 1

    # ---- oracles (the property's clauses on the real lists; the model is not consulted) -----------------
    def check_inv(self, opname):
        seen = {}
        for p in range(9):
            for u in self.um.units[p]:
                if int(u.player) != p:
                    self.violation({"clause": "owner_list", "op": opname},
                                   f"after {opname}: unit {u.reference_id} in list {p} reports owner {u.player}")
                if id(u) in seen:
                    self.violation({"clause": "stored_once", "op": opname},
                                   f"after {opname}: unit {u.reference_id} stored in lists {seen[id(u)]} and {p}")
                seen[id(u)] = p
        if set(seen) != self.live:
            lost = [self.hid.get(i) for i in self.live - set(seen)]
            extra = [self.hid.get(i, "?") for i in set(seen) - self.live]
            self.violation({"clause": "stored_once", "op": opname, "kind": "lost" if lost else "ghost"},
                           f"after {opname}: units that should be stored but are not: {lost}; stored but removed: {extra}")
            self.live = set(seen)          # resynchronise the oracle's bookkeeping, report once

    def check_auto(self, rid, opname):
        rid = int(rid)
        if rid in self.autos:
            self.violation({"clause": "auto_unique", "op": opname}, f"automatic id {rid} handed out twice")
        if self.pre_ok and rid in self.file_ids:
            self.violation({"clause": "auto_not_file", "op": opname}, f"automatic id {rid} is an id of the loaded file")
        self.autos.append(rid)

    def check_same_lists(self, before, opname, clause="unchanged"):
        after = self.snapshot()
        if any([id(x) for x in a] != [id(x) for x in b] for a, b in zip(before, after)):
            self.violation({"clause": clause, "op": opname}, f"{opname} changed the lists although nothing was to be removed")

    # ---- operations -----------------------------------------------------------------------------------
    def do(self, op):
        """execute one JSON-able op; ops naming a handle that does not exist are skipped (shrinking)"""
        kind = op[0]
        n = len(self.objs)
        handles = {"clone": [op[1]] if kind == "clone" else [], "remove_obj": [op[1]] if kind == "remove_obj" else [],
                   "setp": [op[1]] if kind == "setp" else [], "chown": op[1] if kind == "chown" else []}.get(kind, [])
        if any(not (0 <= x < n) for x in handles):
            return None
        self.ops.append(op)
        opi = len(self.ops) - 1
        r = getattr(self, "op_" + kind)(op, opi)
        self.check_inv(kind)
        return r

    def _player_arg(self, p, as_enum):
        return self.PlayerId(p) if as_enum else p

    def op_add(self, op, opi):
        a = dict(op[1])
        as_enum = a.pop("_enum", False)
        before = self.snapshot()
        kw = dict(a)
        kw["player"] = self._player_arg(a["player"], as_enum)
        if kw.get("tile") is not None:
            kw["tile"] = tuple(kw["tile"])
        st, u = common.outcome(self.um.add_unit, **kw)
        cmd = ("add p={player} const={unit_const} x={x} y={y} z={z} rot={rotation} gar={garrisoned_in_id} frame={animation_frame} "
               "status={status} rid={rid} cap={caption_string_id} tile={tile}").format(
            player=a["player"], unit_const=a["unit_const"], x=enc_num(a["x"]), y=enc_num(a["y"]), z=enc_num(a["z"]),
            rotation=enc_num(a["rotation"]), garrisoned_in_id=a["garrisoned_in_id"], animation_frame=a["animation_frame"],
            status=a["status"], rid=enc_opt(a["reference_id"]), caption_string_id=a["caption_string_id"], tile=enc_tile(a["tile"]))
        if st != "ok":
            self.violation({"clause": "add", "op": "add", "kind": "raised"}, f"add_unit raised {u} for in-domain arguments")
            self.queue(cmd, "error | " + self.lists_obs(), opi)
            return None
        hdl = self.new_obj(u)
        self.queue(cmd, f"ok h={hdl} id={int(u.reference_id)} | " + self.lists_obs(), opi)
        # oracle: appended to the list of its owner, nothing else moved, attributes as supplied
        after = self.snapshot()
        p = a["player"]
        good = all([id(x) for x in after[q]] == [id(x) for x in before[q]] + ([id(u)] if q == p else []) for q in range(9))
        if not good:
            self.violation({"clause": "add_stored", "op": "add"}, "add_unit did not append exactly the new unit to its owner's list")
        want = dict(a)
        if a["tile"] is not None:
            want["x"], want["y"] = a["tile"][0] + .5, a["tile"][1] + .5
        for k in CLONE_PARAMS + ["caption_string_id"]:
            if uget(u, ATTR[k]) != want[k]:
                self.violation({"clause": "add_attr", "op": "add", "param": k}, f"add_unit({k}={want[k]!r}) gives {uget(u, ATTR[k])!r}")
        if a["reference_id"] is None:
            self.check_auto(u.reference_id, "add")
        elif int(u.reference_id) != a["reference_id"]:
            self.violation({"clause": "add_attr", "op": "add", "param": "reference_id"}, "explicit reference_id not used")
        self.h_case(cmd, True, ("op:add", f"owner:{p}", "rid:auto" if a["reference_id"] is None else "rid:explicit"))
        return u

    def op_clone(self, op, opi):
        src_h, c = op[1], dict(op[2])
        as_enum = c.pop("_enum", False)
        src = self.objs[src_h]
        src_before = {k: uget(src, ATTR[k]) for k in CLONE_PARAMS + ["caption_string_id", "reference_id"]}
        before = self.snapshot()
        kw = dict(c)
        if kw.get("player") is not None:
            kw["player"] = self._player_arg(kw["player"], as_enum)
        if kw.get("tile") is not None:
            kw["tile"] = tuple(kw["tile"])
        st, u = common.outcome(self.um.clone_unit, src, **kw)

        def f(k):
            v = c.get(k)
            if k in FLOATY:
                return enc_opt(v, enc_num)
            if k == "tile":
                return enc_tile(v)
            return enc_opt(v)
        cmd = f"clone src={src_h} " + " ".join(f"{CMDKEY[k]}={f(k)}" for k in CLONE_PARAMS + ["reference_id", "tile"])
        supplied = sorted(k for k in c if c[k] is not None)
        expect_error = (c.get("x") is not None or c.get("y") is not None) and c.get("tile") is not None
        tags = ["op:clone", f"clone-args:{len(supplied)}"] + [f"clone:{k}={'falsy' if not c[k] else 'truthy'}" for k in supplied if k != "tile"]
        if st != "ok":
            self.queue(cmd, "error | " + self.lists_obs(), opi)
            if not expect_error:
                self.violation({"op": "clone_unit", "clause": "clone", "kind": "raised"}, f"clone_unit raised {u} for {c}")
            else:
                self.check_same_lists(before, "clone")
            self.h_case(cmd, False, tags + ["result:error"])
            return None
        hdl = self.new_obj(u)
        self.queue(cmd, f"ok h={hdl} id={int(u.reference_id)} | " + self.lists_obs(), opi)
        # oracle: carries every supplied attribute, inherits the rest, is stored at the end of its owner's list
        for k in CLONE_PARAMS:
            got = getattr(u, ATTR[k])
            if c.get(k) is not None:
                if got != c[k]:
                    self.violation({"op": "clone_unit", "clause": "carries_supplied", "param": k,
                                    "value": "falsy" if not c[k] else "truthy"},
                                   f"clone_unit({k}={c[k]!r}) of a unit with {k}={src_before[k]!r} yields {k}={got!r}")
            elif k in ("x", "y") and c.get("tile") is not None:
                t = c["tile"][0 if k == "x" else 1] + .5
                if got != t:
                    self.violation({"op": "clone_unit", "clause": "carries_supplied", "param": "tile", "value": "tile"},
                                   f"clone_unit(tile={c['tile']}) yields {k}={got!r}")
            elif got != src_before[k]:
                self.violation({"op": "clone_unit", "clause": "inherits_rest", "param": k},
                               f"clone_unit without {k}: original has {src_before[k]!r}, clone {got!r}")
        if uget(u, "caption_string_id") != src_before["caption_string_id"]:
            self.violation({"op": "clone_unit", "clause": "inherits_rest", "param": "caption_string_id"},
                           f"clone of a unit with caption_string_id={src_before['caption_string_id']!r} has {uget(u, 'caption_string_id')!r}")
        if c.get("reference_id") is None:
            self.check_auto(u.reference_id, "clone")
        elif int(u.reference_id) != c["reference_id"]:
            self.violation({"op": "clone_unit", "clause": "carries_supplied", "param": "reference_id", "value": "id"},
                           "explicit reference_id not used")
        for k, v in src_before.items():
            if uget(src, ATTR[k]) != v:
                self.violation({"op": "clone_unit", "clause": "source_unchanged", "param": k}, "clone_unit modified the original")
        after = self.snapshot()
        p = int(u.player)
        if not all([id(x) for x in after[q]] == [id(x) for x in before[q]] + ([id(u)] if q == p else []) for q in range(9)):
            self.violation({"op": "clone_unit", "clause": "clone_stored"}, "clone not appended (only) to the list of the owner it reports")
        self.h_case(cmd + f" src=({','.join(map(str, unit_tuple(src)))})", bool(supplied), tags)
        return u

    def op_remove_obj(self, op, opi):
        u = self.objs[op[1]]
        was_live = id(u) in self.live
        before = self.snapshot()
        st, _ = common.outcome(self.um.remove_unit, unit=u)
        self.queue(f"remove rid=None obj={op[1]}", f"{st} | " + self.lists_obs(), opi)
        if was_live:
            if st != "ok":
                self.violation({"clause": "remove_exact", "op": "remove_obj", "kind": "raised"}, "removing a stored unit raised")
            else:
                self.live.discard(id(u))
                after = self.snapshot()
                if not all([id(x) for x in after[q]] == [id(x) for x in before[q] if x is not u] for q in range(9)) or \
                        sum(map(len, before)) != sum(map(len, after)) + 1:
                    self.violation({"clause": "remove_exact", "op": "remove_obj"},
                                   f"remove_unit(unit=<id {u.reference_id}>) did not delete exactly that unit")
        else:
            self.check_same_lists(before, "remove_obj")
        self.h_case(f"remove obj |{self.lists_key(before)}", was_live, ("op:remove_obj", "target:stored" if was_live else "target:stale", "result:" + st))

    def op_remove_id(self, op, opi):
        rid = op[1]
        before = self.snapshot()
        target = next((x for l in before for x in l if x.reference_id == rid), None)
        st, _ = common.outcome(self.um.remove_unit, reference_id=rid)
        self.queue(f"remove rid={rid} obj=None", f"{st} | " + self.lists_obs(), opi)
        if st != "ok":
            self.violation({"clause": "remove_exact", "op": "remove_id", "kind": "raised"}, f"remove_unit(reference_id={rid}) raised")
        elif target is None:
            self.check_same_lists(before, "remove_id")
        else:
            self.live.discard(id(target))
            after = self.snapshot()
            if not all([id(x) for x in after[q]] == [id(x) for x in before[q] if x is not target] for q in range(9)):
                self.violation({"clause": "remove_exact", "op": "remove_id"},
                               f"remove_unit(reference_id={rid}) did not delete exactly the first unit carrying that id")
        dup = sum(1 for l in before for x in l if x.reference_id == rid)
        self.h_case(f"remove id={rid} |{self.lists_key(before)}", target is not None,
                    ("op:remove_id", "id:absent" if target is None else ("id:unique" if dup == 1 else "id:duplicated")))

    def op_remove_bad(self, op, opi):
        before = self.snapshot()
        if op[1] == "both" and self.objs:
            st, _ = common.outcome(self.um.remove_unit, reference_id=int(self.objs[0].reference_id), unit=self.objs[0])
            self.queue("remove rid=%d obj=0" % int(self.objs[0].reference_id), f"{st} | " + self.lists_obs(), opi)
        else:
            st, _ = common.outcome(self.um.remove_unit)
            self.queue("remove rid=None obj=None", f"{st} | " + self.lists_obs(), opi)
        self.check_same_lists(before, "remove_bad")
        self.h_case(None, False, ("op:remove_bad", "result:" + st))

    def _moved_ok(self, before, after, moved, p):
        """every list = old list without the moved units, in old order; `p`'s list ends with the moved ones in order"""
        ms = {id(x) for x in moved}
        order = []
        for x in moved:                       # a unit named twice ends up once, at its last position
            if id(x) in [id(y) for y in order]:
                order = [y for y in order if y is not x]
            order.append(x)
        for q in range(9):
            want = [id(x) for x in before[q] if id(x) not in ms] + ([id(x) for x in order] if q == p else [])
            if [id(x) for x in after[q]] != want:
                return False
        return True

    def op_setp(self, op, opi):
        u, p = self.objs[op[1]], op[2]
        via = op[3] if len(op) > 3 else "setter"
        was_live = id(u) in self.live
        before = self.snapshot()
        if via == "setter":
            def call():
                u.player = self._player_arg(p, bool(op[4]) if len(op) > 4 else False)
        else:
            def call():
                self.um.change_ownership(u, p)
        st, _ = common.outcome(call)
        self.queue(f"setp {op[1]} {p}", f"{st} | " + self.lists_obs(), opi)
        if was_live:
            if st != "ok":
                self.violation({"clause": "ownership", "op": "set_player", "kind": "raised"}, "changing the owner of a stored unit raised")
            else:
                if int(u.player) != p or not self._moved_ok(before, self.snapshot(), [u], p):
                    self.violation({"clause": "ownership", "op": "set_player"},
                                   f"unit {u.reference_id}: owner change to {p} did not move exactly that unit to the end of list {p}")
        else:
            self.check_same_lists(before, "set_player")
        self.h_case(f"setp {p} |{self.lists_key(before)}|{op[1]}", was_live,
                    ("op:setp", "via:" + via, "target:stored" if was_live else "target:stale", f"to:{p}", "result:" + st))

    def op_chown(self, op, opi):
        us, p = [self.objs[i] for i in op[1]], op[2]
        all_live = all(id(u) in self.live for u in us)
        before = self.snapshot()
        st, _ = common.outcome(self.um.change_ownership, us, p)
        self.queue(f"chown {','.join(map(str, op[1])) or '-'} {p}", f"{st} | " + self.lists_obs(), opi)
        if all_live:
            if st != "ok":
                self.violation({"clause": "ownership", "op": "change_ownership", "kind": "raised"}, "change_ownership of stored units raised")
            elif any(int(u.player) != p for u in us) or not self._moved_ok(before, self.snapshot(), us, p):
                self.violation({"clause": "ownership", "op": "change_ownership"}, "change_ownership did not move exactly the given units")
        self.h_case(f"chown {op[1]} {p} |{self.lists_key(before)}", bool(us) and all_live,
                    ("op:chown", f"chown-n:{len(us)}", "result:" + st))

    def op_newid(self, op, opi):
        st, v = common.outcome(self.um.get_new_reference_id)
        self.queue("newid", f"ok id={v} | " + self.lists_obs() if st == "ok" else "error | " + self.lists_obs(), opi)
        if st == "ok":
            self.check_auto(v, "newid")
        self.h_case(f"newid {v}", True, ("op:newid",))

    def op_save(self, op, opi):
        """the read `commit` performs: the property `next_unit_id` (no file involved)"""
        st, v = common.outcome(lambda: self.um.next_unit_id)
        self.queue("save", f"ok counter={v} | " + self.lists_obs() if st == "ok" else "error | " + self.lists_obs(), opi)
        if st == "ok":
            self.check_counter(v, "next_unit_id")
        self.h_case(f"save {v}", True, ("op:save(property read)",))

    def check_counter(self, v, how):
        bad = [a for a in self.autos if not a < v]
        if bad:
            self.violation({"clause": "saved_counter", "op": how}, f"saved counter {v} is not larger than the automatic ids {bad[:5]}")

    def op_savefile(self, op, opi):
        """a real `write_to_file` (ONE per scenario object) and a reload of the written file"""
        from AoE2ScenarioParser.scenarios.aoe2_de_scenario import AoE2DEScenario
        fn = os.path.join(self.h.tmp, f"s{self.sid}_{opi}.aoe2scenario")
        with contextlib.redirect_stdout(io.StringIO()):
            st, e = common.outcome(self.scn.write_to_file, fn)
            if st == "ok":
                st, s2 = common.outcome(AoE2DEScenario.from_file, fn)
        if st != "ok":
            self.violation({"clause": "saved_counter", "op": "write_to_file", "kind": "raised"}, f"save / reload raised {e if st != 'ok' else ''}")
            self.queue("save", "error | " + self.lists_obs(), opi)
            return None
        v = int(s2.sections['DataHeader'].next_unit_id_to_place)
        self.queue("save", f"ok counter={v} | " + self.lists_obs(), opi)
        self.check_counter(v, "write_to_file")
        mine = [[(int(u.reference_id), int(u.player), int(u.unit_const)) for u in l] for l in self.um.units]
        theirs = [[(int(u.reference_id), int(u.player), int(u.unit_const)) for u in l] for l in s2.unit_manager.units]
        if mine != theirs:
            self.violation({"clause": "saved_lists", "op": "write_to_file"}, "the reloaded file does not hold the units list by list")
        self.h_case(f"savefile {v} |{self.lists_key(self.snapshot())}", True, ("op:save(file)",))
        return s2, v

    # ---- counting -------------------------------------------------------------------------------------
    def lists_key(self, snap):
        return "/".join(",".join(str(self.hid.get(id(x), "?")) + ":" + str(x.reference_id) + ":" + str(int(x.player)) for x in l) for l in snap)

    def h_case(self, key, nontrivial, tags):
        if self.record:
            R = self.h.R
            sample = None
            if len(R.samples) < 8 and self.ops and (len(self.ops) % 7 == 3):
                sample = {"session": self.label, "op": self.ops[-1], "lists": self.lists_obs()[:300]}
            R.case(key=key, nontrivial=nontrivial and key is not None, sample=sample, tags=tags)


# ---- generators ---------------------------------------------------------------------------------------------
NUMS = [0, 0.0, -0.0, 1, 0.5, 1.5, 2, 7, 3.25, 0.1, 119.5, -1, -2.5, 1e-3, 64, 0, 0.0]
CONSTS = [0, 1, 4, 59, 83, 1351]
STATS = [0, 1, 2, 2, 2, 5]
FRAMES = [0, 0, 1, 5]
GARR = [-1, -1, 0, 3]
CAPS = [-1, -1, 0, 77, 4000]


def rnd_player(rng):
    return rng.choice([0, 0, 0, 1, 1, 2, 3, 4, 5, 6, 7, 8, 8])


def rnd_refid(rng, s):
    if rng.random() < 0.78:
        return None
    pool = [int(u.reference_id) for u in s.objs] or [0]
    return rng.choice([rng.choice(pool), -1, 0, s.k - 1, s.k + rng.randrange(0, 40), 1000 + rng.randrange(50), rng.randrange(-5, 30)])


def rnd_add(rng, s):
    tile = None if rng.random() < 0.8 else [rng.randrange(-1, 6), rng.randrange(0, 6)]
    return ["add", {"player": rnd_player(rng), "unit_const": rng.choice(CONSTS), "x": rng.choice(NUMS), "y": rng.choice(NUMS),
                    "z": rng.choice(NUMS[:8]), "rotation": rng.choice(NUMS), "garrisoned_in_id": rng.choice(GARR),
                    "animation_frame": rng.choice(FRAMES), "status": rng.choice(STATS), "reference_id": rnd_refid(rng, s),
                    "caption_string_id": rng.choice(CAPS), "tile": tile, "_enum": rng.random() < 0.5}]


def rnd_clone(rng, s, force_error=False):
    c = {}
    pools = {"player": None, "unit_const": CONSTS, "x": NUMS, "y": NUMS, "z": NUMS, "rotation": NUMS,
             "garrisoned_in_id": GARR, "animation_frame": FRAMES, "status": STATS}
    dens = rng.choice([0.1, 0.3, 0.6])
    for k in CLONE_PARAMS:
        if rng.random() < dens:
            c[k] = rnd_player(rng) if k == "player" else rng.choice(pools[k])
    if rng.random() < 0.2:
        c["reference_id"] = rnd_refid(rng, s)
        if c["reference_id"] is None:
            del c["reference_id"]
    if force_error or rng.random() < 0.15:
        c["tile"] = [rng.randrange(0, 5), rng.randrange(-1, 5)]
        if force_error:
            c[rng.choice(["x", "y"])] = rng.choice(NUMS)
        elif rng.random() < 0.8:
            c.pop("x", None); c.pop("y", None)
    c["_enum"] = rng.random() < 0.5
    return ["clone", rng.randrange(len(s.objs)), c]


def rnd_op(rng, s):
    n = len(s.objs)
    live = [i for i, u in enumerate(s.objs) if id(u) in s.live]
    stale = [i for i, u in enumerate(s.objs) if id(u) not in s.live]
    r = rng.random()
    if n == 0 or r < 0.24:
        return rnd_add(rng, s)
    if r < 0.46:
        return rnd_clone(rng, s)
    if r < 0.49:
        return rnd_clone(rng, s, force_error=True)
    if r < 0.60:
        pool = live if (live and (not stale or rng.random() < 0.8)) else (stale or live)
        return ["remove_obj", rng.choice(pool)]
    if r < 0.68:
        ids = [int(s.objs[i].reference_id) for i in live]
        return ["remove_id", rng.choice(ids) if ids and rng.random() < 0.7 else rng.choice([-7, 99999, s.k + 500])]
    if r < 0.84:
        pool = live if (live and (not stale or rng.random() < 0.85)) else (stale or live)
        via = rng.choice(["setter", "setter", "change_ownership"])
        return ["setp", rng.choice(pool), rnd_player(rng), via, rng.random() < 0.5]
    if r < 0.90:
        pool = live if (live and rng.random() < 0.85) else list(range(n))
        return ["chown", [rng.choice(pool) for _ in range(rng.randrange(0, 4))], rnd_player(rng)]
    if r < 0.94:
        return ["newid"]
    if r < 0.985:
        return ["save"]
    return ["remove_bad", rng.choice(["both", "neither"])]


def probe_cfg(h, scn):
    """which `clone_unit` does the code under test implement?  (selects the model variant; the oracle is independent)"""
    s = Session(h, scn, keep=False, record=False, label="probe")
    u = s.um.add_unit(player=3, unit_const=4, x=5, y=6, z=1, rotation=1.5, caption_string_id=77)
    c = s.um.clone_unit(u, x=0)
    return (1 if c.x == 0 else 0, 1 if c.caption_string_id == 77 else 0)


def shrink(h, scn, viol):
    """greedy removal of operations / clone arguments keeping a violation with the same signature"""
    rp = viol["replay"]
    key = json.dumps(viol["signature"], sort_keys=True)
    pre, ops = list(rp.get("pre", [])), list(rp["ops"])
    budget = [30 if (rp.get("kind") == "file" or rp.get("fresh")) else 250]    # those cost a scenario load each

    def fails(pre_, ops_):
        if budget[0] <= 0 or time.time() > h.shrink_deadline:
            return None
        budget[0] -= 1
        s = replay(h, scn, dict(rp, pre=pre_, ops=ops_), record=False)
        return next((v for v in s.violations if json.dumps(v["signature"], sort_keys=True) == key), None)

    best = fails(pre, ops)
    if best is None:
        return viol
    for i in range(len(ops) - 2, -1, -1):
        cand = ops[:i] + ops[i + 1:]
        v = fails(pre, cand)
        if v is not None:
            ops, best = cand, v
    for i in range(len(pre) - 1, -1, -1):
        cand = pre[:i] + pre[i + 1:]
        v = fails(cand, ops)
        if v is not None:
            pre, best = cand, v
    if ops and ops[-1][0] == "clone":             # drop clone arguments that are not needed for the failure
        for k in sorted(ops[-1][2]):
            c = {a: b for a, b in ops[-1][2].items() if a != k}
            cand = ops[:-1] + [["clone", ops[-1][1], c]]
            v = fails(pre, cand)
            if v is not None:
                ops, best = cand, v
    best = dict(best)
    best["replay"] = dict(best["replay"], minimised=True)
    return best


def fresh_scenario():
    from AoE2ScenarioParser.scenarios.aoe2_de_scenario import AoE2DEScenario
    with contextlib.redirect_stdout(io.StringIO()):
        sc = AoE2DEScenario.from_default()
    return sc, int(sc.sections['DataHeader'].next_unit_id_to_place)


def replay(h, scn, rp, record=True, label="replay"):
    """re-run a recorded history.  kind "seq": `pre` re-creates the units that were there, then `ops`, on the shared
    live manager (`savefile` becomes the plain property read – a shared scenario object is written at most never) or,
    with "fresh", on a scenario of its own (`savefile` is a real write).  kind "file": `pre` runs on a fresh
    scenario and ends with `savefile`; `ops` run on the manager of the reloaded file."""
    pre, ops = rp.get("pre", []), rp.get("ops", [])
    if rp.get("kind") == "file":
        sc, k = fresh_scenario()
        a = Session(h, sc, keep=False, counter=k, record=False, label="pre")
        r = None
        for op in pre:
            x = a.do(op)
            if op[0] == "savefile":
                r = x
                break
        if r is None:
            return a
        t = Session(h, r[0], keep=True, counter=r[1], pre=pre, record=record, label=label, kindinfo={"kind": "file"})
        for op in ops:
            if op[0] != "savefile":
                t.do(op)
        return t
    if rp.get("fresh"):
        sc, k = fresh_scenario()
        s = Session(h, sc, keep=False, counter=k, record=record, label=label, kindinfo={"kind": "seq", "fresh": True})
        written = False
        for op in ops:
            s.do(["save"] if (op[0] == "savefile" and written) else op)
            written = written or op[0] == "savefile"
        return s
    if pre:
        s0 = Session(h, scn, keep=False, record=False, label="pre")
        for op in pre:
            s0.do(["save"] if op[0] == "savefile" else op)
        s = Session(h, scn, keep=True, pre=pre, record=record, label=label)
    else:
        s = Session(h, scn, keep=False, record=record, label=label)
    for op in ops:
        s.do(["save"] if op[0] == "savefile" else op)
    return s


def run(ctx):
    common.lib_setup()
    from AoE2ScenarioParser.scenarios.aoe2_de_scenario import AoE2DEScenario
    rng = ctx.rng
    R = common.Result(
        "cases = executed operations on a live UnitManager (AoE2DEScenario.from_default / reloaded written files), each "
        "compared with the Lean model and checked by the property oracle. (a) clone_unit exhaustively over {None, zero, "
        "non-zero} for each of the 9 forwarded parameters (3^9 = 19683 calls, zero = 0 / 0.0 / -0.0 / GAIA) plus "
        "reference_id x tile x {x,y} combinations; (b) seeded random operation sequences (add, clone, remove by id / by "
        "object incl. stale objects and duplicated ids, player setter, change_ownership of one unit / of lists, "
        "get_new_reference_id, next_unit_id read) over all nine owners with coordinates from {0, 0.0, -0.0, .5, 1.5, …}; "
        "(c) real write_to_file + from_file (one write per scenario object) with sequences before, after and on the "
        "reloaded file. non-trivial = the operation changed a list or handed out an id (clone: at least one argument "
        "supplied); distinct by (lists before the operation, operation with its arguments)")
    h = H(ctx)
    h.R = R
    h.tmp = tempfile.mkdtemp(prefix="c10_")
    try:
        with contextlib.redirect_stdout(io.StringIO()):
            scn = AoE2DEScenario.from_default()
        h.cfg = probe_cfg(h, scn)
        h.cmds.append(f"cfg notnone={h.cfg[0]} caption={h.cfg[1]}"); h.expect.append("ok"); h.meta.append((-1, -1))
        R.extra["clone_semantics_of_code_under_test"] = {"supplied_is_not_None": bool(h.cfg[0]), "caption_inherited": bool(h.cfg[1])}

        # ---- corpus / replay first -------------------------------------------------------------------
        for c in ctx.corpus():
            rp = c.get("replay", c)
            if rp.get("kind") in ("seq", "file"):
                replay(h, scn, rp, label="corpus")

        # ---- (a) exhaustive clone ---------------------------------------------------------------------
        def source(s, variant):
            if variant == 0:
                a = {"player": 3, "unit_const": 4, "x": 5, "y": 6.5, "z": 2, "rotation": 1.5, "garrisoned_in_id": 9,
                     "animation_frame": 3, "status": 2, "reference_id": None, "caption_string_id": 77, "tile": None}
            else:   # an original that itself has zero / GAIA values
                a = {"player": 0, "unit_const": 59, "x": 0, "y": 0.0, "z": 0, "rotation": -0.0, "garrisoned_in_id": -1,
                     "animation_frame": 0, "status": 0, "reference_id": None, "caption_string_id": -1, "tile": None}
            s.do(["add", a])

        zero_f = [0, 0.0, -0.0]
        one_f = [1, 1.5, 7.25]

        def value(k, sel, n):
            if sel == 0:
                return None
            if k == "player":
                return 0 if sel == 1 else 1
            if k in FLOATY:
                return zero_f[n % 3] if sel == 1 else one_f[n % 3]
            return 0 if sel == 1 else 1

        variants = [0] if ctx.quick else [0, 1]
        for variant in variants:
            s = None
            for n, combo in enumerate(itertools.product((0, 1, 2), repeat=9)):
                if n % 243 == 0:
                    s = Session(h, scn, keep=False, label=f"clone-exhaustive-{variant}")
                    source(s, variant)
                    src_h = len(s.objs) - 1
                c = {k: value(k, sel, n + i) for i, (k, sel) in enumerate(zip(CLONE_PARAMS, combo)) if sel}
                c["_enum"] = bool(n & 1)
                u = s.do(["clone", src_h, c])
                if u is not None:
                    s.do(["remove_obj", len(s.objs) - 1])
        s = Session(h, scn, keep=False, label="clone-id-tile")
        source(s, 0)
        for rid, tile, x, y, p in itertools.product((None, 0, 500), (None, [0, 0], [3, -1]), (None, 0, 2.5), (None, 0.0, 1), (None, 0, 8)):
            c = {k: v for k, v in (("reference_id", rid), ("tile", tile), ("x", x), ("y", y), ("player", p)) if v is not None}
            s.do(["clone", 0, c])

        # ---- (b) random sequences on the live manager ------------------------------------------------------
        nseq = ctx.budget(700, 5000)
        for i in range(nseq):
            keep = i > 0 and rng.random() < 0.35         # go on from the units that are there ("loaded" state)
            s = Session(h, scn, keep=keep, label=f"seq{i}")
            for _ in range(rng.choice([6, 12, 25, 40])):
                s.do(rnd_op(rng, s))

        # ---- (c) real files: ops, ONE write, reload, ops on both ------------------------------------------------
        for i in range(ctx.budget(20, 150)):
            sc, k0 = fresh_scenario()
            s = Session(h, sc, keep=False, counter=k0, label=f"file{i}a", kindinfo={"kind": "seq", "fresh": True})
            for _ in range(rng.choice([3, 10, 25])):
                op = rnd_op(rng, s)
                if op[0] == "add" and op[1]["reference_id"] is not None and rng.random() < 0.7:
                    op[1]["reference_id"] = None          # keep most files within `counter > every id`
                s.do(op)
            r = s.do(["savefile"])
            ops_to_save = list(s.ops)
            for _ in range(rng.choice([0, 4, 10])):
                s.do(rnd_op(rng, s))
            if r is not None:
                s2scn, v = r
                t = Session(h, s2scn, keep=True, counter=v, pre=ops_to_save, label=f"file{i}b", kindinfo={"kind": "file"})
                R.dist["file-session:" + ("counter>ids" if t.pre_ok else "counter<=some id (explicit ids)")] += 1
                for _ in range(rng.choice([5, 15, 30])):
                    t.do(rnd_op(rng, t))

        # ---- violations: shrink, dedupe by signature ----------------------------------------------------------
        allv = [v for s in h.sessions for v in s.violations]
        seen = {}
        for v in allv:
            key = json.dumps(v["signature"], sort_keys=True)
            seen.setdefault(key, []).append(v)
        h.shrink_deadline = time.time() + (20 if ctx.quick else 90)      # shrinking is best effort, never the bulk of a run
        for key, vs in seen.items():
            v = min(vs, key=lambda z: len(z["replay"]["ops"]) + len(z["replay"].get("pre", [])))
            v = shrink(h, scn, v)
            v["replay"]["occurrences"] = sum(z["occurrences"] for z in vs)
            R.violation(v["signature"], v["what"], v["replay"])

        # ---- correspondence --------------------------------------------------------------------------------------
        drv = ctx.driver()
        if drv is not None:
            out = drv.batch(h.cmds)
            bad_sessions = set()
            for cmd, o, x, m in zip(h.cmds, out, h.expect, h.meta):
                if o == x:
                    R.traces += 1
                elif m[0] not in bad_sessions:           # later lines of the same history only cascade
                    bad_sessions.add(m[0])
                    s = h.sessions[m[0]] if m[0] >= 0 else None
                    rp = {"cmd": cmd}
                    if s is not None:
                        rp.update(dict(s.kindinfo, label=s.label, pre=s.pre, base=s.base, ops=s.ops[:m[1] + 1]))
                    R.mismatch(cmd[:200], rp, impl=x[:2000], model=o[:2000])
        else:
            R.extra["driver"] = "unavailable (Lean build failed) - oracles only"
        R.extra["sessions"] = len(h.sessions)
    finally:
        shutil.rmtree(h.tmp, ignore_errors=True)
    # ---- (c') unit operations inside an on-write hook are part of the save that runs the hook -------------------------
    h.tmp = tempfile.mkdtemp(prefix="c10h_")
    try:
        for v in hook_cases(h, ctx.budget(6, 40), rng):
            R.violation(v["signature"], v["what"], v["replay"])
    finally:
        shutil.rmtree(h.tmp, ignore_errors=True)
    # ---- (d) the same oracles on scenarios of the older versions (one process per version) --------------------------
    from harness import bases, vworker, codec_common as cc
    vs = [v for v in bases.versions() if v != bases.versions()[-1]]
    pick = vs if not ctx.quick else sorted({vs[0], vs[len(vs) // 2], vs[-1], rng.choice(vs)})
    per = vworker.run_versions("h_c10", "version_worker", pick,
                               {"seed": ctx.seed, "driver": ctx.driver_path, "nseq": ctx.budget(40, 300), "stride": 27 if ctx.quick else 3})
    cc.merge_results(R, per, "C10")
    R.extra["older_versions"] = pick
    return R.to_json(exhaustive=True)


def hook_cases(h, n, rng):
    """fresh scenario, a few operations, an `on_write` hook that adds / clones / removes units, ONE real save, re-load: the file
    holds the lists as they are after the hook ran, and its counter is larger than the ids the hook was given"""
    out = {}
    for i in range(n):
        sc, k0 = fresh_scenario()
        s = Session(h, sc, keep=False, counter=k0, record=False, label=f"hook{i}", kindinfo={"kind": "seq", "fresh": True, "hook": True})
        for _ in range(rng.choice([0, 2, 5])):
            op = rnd_op(rng, s)
            if op[0] == "add":
                op[1]["reference_id"] = None
            s.do(op)
        kinds = [rng.choice(["add", "clone", "remove"]) for _ in range(rng.choice([1, 2, 3]))]

        def hook(scn, kinds=kinds, s=s):
            for kd in kinds:          # through the session, so that its books (which objects are stored where) follow
                for _ in range(20):
                    op = rnd_op(rng, s)
                    if op[0] in (("add",) if kd == "add" else ("clone",) if kd == "clone" else ("remove_obj", "remove_id")):
                        break
                else:
                    op = rnd_add(rng, s)
                if op[0] == "add":
                    op[1]["reference_id"] = None
                s.do(op)
        sc.on_write(hook)
        s.ops.append(["hook"] + kinds)
        s.do(["savefile"])
        for v in s.violations:
            v["signature"] = dict(v["signature"], inside="on_write hook")
            out.setdefault(json.dumps(v["signature"], sort_keys=True), v)
        h.R.case(key=f"hook{i}:{kinds}", nontrivial=True, tags=("file:on-write-hook",))
    return list(out.values())


class _Ctx:
    quick = True


def version_worker(version, args):
    """oracles only (no model line): clone grid sample, random sequences, one real save + reload on a scenario of `version`"""
    import random
    from harness import bases, codec_common as cc
    common.lib_setup()
    from AoE2ScenarioParser.scenarios.aoe2_de_scenario import AoE2DEScenario
    rng = random.Random(f"C10v:{args['seed']}:{version}")
    R = common.Result("older versions"); R.export_keys = True
    h = H(_Ctx()); h.R = R
    h.tmp = tempfile.mkdtemp(prefix="c10v_")
    try:
        base = bases.base_file(version, args.get("driver"))
        with cc.quiet():
            scn = AoE2DEScenario.from_file(base)
        src = {"player": 3, "unit_const": 4, "x": 5, "y": 6.5, "z": 2, "rotation": 1.5, "garrisoned_in_id": 9,
               "animation_frame": 3, "status": 5, "reference_id": None, "caption_string_id": None, "tile": None}
        s = Session(h, scn, keep=False, record=False, label=f"v{version}-clone")
        s.record_cases = True
        s.do(["add", src])
        for n, combo in enumerate(itertools.product((0, 1, 2), repeat=9)):
            if n % args["stride"] != (args["seed"] % args["stride"]):
                continue
            c = {}
            for i, (k, sel) in enumerate(zip(CLONE_PARAMS, combo)):
                if sel:
                    c[k] = (0 if sel == 1 else 1) if k not in FLOATY else ([0, 0.0, -0.0][(n + i) % 3] if sel == 1 else [1, 1.5, 7.25][(n + i) % 3])
            c["_enum"] = bool(n & 1)
            u = s.do(["clone", 0, c])
            R.case(key=f"clone:{n}", nontrivial=bool(c), tags=("older:clone",))
            if u is not None:
                s.do(["remove_obj", len(s.objs) - 1])
        sessions = [s]
        for i in range(args["nseq"]):
            t = Session(h, scn, keep=i > 0 and rng.random() < 0.35, record=False, label=f"v{version}-seq{i}")
            for _ in range(rng.choice([6, 12, 25])):
                op = rnd_op(rng, t)
                if op[0] == "add":
                    op[1]["caption_string_id"] = None        # the attribute does not exist before 1.54
                t.do(op)
                R.case(key=f"seq{i}:{len(t.ops)}", nontrivial=True, tags=("older:" + op[0],))
            sessions.append(t)
        with cc.quiet():
            scn2 = AoE2DEScenario.from_file(base)
        t = Session(h, scn2, keep=False, counter=int(scn2.sections['DataHeader'].next_unit_id_to_place), record=False,
                    label=f"v{version}-file", kindinfo={"kind": "seq", "fresh": True})
        for _ in range(12):
            op = rnd_op(rng, t)
            if op[0] == "add":
                op[1]["caption_string_id"] = None
                if rng.random() < 0.7:
                    op[1]["reference_id"] = None
            t.do(op)
        t.do(["savefile"])
        R.case(key="file", nontrivial=True, tags=("older:savefile",))
        sessions.append(t)
        seen = {}
        for ss in sessions:
            for v in ss.violations:
                seen.setdefault(json.dumps(v["signature"], sort_keys=True), v)
        for v in seen.values():
            v["replay"]["version"] = version
            R.violation(v["signature"], f"version {version}: " + v["what"], v["replay"])
        return R.to_json()
    finally:
        shutil.rmtree(h.tmp, ignore_errors=True)
