"""One scenario version per process: `python -m harness.c1516_worker <c15|c16> <version> <tier> <seed> <escalate 0|1> <out.json>`.

Runs the REAL library on a live scenario of that version and writes, per case, the driver command, the canonical
observation of the implementation, the verdict of the direct property oracle and bookkeeping for the evidence.
"""
import json, os, random, shutil, sys, tempfile, warnings, hashlib

from harness import common, c1516_base as B


# ------------------------------------------------------------------------------------------------ values

class Canon:
    """canonical value syntax shared with the Lean driver: n | i<int> | s<id> | l<ints>"""
    def __init__(self, names):
        self.idx = {n: i for i, n in enumerate(names)}

    def val(self, v):
        if v is None:
            return "n"
        if isinstance(v, bool):
            return f"i{int(v)}"
        if isinstance(v, int):
            return f"i{int(v)}"
        if isinstance(v, str):
            if v.startswith("\x01S") and v[2:].isdigit():
                return f"s{1000000 + int(v[2:])}"
            if v in self.idx:
                return f"s{self.idx[v]}"
            return "s?" + hashlib.sha1(v.encode()).hexdigest()[:8]
        if isinstance(v, (list, tuple)) and all(isinstance(x, int) for x in v):
            return "l" + (",".join(str(int(x)) for x in v) if v else "-")
        return "?" + type(v).__name__

    def dict(self, d):
        return ";".join(f"{k}={self.val(d[k])}" for k in sorted(d)) if d else "-"


def sstr(n):
    """sentinel string number n (never a real name)"""
    return "\x01S%d" % n


def nat_list(l):
    return ",".join(str(int(x)) for x in l) if l else "-"


# ------------------------------------------------------------------------------------------------ C16

def expected_member(h, helpers):
    import re
    if h["deprecated"]:
        m = re.search(r"`([A-Za-z_0-9]+)`", h.get("deprecated_msg") or "")
        if m and any(x["name"] == m.group(1) for x in helpers):
            return expected_member(next(x for x in helpers if x["name"] == m.group(1)), helpers)
        return h["const"]          # no machine-readable target: fall back to the forwarded constant
    n = h["name"]
    return (n[:-1] if n.endswith("_") else n).upper()


def merged_defaults(vt_kind, ty):
    """{**default_attributes[0], **default_attributes[ty]} re-derived from the JSON the translator dumped (for the ORACLE)"""
    by = {t["id"]: t for t in vt_kind}
    if 0 not in by or ty not in by:
        return None
    d = {}
    for a, v in by[0]["defaults"]:
        d[a] = v
    for a, v in by[ty]["defaults"]:
        d[a] = v
    return {a: (None if v[0] == "none" else v[1]) for a, v in d.items()}


def run_c16(version, tier, seed, escalate, T):
    quick = tier == "quick"
    rng = random.Random(f"C16:{version}:{seed}")
    vt = next(v for v in T["versions"] if v["version"] == version)
    vh = vt["hundredths"]
    H = T["helpers"]
    C = Canon(T["names"])
    aa = H["aa"]
    scn = B.live(version, vt["has_default_scenario"])
    from AoE2ScenarioParser.scenarios.scenario_store import getters
    tm = scn.trigger_manager
    cases, violations = [], []
    EXCL = {"item_id", "legacy_location_object_reference", "_variable_ref"}
    AAK = ("armour_attack_class", "armour_attack_quantity")

    def width():
        return 16 if getters.get_trigger_version(scn.uuid) >= 2.5 else 8

    def aa_source(ty, oa):
        if ty in aa["aa_effects"] or (ty in aa["partial_q"] and oa in aa["aa_attrs"]):
            return "quantity"
        if ty in aa["partial_v"] and oa in aa["aa_attrs"]:
            return "variable"
        return None

    for kind, hkey, enum, typekey, new_attr, list_attr, order_attr in (
            ("e", "effect_helpers", "EffectId", "effect_type", "new_effect", "effects", "effect_order"),
            ("c", "condition_helpers", "ConditionId", "condition_type", "new_condition", "conditions", "condition_order")):
        table = vt["effects" if kind == "e" else "conditions"]
        ids = {t["id"] for t in table}
        d0 = merged_defaults(table, 0) or {}
        for h in H[hkey]:
            # the type the helper is NAMED after (not the constant it forwards): NAME.upper(), a trailing underscore dropped
            # (Python keyword clash); a @deprecated alias is named after the helper its message points to
            want_name = expected_member(h, H[hkey])
            if want_name not in H["enums"][enum]:
                cases.append({"cmd": f"helpers {kind}", "obs": f"helper {h['name']} is not named after an enum member", "key": f"{version}:{kind}:{h['name']}:name",
                              "nontrivial": False, "tags": ["name:unknown"]})
                continue
            ty = H["enums"][enum][want_name]
            has = ty in ids
            params = h["params"]
            md = merged_defaults(table, ty) if has else None

            # sentinel per parameter (distinct; ints ordered by parameter position so that x1 < x2, y1 < y2)
            def sentinel(p, i, salt=0):
                dv = d0.get(p, -1)
                if isinstance(dv, str):
                    return sstr(100 + 10 * i + salt)
                if p == "selected_object_ids":
                    return [1000 + 10 * i + salt, 2000 + 10 * i + salt] if (i + salt) % 2 == 0 else 3000 + 10 * i + salt
                return 100 + 10 * i + salt
            full = {p: sentinel(p, i) for i, p in enumerate(params)}
            for a, b in (("area_x1", "area_x2"), ("area_y1", "area_y2")):
                if a in full and b in full and full[a] > full[b]:
                    full[a], full[b] = full[b], full[a]
            argsets = [("none", {})]
            if has or not quick:
                argsets += [("one:" + p, {p: full[p]}) for p in params]
                argsets.append(("all", dict(full)))
                # guard-compatible maximal sets and a few random subsets
                for g in h["guards"]:
                    if g["shape"] == "anyThenNot":
                        argsets.append(("all-but:" + g["other"], {p: v for p, v in full.items() if p != g["other"]}))
                        argsets.append(("all-but-any", {p: v for p, v in full.items() if p not in g["any"]}))
                    else:
                        for val in g["values"]:
                            argsets.append((f"aa-attr:{val}", dict(full, **{g["attr"]: val})))
                            argsets.append((f"aa-attr-only:{val}", {g["attr"]: val, g["arg"]: full[g["arg"]]}))
                if kind == "e" and ty in aa["partial_q"]:
                    for val in aa["aa_attrs"]:
                        argsets.append((f"aaq:{val}", {"object_attributes": val, "armour_attack_class": 3, "armour_attack_quantity": 5}))
                        argsets.append((f"aaq-q:{val}", {"object_attributes": val, "quantity": 773}))
                        argsets.append((f"aaq-none:{val}", {"object_attributes": val}))
                        # exactly one half of the armour/attack pair supplied: it is a supplied argument like any other
                        argsets.append((f"aaq-class-only:{val}", {"object_attributes": val, "armour_attack_class": 3}))
                        argsets.append((f"aaq-quantity-only:{val}", {"object_attributes": val, "armour_attack_quantity": 5}))
                n_rand = (2 if quick else 8) * (3 if escalate else 1)
                for j in range(n_rand):
                    if len(params) >= 2:
                        sub = [p for p in params if rng.random() < 0.5]
                        argsets.append((f"rand{j}", {p: sentinel(p, params.index(p), salt=1 + j % 5) for p in sub}))
                # falsy but not None: 0 / [] must be stored like any other value (`is not None`, not truthiness)
                zeros = {p: (0 if not isinstance(full[p], (str, list)) else ([] if isinstance(full[p], list) else full[p])) for p in params}
                if any(v == 0 and not isinstance(v, list) for v in zeros.values()):
                    argsets.append(("zeros", zeros))
                # -1 is the library's "unset" marker for most attributes, but an explicitly SUPPLIED -1 is a supplied argument:
                # it must be stored, also where the type's default differs from -1 (e.g. timer(timer=-1) must not become 10)
                minus = {p: (-1 if not isinstance(full[p], (str, list)) else full[p]) for p in params}
                if any(v == -1 for v in minus.values()):
                    argsets.append(("minus-ones", minus))
                    for p in params:
                        if minus[p] == -1 and md is not None and md.get(p, -1) not in (-1, None, [], ""):
                            argsets.append((f"minus-one:{p}", {p: -1}))
                # explicit None is the same as not passing
                if params:
                    argsets.append(("explicit-none", {params[0]: None}))
            trig = tm.add_trigger(f"{kind}:{h['name']}")
            fn = getattr(getattr(trig, new_attr), h["name"], None)
            for label, args in argsets:
                lst = getattr(trig, list_attr)
                n_before = len(lst)
                # now and then scramble the display order first (the new index must still be appended last)
                if n_before >= 2 and rng.random() < 0.3:
                    perm = list(range(n_before)); rng.shuffle(perm)
                    setattr(trig, order_attr, perm)
                order_before = list(getattr(trig, order_attr))
                w = width()
                cmd = f"helper {vh} {kind} {h['name']} {w} {n_before} {nat_list(order_before)} {C.dict(args)}"
                case = {"cmd": cmd, "key": f"{version}:{kind}:{h['name']}:{label}", "tags": [f"kind:{kind}", f"args:{label.split(':')[0]}"],
                        "nontrivial": bool(args) and has, "helper": h["name"], "label": label}
                replay = {"version": version, "kind": kind, "helper": h["name"], "args": {k: (v if not isinstance(v, str) else v) for k, v in args.items()}}
                try:
                    with warnings.catch_warnings():
                        warnings.simplefilter("ignore")
                        if fn is None:
                            raise AttributeError(h["name"])
                        comp = fn(**args)
                except Exception as e:              # noqa
                    k = B.err_kind(e)
                    case["obs"] = "err " + k
                    case["tags"].append("result:" + k)
                    # ORACLE: a type the version has must not be refused for in-domain arguments
                    guard_hit = any((g["shape"] == "anyThenNot" and any(args.get(a) is not None for a in g["any"]) and args.get(g["other"]) is not None)
                                    or (g["shape"] == "needsIn" and args.get(g["arg"]) is not None and args.get(g["attr"]) not in g["values"])
                                    for g in h["guards"])
                    if has and not (k == "valueError" and guard_hit):
                        violations.append({"signature": {"clause": "creates", "kind": kind, "helper": h["name"], "error": k},
                                           "what": f"v{version}: {new_attr}.{h['name']}({args}) raised {type(e).__name__}: {str(e)[:120]} although type {ty} exists in this version",
                                           "replay": replay})
                    if not has and k != "unsupported" and not (k == "valueError" and guard_hit):      # a helper's own argument guard comes first
                        violations.append({"signature": {"clause": "lacks", "kind": kind, "helper": h["name"], "error": k},
                                           "what": f"v{version}: type {ty} is not in this version but {h['name']}() raised {type(e).__name__} instead of UnsupportedAttributeError",
                                           "replay": replay})
                    cases.append(case)
                    continue
                lst = getattr(trig, list_attr)
                order = list(getattr(trig, order_attr))
                pos = next((i for i, x in enumerate(lst) if x is comp), -1)
                cty = getattr(comp, typekey)
                keys = [k for k in (md or {}) if k not in EXCL]
                src = aa_source(int(cty) if cty is not None else None, getattr(comp, "object_attributes", None)) if kind == "e" else None
                if src == "quantity":
                    keys = [k for k in keys if k != "quantity"]
                attrs = {}
                for k in keys:
                    try:
                        attrs[k] = getattr(comp, k)
                    except Exception as e:      # noqa
                        attrs[k] = "\x00raise:" + type(e).__name__
                obs_attrs = ";".join(f"{k}={C.val(attrs[k]) if not (isinstance(attrs[k], str) and attrs[k].startswith(chr(0))) else '!' + attrs[k][7:]}" for k in sorted(attrs)) or "-"
                case["obs"] = f"ok type={int(cty) if cty is not None else '?'} pos={pos} order={nat_list(order)} attrs={obs_attrs}"
                case["tags"].append("result:ok")
                case["sample"] = {"version": version, "helper": h["name"], "args": {k: repr(v) for k, v in args.items()}, "type": int(cty) if cty is not None else None, "pos": pos}
                cases.append(case)

                # ---------------- ORACLE: the clauses of the property on the real component
                bad = []
                if not has:
                    bad.append(("lacks", f"type {ty} is not in v{version} but {h['name']}() returned a component"))
                else:
                    if cty != ty:
                        bad.append(("type", f"{h['name']}() created type {cty}, its name says {want_name} = {ty}"))
                    supplied = {p: v for p, v in args.items() if v is not None}
                    for p, v in supplied.items():
                        if p not in md or p in EXCL:
                            continue            # the type does not have this attribute in this version
                        if p == "quantity" and src == "quantity":
                            # packed with the armour/attack class (C17): a supplied packed quantity (and no pair) has to be what
                            # the effect hands back as its quantity - the argument may not be dropped for a default pair
                            if not any(k in supplied for k in AAK):
                                try:
                                    gq = comp.quantity
                                except Exception as e:      # noqa
                                    gq = "!" + type(e).__name__
                                if gq != v:
                                    bad.append(("argument", f"argument quantity={v!r} of {h['name']}({sorted(supplied)}) on an armour/attack attribute is handed back as {gq!r}"))
                            continue
                        if p in AAK and src is None:
                            continue            # N4 (helper docstring): only used when object_attributes is ATTACK/ARMOR
                        want = [v] if (p == "selected_object_ids" and isinstance(v, int)) else v
                        if attrs.get(p) != want:
                            bad.append(("argument", f"argument {p}={v!r} of {h['name']}() is stored as {attrs.get(p)!r}"))
                    for k in keys:
                        if k in supplied or k == typekey:
                            continue
                        dv, got = md[k], attrs.get(k)
                        if src is not None and k in AAK + ("quantity", "variable"):
                            continue            # armour/attack packing of an ATTACK/ARMOR attribute: C17's domain, compared with the model only
                        ok = got == dv
                        # documented normalisations of the constructors (design.d/C16.md N1-N3)
                        if not ok and k in ("armour_attack_class", "armour_attack_quantity"):
                            ok = (src is None and got is None) or (src == "variable" and k == "armour_attack_class" and not dv and got == 0)
                        if not ok and k in ("area_x2", "area_y2"):
                            one = "area_x1" if k == "area_x2" else "area_y1"
                            ok = dv in (None, -1) and attrs.get(one) not in (None, -1) and got == attrs.get(one)
                        if not ok:
                            bad.append(("default", f"attribute {k} of {h['name']}({sorted(supplied)}) is {got!r}, the default of type {ty} in v{version} is {dv!r}"))
                    if pos != n_before or len(lst) != n_before + 1:
                        bad.append(("appended", f"{h['name']}(): the component is at position {pos} of {len(lst)}, expected to be appended at {n_before}"))
                    if sorted(order_before) == list(range(n_before)) and order != order_before + [n_before]:
                        bad.append(("order", f"{h['name']}(): display order {order_before} became {order}, expected {order_before + [n_before]}"))
                for clause, what in bad[:3]:
                    violations.append({"signature": {"clause": clause, "kind": kind, "helper": h["name"]},
                                       "what": f"v{version}: " + what, "replay": replay})
    return {"cases": cases, "violations": violations, "version": version}


# ------------------------------------------------------------------------------------------------ main

def main():
    mode, version, tier, seed, escalate, out = sys.argv[1:7]
    common.lib_setup(xs_check=True)
    warnings.simplefilter("ignore")
    T = B.tables()
    if mode == "c16":
        res = run_c16(version, tier, int(seed), escalate == "1", T)
    elif mode == "c15":
        from harness import c15_worker
        res = c15_worker.run_c15(version, tier, int(seed), escalate == "1", T)
    else:
        raise SystemExit("mode?")
    with open(out, "w") as f:
        json.dump(res, f)


if __name__ == "__main__":
    main()
