"""C07 – reordering operations perform exactly the documented permutation.

Correspondence (shared command language, see harness/trig_lib.py and lean/Driver/TrigCommon.lean) plus the direct
oracle: the permutation laws of move / reorder / remove on the real objects, agreement of the three ways of selecting a
trigger, and "condition/effect order arrays stay permutations" under add/remove sequences on real Trigger objects.
"""
import itertools

from harness import common
from harness.trig_lib import Lib, Real, RealOA, Runner, c07_oracle, select_agreement, show_list
from harness.h_c06 import id_lists, effs_string


RULE = ("exhaustive small scope on detached TriggerManagerDE managers: for every trigger count n <= 4 (quick; n = 5 "
        "sampled, exhaustive in the thorough tier) all initial display orders x [move: all duplicate-free id lists x all "
        "insert positions 0..n+2; reorder: all permutations and the no-argument form; remove: all subsets by index, "
        "singles by display index / object; get: all selectors]; seeded random cases up to 40 triggers (also inside a live "
        "default scenario); order arrays: all add/remove/read sequences up to length 5 (quick) / 6 and random longer ones on "
        "real effect and condition lists. non-trivial = a state-changing operation on >= 2 triggers that completed "
        "(order arrays: a sequence containing a removal); distinct by (initial state, operation list)")


def ops_for_state(n, ks=None):
    ops = []
    for ids in id_lists(n):
        for k in (ks or range(n + 3)):
            ops.append(f"move {show_list(ids)} {k}")
    for p in itertools.permutations(range(n)):
        if n:
            ops.append(f"reorder {show_list(p)}")
    ops.append("reorder None")
    for k in range(1, n + 1):
        for sub in itertools.combinations(range(n), k):
            ops.append("remove " + ",".join(f"i{i}" for i in sub))
    for i in range(n):
        ops += [f"remove d{i}", f"remove o{i}", f"remove I{i}", f"get i{i}", f"get I{i}", f"get d{i}", f"get o{i}"]
    ops += [f"get i{n}", f"get d{n}", f"remove i{n}", f"move {n} 0", f"reorder {show_list(list(range(n)) + [n])}"]
    return ops


def oa_ops(n):
    """operations applicable to a component list of length n (plus one rejected removal)"""
    ops = ["append", "read"]
    for i in range(n + 1):
        ops += [f"rmat {i}", f"rmdisp {i}"]
    for i in range(n):
        ops.append(f"rmobj {i}")
    return ops


def run(ctx):
    lib = Lib.get()
    R = common.Result(RULE)
    rng = ctx.rng
    rn = Runner(ctx, R, lib, "C07")
    R.extra["model_variant"] = {"remove_fixed(F4)": rn.mode[0], "tree_fixed(F16)": rn.mode[1], "import_extends(F5)": rn.mode[2]}
    real = Real(lib, lib.detached())

    def case(r, env, base, ops, tags=()):
        rn.case(r, env, base, ops, tags=tags, oracle=c07_oracle)

    for c in ctx.corpus():
        rp = c.get("replay", c)
        if "base" in rp:
            case(real, rp.get("env", "detached"), rp["base"], rp.get("ops", []), tags=("corpus",))

    # ---- exhaustive: every n, every initial display order, every argument ------------------------------------
    nmax = 4 if ctx.quick else 5
    for n in range(0, nmax + 1):
        ops = ops_for_state(n)
        for oi, order in enumerate(itertools.permutations(range(n))):
            # a few activation effects ride along (they must not disturb the permutation laws)
            combo = () if oi % 3 else tuple((i, (i + 1) % n) for i in range(min(n, 2)))
            base = f"init {n} {effs_string(n, combo)} {show_list(order) if n else '-'}"
            for op in ops:
                case(real, "detached", base, [op])
            # selector agreement on this very state
            real.reset(); real.execute(base)
            for clause, text in select_agreement(real):
                rn.violation({"op": "get", "clause": clause}, f"{text} [state {base}]", {"env": "detached", "base": base, "ops": []}, len(base))
            R.case(key=("select", base), nontrivial=n >= 2, tags=("op:select", f"n:{n}"))
    if ctx.quick:
        n = 5
        ops = ops_for_state(n)
        orders = list(itertools.permutations(range(n)))
        for _ in range(ctx.budget(6000, 0)):
            base = f"init {n} - {show_list(rng.choice(orders))}"
            case(real, "detached", base, [rng.choice(ops)], tags=("sampled5",))

    # ---- two reordering operations in a row (the second starts from the first one's result) --------------------
    for _ in range(ctx.budget(3000, 40000)):
        n = rng.randrange(2, 6)
        order = list(range(n)); rng.shuffle(order)

        def gen(m, i, _n=n):
            if i >= 2:
                return None
            return rng.choice(cache.setdefault(m, ops_for_state(m))) if m <= 4 else f"move {show_list(rng.sample(range(m), rng.randrange(1, m + 1)))} {rng.randrange(m + 3)}"
        case(real, "detached", f"init {n} - {show_list(order)}", gen, tags=("seq2",))

    # ---- random, up to 40 triggers --------------------------------------------------------------------------
    def big_case(r, env):
        n = rng.randrange(6, 41)
        order = list(range(n)); rng.shuffle(order)
        base = f"init {n} - {show_list(order)}"
        k = rng.randrange(4)
        if k == 0:
            op = f"move {show_list(rng.sample(range(n), rng.randrange(1, n + 1)))} {rng.randrange(n + 3)}"
        elif k == 1:
            p = list(range(n)); rng.shuffle(p)
            op = rng.choice([f"reorder {show_list(p)}", "reorder None"])
        elif k == 2:
            ids = rng.sample(range(n), rng.randrange(1, n + 1))
            op = "remove " + ",".join(rng.choice("iI") + str(i) for i in ids)
        else:
            op = f"get {rng.choice('iIdo')}{rng.randrange(n)}"
        case(r, env, base, [op], tags=("big",))

    for _ in range(ctx.budget(700, 12000)):
        big_case(real, "detached")
    scn = lib.live()
    lreal = Real(lib, scn.trigger_manager)
    for _ in range(ctx.budget(150, 2000)):
        big_case(lreal, "live")
    for n in (2, 3):
        for order in itertools.permutations(range(n)):
            for op in ops_for_state(n):
                case(lreal, "live", f"init {n} - {show_list(order)}", [op], tags=("live",))

    # ---- order arrays of effects and conditions ---------------------------------------------------------------
    oas = {"e": RealOA(lib, "e"), "c": RealOA(lib, "c")}

    def oa_case(seq, tags=()):
        """run the same command sequence on a real effect list and a real condition list; the model is asked once per kind"""
        for kind, ro in oas.items():
            rn.push("oa reset", "ok", None)
            ro.reset()
            n, hist, status, removed = 0, [], "ok", False
            for cmd in seq:
                hist.append(cmd)
                replay = {"env": "oa-" + kind, "oa": list(hist)}
                if cmd == "read":
                    obs, items, order = ro.execute("oa obs")
                    rn.push("oa obs", obs, replay)
                    if obs == "error" or sorted(order) != list(range(len(items))):
                        rn.violation({"op": "order-array", "kind": kind, "clause": "order-perm"},
                                     f"{'effect' if kind == 'e' else 'condition'} order {order} is not a permutation of its {len(items or [])} components after {hist}",
                                     replay, len(hist))
                        status = "violation"; break
                    continue
                obs, _, _ = ro.execute("oa " + cmd)
                rn.push("oa " + cmd, obs, replay)
                if obs == "error":
                    status = "error"; break
                removed = removed or cmd.startswith("rm")
            else:
                obs, items, order = ro.execute("oa obs")
                rn.push("oa obs", obs, {"env": "oa-" + kind, "oa": list(hist) + ["read"]})
                if obs == "error" or sorted(order) != list(range(len(items))):
                    rn.violation({"op": "order-array", "kind": kind, "clause": "order-perm"},
                                 f"order {order} is not a permutation of its {len(items or [])} components after {hist}",
                                 {"env": "oa-" + kind, "oa": list(hist)}, len(hist))
            R.case(key=("oa", kind) + tuple(seq), nontrivial=removed and status == "ok", tags=("op:order-array", "st:" + status) + tuple(tags),
                   sample={"env": "oa-" + kind, "oa": list(seq)})

    for c in ctx.corpus():
        rp = c.get("replay", c)
        if "oa" in rp:
            oa_case(rp["oa"], tags=("corpus",))

    def enum(prefix, n, depth):
        if depth == 0:
            oa_case(prefix); return
        for op in oa_ops(n):
            k = op.split()[0]
            bad = (k in ("rmat", "rmdisp") and int(op.split()[1]) >= n)
            if bad:
                oa_case(prefix + [op]); continue       # rejected: the history ends here
            n2 = n + 1 if k == "append" else n - 1 if k.startswith("rm") else n
            enum(prefix + [op], n2, depth - 1)

    # start from lists of 0..3 components with every display order set by the user, then every sequence
    depth = 3 if ctx.quick else 4
    for n0 in range(0, 4):
        for perm in itertools.permutations(range(n0)):
            pre = ["append"] * n0 + (["read", f"setorder {show_list(perm)}"] if n0 else [])
            enum(pre, n0, depth)
    for _ in range(ctx.budget(1500, 30000)):
        n, seq = 0, []
        for _ in range(rng.randrange(3, 25)):
            op = rng.choice(oa_ops(n)[: -1 if rng.random() < 0.97 and n else None] if n else ["append", "append", "read"])
            k = op.split()[0]
            if k in ("rmat", "rmdisp") and int(op.split()[1]) >= n and rng.random() < 0.9:
                op = "append"; k = "append"
            if rng.random() < 0.05 and n:
                p = list(range(n)); rng.shuffle(p)
                seq += ["read", f"setorder {show_list(p)}"]
            seq.append(op)
            n = n + 1 if k == "append" else n - 1 if k.startswith("rm") else n
            if n < 0:
                break
        oa_case(seq, tags=("oa-random",))

    # ---- a trigger and its copy: additions / removals on one leave the order arrays of the other alone ----------------
    def twin_case(pre, post, kind):
        ro = oas[kind]
        ro.reset()
        for cmd in pre:
            ro.execute("oa " + ("obs" if cmd == "read" else cmd))
        orig = ro.t
        lst = (lambda t: t.effects) if kind == "e" else (lambda t: t.conditions)
        oarr_raw = (lambda t: list(t.effect_order)) if kind == "e" else (lambda t: list(t.condition_order))

        def oarr(t):            # reading an order array that raises is reported like one that is no permutation
            st_, v_ = common.outcome(oarr_raw, t)
            return v_ if st_ == "ok" else ["raises " + str(v_)]
        st, twin = common.outcome(lambda: ro.tm.copy_trigger(lib.TS.trigger(orig)))
        if st != "ok":
            return
        for a, b, label in ((orig, twin, "original edited, copy read"), (twin, orig, "copy edited, original read")):
            want_n, want_o = len(lst(b)), oarr(b)
            ro.t = a
            for cmd in post:
                ro.execute("oa " + cmd)
            own_o = oarr(a)                 # the edited trigger's own order is read first (as any listing of both would)
            got_n, got_o = len(lst(b)), oarr(b)
            ok = got_n == want_n and got_o == want_o and sorted(map(str, got_o)) == sorted(map(str, range(got_n))) and \
                sorted(map(str, own_o)) == sorted(map(str, range(len(lst(a)))))
            R.case(key=("twin", kind, label) + tuple(pre) + ("|",) + tuple(post), nontrivial=True, tags=("op:order-array-twin",))
            if not ok:
                rn.violation({"op": "order-array", "kind": kind, "clause": "order-perm", "how": "trigger and its copy"},
                             f"{label}: after {pre} / copy_trigger / {post} on the other one, the untouched trigger has {got_n} components "
                             f"and order {got_o} (was {want_n} / {want_o})", {"env": "oa-twin-" + kind, "pre": list(pre), "post": list(post)}, len(pre) + len(post))
                break
        ro.t = orig

    for kind in ("e", "c"):
        for n0 in (1, 2, 3):
            for post in (["append"], ["rmat 0"], ["append", "append", "rmat 1"], ["rmat 0", "append"]):
                twin_case(["append"] * n0 + ["read"], post, kind)
        for _ in range(ctx.budget(40, 600)):
            n0 = rng.randrange(1, 5)
            p = list(range(n0)); rng.shuffle(p)
            post, n = [], n0
            for _ in range(rng.randrange(1, 6)):
                if n and rng.random() < 0.5:
                    post.append(f"rmat {rng.randrange(n)}"); n -= 1
                else:
                    post.append("append"); n += 1
            twin_case(["append"] * n0 + ["read", f"setorder {show_list(p)}"], post, kind)

    rn.flush_violations()
    rn.compare()
    return R.to_json(exhaustive=True)


cache = {}
