"""C14 – area selections: correspondence (real `Area` objects vs the Lean model `Aoe.Area`) + direct oracle.

Observations compared (DESIGN 2.4): the public results only – `get_raw_selection()`, the coordinate sequence of
`to_coords()`, `is_within_selection(x, y)` for every tile of the map, `to_chunks()` as a set of sets, `ok|error`.

The oracle does NOT reuse the library's predicates: every pattern is (re)built constructively from the documented
meaning (blocks / lines / corner rectangles / border distance laid out from the first corner of the visible
selection), see `doc_pattern`.
"""
import itertools
from harness import common

STATES = ("full", "edge", "grid", "lines", "corners")
PARAMS = ("gx", "gy", "lx", "ly", "bx", "by", "cx", "cy")
DEFAULTS = dict(gx=1, gy=1, lx=1, ly=1, bx=1, by=1, ax="o", cx=1, cy=1)


# ------------------------------------------------------------------------------------------------------------------
# independent definition of the patterns (from the docstrings of area.py)
# ------------------------------------------------------------------------------------------------------------------
def visible(size, raw):
    """the in-map part of the raw rectangle: (X1, Y1, X2, Y2) or None when the rectangle misses the map"""
    (x1, y1), (x2, y2) = raw
    X1, Y1, X2, Y2 = max(x1, 0), max(y1, 0), min(x2, size - 1), min(y2, size - 1)
    if X1 > X2 or Y1 > Y2:
        return None
    return X1, Y1, X2, Y2


def in_domain(c):
    """parameter combinations the property speaks about: non-negative sizes with a positive period, a real axis"""
    st = c["st"]
    if st == "edge":
        return c["lx"] >= 0 and c["ly"] >= 0
    if st == "grid":
        return min(c["bx"], c["by"], c["gx"], c["gy"]) >= 0 and c["bx"] + c["gx"] >= 1 and c["by"] + c["gy"] >= 1
    if st == "lines":
        if c["ax"] == "x":
            return c["ly"] >= 0 and c["gy"] >= 0 and c["ly"] + c["gy"] >= 1
        if c["ax"] == "y":
            return c["lx"] >= 0 and c["gx"] >= 0 and c["lx"] + c["gx"] >= 1
        return False
    if st == "corners":
        return c["cx"] >= 0 and c["cy"] >= 0
    return True


def doc_pattern(c, vis):
    """tile -> frozenset(labels of the blocks / lines / corners the tile belongs to), for every tile of the visible
    selection that the pattern selects (before inversion). Built by laying the pattern out, no modulus."""
    X1, Y1, X2, Y2 = vis
    st = c["st"]
    out = {}
    xs, ys = range(X1, X2 + 1), range(Y1, Y2 + 1)
    if st == "full":
        for y in ys:
            for x in xs:
                out[(x, y)] = frozenset([0])
    elif st == "edge":
        # "only use the edge of the selection", line_width_x/_y = width of the x / y edge line:
        # a tile is on the edge when it is closer than the line width to the nearest border of that direction
        for y in ys:
            for x in xs:
                if min(x - X1, X2 - x) < c["lx"] or min(y - Y1, Y2 - y) < c["ly"]:
                    out[(x, y)] = frozenset([0])
    elif st == "grid":
        # blocks of block_size_x × block_size_y tiles separated by gap_size_x / gap_size_y, first block in the first corner
        i, x0 = 0, X1
        while x0 <= X2:
            j, y0 = 0, Y1
            while y0 <= Y2:
                for y in range(y0, min(y0 + c["by"], Y2 + 1)):
                    for x in range(x0, min(x0 + c["bx"], X2 + 1)):
                        out[(x, y)] = frozenset([(i, j)])
                j, y0 = j + 1, y0 + c["by"] + c["gy"]
            i, x0 = i + 1, x0 + c["bx"] + c["gx"]
    elif st == "lines":
        # lines following the axis; along "x" they are stacked in the y direction (and use the _y sizes)
        if c["ax"] == "x":
            k, y0 = 0, Y1
            while y0 <= Y2:
                for y in range(y0, min(y0 + c["ly"], Y2 + 1)):
                    for x in xs:
                        out[(x, y)] = frozenset([k])
                k, y0 = k + 1, y0 + c["ly"] + c["gy"]
        else:
            k, x0 = 0, X1
            while x0 <= X2:
                for x in range(x0, min(x0 + c["lx"], X2 + 1)):
                    for y in ys:
                        out[(x, y)] = frozenset([k])
                k, x0 = k + 1, x0 + c["lx"] + c["gx"]
    elif st == "corners":
        # four rectangles of corner_size_x × corner_size_y in the four corners of the selection
        cx, cy = c["cx"], c["cy"]
        rects = {"W": (X1, X1 + cx - 1, Y1, Y1 + cy - 1), "N": (X2 - cx + 1, X2, Y1, Y1 + cy - 1),
                 "E": (X2 - cx + 1, X2, Y2 - cy + 1, Y2), "S": (X1, X1 + cx - 1, Y2 - cy + 1, Y2)}
        for name, (a, b, lo, hi) in rects.items():
            for y in range(max(lo, Y1), min(hi, Y2) + 1):
                for x in range(max(a, X1), min(b, X2) + 1):
                    out[(x, y)] = out.get((x, y), frozenset()) | {name}
    return out


def expected_set(c, raw):
    """(S, labels, selection) – S = the tiles the property says to_coords must return"""
    vis = visible(c["size"], raw)
    if vis is None:
        return set(), {}, set()
    X1, Y1, X2, Y2 = vis
    sel = {(x, y) for y in range(Y1, Y2 + 1) for x in range(X1, X2 + 1)}
    lab = doc_pattern(c, vis)
    S = (sel - set(lab)) if c["inv"] else set(lab)
    return S, lab, sel


# ------------------------------------------------------------------------------------------------------------------
def case_cmd(c):
    r = ",".join("N" if v is None else str(v) for v in c["rect"])
    return (f"area size={c['size']} via={c['via']} rect={r} st={c['st']} inv={1 if c['inv'] else 0} "
            f"gx={c['gx']} gy={c['gy']} lx={c['lx']} ly={c['ly']} bx={c['bx']} by={c['by']} ax={c['ax']} "
            f"cx={c['cx']} cy={c['cy']}")


def fmt_tiles(l):
    return ";".join(f"{x},{y}" for x, y in l) if l else "-"


def canon_chunks(chunks):
    cs = [sorted(ch, key=lambda t: (t[1], t[0])) for ch in chunks if len(ch)]
    cs.sort(key=lambda ch: (ch[0][1], ch[0][0]))
    return "|".join(fmt_tiles(ch) for ch in cs) if cs else "-"


def run(ctx):
    common.lib_setup()
    from AoE2ScenarioParser.objects.support.area import Area, AreaAttr
    rng = ctx.rng

    R = common.Result(
        "real Area objects with explicit map_size. quick: every rectangle with corners in [-1, n]^2 of every map "
        "n = 1..8 (7932 rectangles, partly-outside ones included) x one configuration each, cycling through all 236 "
        "(state x sizes 1..3 x axis x inverted) configurations; 8 chosen rectangles x all 236; seeded random on maps up "
        "to 60x60 and with odd parameters (0, negative, x/y sizes differing, invalid axis, swapped / -1 / None corners "
        "through the constructor and select). thorough: maps n <= 3 x all rectangles x all 236 configurations "
        "(full cross product), maps 4..8 x all rectangles x 12 configurations each, 20 chosen rectangles x all 236, "
        "more random. non-trivial = expected set has >= 2 tiles and (pattern states) is a proper non-empty subset of the "
        "visible rectangle, or (FULL) the rectangle is clipped by the map; distinct by the whole case tuple")

    cmds, expect, metas = [], [], []
    per_sig = {}
    live = {}

    # ---- run one case on the real code -------------------------------------------------------------------------
    def build(c):
        x1, y1, x2, y2 = c["rect"]
        w = c.get("warm")
        if w:
            # an Area object with a previous life: same map, same pattern configuration, ANOTHER rectangle; every
            # observer is consumed once, then only the rectangle is changed (select / direct assignment / on a copy())
            a = Area(map_size=c["size"], x1=w[0], y1=w[1], x2=w[2], y2=w[3])
        elif c.get("live") == "reused":
            # ONE Area object of the live scenario, created before the first resize and used again after every resize
            a = live["area"].select(x1, y1, x2, y2)
        elif c.get("live"):
            # an Area handed out by a live scenario (it asks the scenario for the map size); the map was resized before
            a = live["scn"].new.area().select(x1, y1, x2, y2)
        elif c["via"] == "ctor":
            a = Area(map_size=c["size"], x1=x1, y1=y1, x2=x2, y2=y2)
        elif c["via"] == "select":
            a = Area(map_size=c["size"]).select(x1, y1, x2, y2)
        else:
            a = Area(map_size=c["size"])
            a.x1, a.y1, a.x2, a.y2 = x1, y1, x2, y2
        configure(a, c)
        if w:
            for f in (a.to_coords, a.to_chunks, lambda: a.is_within_selection(0, 0)):
                common.outcome(f)
            if w[4] == "copy":
                a = a.copy()
            if c["via"] == "set":
                a.x1, a.y1, a.x2, a.y2 = x1, y1, x2, y2
            else:
                a.select(x1, y1, x2, y2)
        return a

    def configure(a, c):
        st = c["st"]
        axis = {"x": "x", "y": "y", "o": None}[c["ax"]]
        # every size through the documented per-axis attributes, then the state through its use_* function
        # every size through the documented per-axis attributes, then the state through its use_* function; in the
        # `akeys` variant the state is chosen first (use_* without sizes) and the eight sizes are then set one key at a time
        # through `attr(AreaAttr.<KEY>, value)` (y before x, so that a key landing on its neighbour shows)
        akeys = bool(c["flip"]) and (c["size"] + c["gx"] + c["by"] + c["cx"]) % 2 == 0
        if akeys:
            {"full": a.use_full, "edge": a.use_only_edge, "grid": a.use_pattern_grid, "corners": a.use_only_corners,
             "lines": (lambda: a.use_pattern_lines(axis=axis))}[st]()
            for key, v in ((AreaAttr.GAP_SIZE_Y, c["gy"]), (AreaAttr.GAP_SIZE_X, c["gx"]), (AreaAttr.LINE_WIDTH_Y, c["ly"]),
                           (AreaAttr.LINE_WIDTH_X, c["lx"]), (AreaAttr.BLOCK_SIZE_X, c["bx"]), (AreaAttr.BLOCK_SIZE_Y, c["by"]),
                           (AreaAttr.CORNER_SIZE_X, c["cx"]), (AreaAttr.CORNER_SIZE_Y, c["cy"])):
                a.attr(key, v)
            st = "done"
        else:
            a.attrs(gap_size_x=c["gx"], gap_size_y=c["gy"], line_width_x=c["lx"], line_width_y=c["ly"],
                    block_size_x=c["bx"], block_size_y=c["by"], corner_size_x=c["cx"], corner_size_y=c["cy"])
        if st == "full":
            a.use_full()
        elif st == "edge":
            if c["lx"] == c["ly"] and c["flip"]:
                a.use_only_edge(line_width=c["lx"])
            else:
                a.use_only_edge(line_width_x=c["lx"], line_width_y=c["ly"])
        elif st == "grid":
            if c["bx"] == c["by"] and c["gx"] == c["gy"] and c["flip"]:
                a.use_pattern_grid(block_size=c["bx"], gap_size=c["gx"])
            else:
                a.use_pattern_grid(block_size_x=c["bx"], block_size_y=c["by"], gap_size_x=c["gx"], gap_size_y=c["gy"])
        elif st == "lines":
            if c["lx"] == c["ly"] and c["gx"] == c["gy"] and c["flip"]:
                a.use_pattern_lines(axis=axis, gap_size=c["gx"], line_width=c["lx"])
            else:
                a.use_pattern_lines(axis=axis)
        elif st == "corners":
            if c["cx"] == c["cy"] and c["flip"]:
                a.use_only_corners(corner_size=c["cx"])
            else:
                a.use_only_corners(corner_size_x=c["cx"], corner_size_y=c["cy"])
        if c["ax"] == "o" and c["st"] != "lines" and c["flip"]:
            a.along_axis("diagonal")
        elif c["ax"] != "o" and c["st"] != "lines":
            a.along_axis(axis)
        if c["inv"]:
            a.invert()
        return a

    def observe(c):
        """returns (observation line, data for the oracle)"""
        st, a = common.outcome(build, c)
        if st != "ok":
            return "error", None
        raw = a.get_raw_selection()
        n = c["size"]
        s1, co = common.outcome(lambda: [(t.x, t.y) for t in a.to_coords()])
        w = []
        for y in range(n):
            for x in range(n):
                s, v = common.outcome(a.is_within_selection, x, y)
                w.append("E" if s != "ok" else ("1" if v else "0"))
        s3, ch = common.outcome(lambda: [[(t.x, t.y) for t in chunk] for chunk in a.to_chunks()])
        obs = (f"raw={raw[0][0]},{raw[0][1]},{raw[1][0]},{raw[1][1]} c={fmt_tiles(co) if s1 == 'ok' else 'E'} "
               f"w={''.join(w) if w else '-'} k={canon_chunks(ch) if s3 == 'ok' else 'E'}")
        return obs, dict(raw=raw, coords=co if s1 == "ok" else None, within=w,
                         chunks=ch if s3 == "ok" else None, chunk_err=ch if s3 != "ok" else None)

    # ---- the property, clause by clause, on the real result ----------------------------------------------------
    def oracle(c, d):
        """list of (signature, text) of the clauses that are false"""
        bad = []
        if d is None or not in_domain(c):
            return bad
        n = c["size"]
        S, lab, sel = expected_set(c, d["raw"])
        base = {"state": c["st"], "inverted": bool(c["inv"])}
        want = sorted(S, key=lambda t: (t[1], t[0]))
        if d["coords"] is None:
            bad.append(({**base, "clause": "to_coords-raises"}, "to_coords raised on an in-domain configuration"))
        elif d["coords"] != want:
            kind = "order" if sorted(d["coords"]) == sorted(want) else "set"
            bad.append(({**base, "clause": "to_coords-" + kind},
                        f"to_coords = {d['coords'][:12]}… expected (row-major) {want[:12]}…"))
        for y in range(n):
            for x in range(n):
                got = d["within"][y * n + x]
                if got != ("1" if (x, y) in S else "0"):
                    bad.append(({**base, "clause": "is_within_selection"},
                                f"is_within_selection({x},{y}) = {got}, membership = {(x, y) in S}"))
                    break
            else:
                continue
            break
        inverted_corners = c["st"] == "corners" and c["inv"]
        if d["chunks"] is None:
            if not inverted_corners:
                bad.append(({**base, "clause": "to_chunks-raises"}, "to_chunks raised on a chunkable configuration"))
            elif d["chunk_err"] != "ValueError":
                bad.append(({**base, "clause": "to_chunks-raises-other"},
                            f"inverted corners: documented ValueError, got {d['chunk_err']}"))
        else:
            flat = [t for ch in d["chunks"] for t in ch]
            if sorted(flat) != sorted(S):
                bad.append(({**base, "clause": "chunks-partition"},
                            f"chunks hold {len(flat)} tiles ({len(set(flat))} distinct), the selection has {len(S)}"))
            if not c["inv"] and c["st"] in ("grid", "lines", "corners"):
                overlapping = c["st"] == "corners" and any(len(v) > 1 for v in lab.values())
                if not overlapping:
                    for ch in d["chunks"]:
                        labs = {lab.get(t) for t in ch}
                        if len(labs) > 1:
                            sig = {**base, "clause": "chunks-separate"}
                            if c["st"] == "grid":
                                X1, Y1, X2, Y2 = visible(n, d["raw"])
                                px = c["bx"] + c["gx"]
                                ncols = -(-(X2 - X1 + 1) // px)
                                sig["blocks_per_row"] = ("more-than-ceil(height/period_x)"
                                                         if ncols > -(-(Y2 - Y1 + 1) // px) else "within-ceil(height/period_x)")
                            two = sorted(ch, key=lambda t: str(lab.get(t)))
                            part = lambda t: sorted(lab[t]) if t in lab else "no part of the pattern"
                            bad.append((sig, f"one chunk holds tiles of different {c['st']} parts: "
                                             f"{two[0]} in {part(two[0])} and {two[-1]} in {part(two[-1])}"))
                            break
        return bad

    def failing_sigs(c):
        obs, d = observe(c)
        return [s for s, _ in oracle(c, d)]

    # ---- greedy shrinking of a violating case (cheap: 0.2 ms per evaluation) -----------------------------------
    def shrink(c, sig):
        cur = dict(c)

        def still(cand):
            try:
                return sig in failing_sigs(cand)
            except Exception:       # noqa
                return False
        changed, rounds = True, 0
        while changed and rounds < 30:
            changed, rounds = False, rounds + 1
            if cur["via"] != "set" and None not in cur["rect"]:
                cand = {**cur, "via": "set"}
                if still(cand):
                    cur, changed = cand, True
            for tgt in range(1, cur["size"]):
                cand = {**cur, "size": tgt}
                if still(cand):
                    cur, changed = cand, True
                    break
            for i in range(4):
                v = cur["rect"][i]
                if v is None:
                    continue
                for nv in ([0] if v != 0 else []) + ([v - 1] if v > 0 else []) + ([v + 1] if v < 0 else []):
                    r = list(cur["rect"]); r[i] = nv
                    cand = {**cur, "rect": tuple(r)}
                    if still(cand):
                        cur, changed = cand, True
                        break
            for p in PARAMS:
                for nv in ([1] if cur[p] != 1 else []) + ([cur[p] - 1] if cur[p] > 2 else []):
                    cand = {**cur, p: nv}
                    if still(cand):
                        cur, changed = cand, True
                        break
            if cur["ax"] != "o" and cur["st"] != "lines":
                cand = {**cur, "ax": "o"}
                if still(cand):
                    cur, changed = cand, True
        return cur

    # ---- one case ------------------------------------------------------------------------------------------------
    def do(c, origin):
        c = {**DEFAULTS, "flip": False, **c}
        c["rect"] = tuple(c["rect"])
        obs, d = observe(c)
        cmds.append(case_cmd(c)); expect.append(obs); metas.append(c)
        nontrivial = False
        tags = [origin, "st:" + c["st"] + ("-inv" if c["inv"] else ""), "via:" + c["via"],
                "map:" + ("1-3" if c["size"] <= 3 else "4-8" if c["size"] <= 8 else "9-60")]
        if d is None:
            tags.append("construct:error")
        else:
            dom = in_domain(c)
            tags.append("domain:in" if dom else "domain:out")
            if d["coords"] is None:
                tags.append("to_coords:error")
            if d["chunks"] is None:
                tags.append("to_chunks:error")
            if dom:
                S, lab, sel = expected_set(c, d["raw"])
                (x1, y1), (x2, y2) = d["raw"]
                clipped = bool(sel) and (x1 < 0 or y1 < 0 or x2 >= c["size"] or y2 >= c["size"])
                if clipped:
                    tags.append("rect:clipped")
                elif not sel:
                    tags.append("rect:outside")
                if sel and (x2 - x1) != (y2 - y1):
                    tags.append("rect:non-square")
                nontrivial = len(S) >= 2 and (clipped if c["st"] == "full" else 0 < len(S) < len(sel))
        if c.get("warm"):
            tags.append("area-object:reused" + ("-copy" if c["warm"][4] == "copy" else ""))
        R.case(key=case_cmd(c) + ("f" if c["flip"] else "") + (str(c["warm"]) if c.get("warm") else ""), nontrivial=nontrivial, tags=tags,
               sample={"case": case_cmd(c), "obs": obs[:300]} if nontrivial and R.evaluations % 97 == 0 else None)
        for sig, text in oracle(c, d):
            key = tuple(sorted(sig.items()))
            per_sig[key] = per_sig.get(key, 0) + 1
            if per_sig[key] > 2:          # one signature is reported at most twice (shrunk), never crowds out others
                continue
            small = shrink(c, sig)
            sobs, sd = observe(small)
            stext = next((t for s, t in oracle(small, sd) if s == sig), text)
            R.violation(sig, f"{case_cmd(small)} :: {stext}", {"case": {k: small[k] for k in small}, "found_as": case_cmd(c)})

    # ---- generators ----------------------------------------------------------------------------------------------
    def all_rects(n):
        vals = list(range(-1, n + 1))
        for y1 in vals:
            for y2 in vals:
                if y2 < y1:
                    continue
                for x1 in vals:
                    for x2 in vals:
                        if x2 >= x1:
                            yield (x1, y1, x2, y2)

    def all_configs():
        out = []
        for inv in (False, True):
            out.append(dict(st="full", inv=inv))
            for lx in (1, 2, 3):
                for ly in (1, 2, 3):
                    out.append(dict(st="edge", inv=inv, lx=lx, ly=ly))
                    out.append(dict(st="corners", inv=inv, cx=lx, cy=ly))
            for bx, by, gx, gy in itertools.product((1, 2, 3), repeat=4):
                out.append(dict(st="grid", inv=inv, bx=bx, by=by, gx=gx, gy=gy))
            for ax in ("x", "y"):
                for lw in (1, 2, 3):
                    for g in (1, 2, 3):
                        out.append(dict(st="lines", inv=inv, ax=ax, lx=lw, ly=lw, gx=g, gy=g))
        return out

    CONFIGS = all_configs()
    assert len(CONFIGS) == 236
    by_state = {s: [c for c in CONFIGS if c["st"] == s] for s in STATES}
    counter = [rng.randrange(236)]

    def via_for(rect, i):
        if -1 in rect:          # -1 means "not given" to the constructor / wraps in select: those quirks are exercised
            return "set"        # by the random part; the exhaustive part wants exactly this rectangle
        return ("set", "ctor", "select")[i % 3]

    def cross(n, rects, configs, origin):
        for i, r in enumerate(rects):
            for j, cf in enumerate(configs):
                do({"size": n, "via": via_for(r, i + j), "rect": r, "flip": (i + j) % 2 == 0, **cf}, origin)

    def cycle(n, rects, k, origin):
        """every rectangle x k configurations, walking through the 236 so that all of them (and all states) come up"""
        for i, r in enumerate(rects):
            for j in range(k):
                counter[0] = (counter[0] + 37) % 236       # 37 is coprime to 236
                cf = CONFIGS[counter[0]]
                if k >= 5 and j < 5:                       # thorough: each state at least once per rectangle
                    pool = by_state[STATES[j]]
                    cf = pool[(counter[0] * 7 + i) % len(pool)]
                cc = {"size": n, "via": via_for(r, i + j), "rect": r, "flip": (i + j) % 2 == 1, **cf}
                if (i + j) % 4 == 3 and cc["via"] != "ctor" and None not in r:
                    cc["warm"] = (0, 0, (i * 7 + j) % n, (i * 3 + 1) % n, "copy" if i % 2 else "same")
                do(cc, origin)

    def random_case(maxn, odd):
        n = rng.randint(1, maxn)
        lo, hi = -3, n + 2
        r = [rng.randint(lo, hi) for _ in range(4)]
        via = rng.choice(("ctor", "select", "set"))
        if not odd or via == "set":
            r = [min(r[0], r[2]), min(r[1], r[3]), max(r[0], r[2]), max(r[1], r[3])]
            if not odd and -1 in r:
                via = "set"
        if rng.random() < 0.35:      # wide or tall: the shapes test_area never uses
            if rng.random() < 0.5:
                r[0], r[2] = rng.randint(lo, 1), rng.randint(max(1, n - 2), hi)
            else:
                r[1], r[3] = rng.randint(lo, 1), rng.randint(max(1, n - 2), hi)
        if odd and via != "set" and rng.random() < 0.2:
            r[2 + rng.randrange(2)] = None
        c = {"size": n, "via": via, "rect": tuple(r), "st": rng.choice(STATES), "inv": rng.random() < 0.4,
             "flip": rng.random() < 0.5, "ax": rng.choice("xyo") if odd else rng.choice("xy")}
        small = rng.random() < 0.7
        for p in PARAMS:
            if odd:
                c[p] = rng.choice((0, 1, 1, 2, 3, 4, 5, -1, -2)) if rng.random() < 0.5 else rng.randint(1, 4)
            else:
                c[p] = rng.randint(1, 3 if small else max(3, n // 3))
        if c["st"] == "lines" and c["ax"] == "o" and not odd:
            c["ax"] = "x"
        if not odd and None not in r and rng.random() < 0.3:
            a_, b_ = sorted((rng.randint(0, n - 1), rng.randint(0, n - 1)))
            c_, d_ = sorted((rng.randint(0, n - 1), rng.randint(0, n - 1)))
            c["warm"] = (a_, c_, b_, d_, rng.choice(("same", "copy")))
            if c["via"] == "ctor":
                c["via"] = "select"
        return c

    CHOSEN = [(8, (0, 0, 7, 7)), (8, (1, 1, 6, 3)), (8, (-1, 2, 8, 4)), (8, (2, 0, 4, 7)), (7, (0, 1, 6, 2)),
              (8, (0, 0, 7, 0)), (6, (1, -1, 5, 6)), (8, (3, 3, 8, 8)),
              (8, (0, 0, 7, 2)), (8, (0, 0, 2, 7)), (8, (1, 2, 7, 5)), (8, (2, 1, 5, 7)), (7, (-1, -1, 7, 7)),
              (8, (0, 5, 8, 8)), (8, (5, -1, 8, 8)), (5, (0, 0, 4, 2)), (5, (0, 0, 2, 4)), (8, (0, 0, 0, 7)),
              (6, (0, 0, 5, 3)), (8, (4, 4, 4, 4))]

    # ---- corpus first ---------------------------------------------------------------------------------------------
    for entry in ctx.corpus():
        rp = entry.get("replay", entry)
        if "case" in rp:
            do(dict(rp["case"]), "corpus")

    # ---- systematic part ------------------------------------------------------------------------------------------
    if ctx.quick:
        for n in range(1, 9):
            cycle(n, list(all_rects(n)), 1, "cycle")
        for n, r in CHOSEN[:8]:
            cross(n, [r], CONFIGS, "chosen")
        n_big, n_small, n_odd = ctx.budget(1500, 0), ctx.budget(2500, 0), ctx.budget(1500, 0)
    else:
        for n in (1, 2, 3):
            cross(n, list(all_rects(n)), CONFIGS, "cross")
        for n in range(4, 9):
            cycle(n, list(all_rects(n)), 12, "cycle")
        for n, r in CHOSEN:
            cross(n, [r], CONFIGS, "chosen")
        n_big, n_small, n_odd = ctx.budget(0, 6000), ctx.budget(0, 8000), ctx.budget(0, 6000)
    for _ in range(n_small):
        do(random_case(8, False), "random-small")
    for _ in range(n_odd):
        do(random_case(9, True), "random-odd")
    for _ in range(n_big):
        do(random_case(60, rng.random() < 0.15), "random-big")

    # ---- areas of a live scenario whose map is resized between the uses ---------------------------------------------
    from AoE2ScenarioParser.scenarios.aoe2_de_scenario import AoE2DEScenario
    import contextlib, io
    with contextlib.redirect_stdout(io.StringIO()):
        live["scn"] = AoE2DEScenario.from_default()
        live["area"] = live["scn"].new.area()
        live["area"].select_entire_map().to_coords()
    for n in ([9, 5, 12, 3] if ctx.quick else [9, 5, 12, 3, 20, 7, 1, 8]):
        live["scn"].map_manager.map_size = n
        for _ in range(ctx.budget(25, 120)):
            c = random_case(n, False)
            c["size"] = n
            r = [min(max(v if v is not None else 0, 0), n) for v in c["rect"]]
            c["rect"] = (min(r[0], r[2]), min(r[1], r[3]), max(r[0], r[2]), max(r[1], r[3]))
            c.pop("warm", None)
            c["live"], c["via"] = True, "select"
            if -1 in c["rect"]:
                continue
            do(c, "live-resized")
            if not c["inv"] and c["ax"] != "o":
                c2 = dict(c, live="reused", flip=False)
                do(c2, "live-resized-same-area")

    # ---- correspondence: diff against the Lean model --------------------------------------------------------------
    drv = ctx.driver()
    if drv is not None:
        out = drv.batch(cmds)
        pinned, repaired, neither = [], [], []
        for i, (o, x) in enumerate(zip(out, expect)):
            main, _, alt = o.partition(" alt=")
            if main == x:
                R.traces += 1
                if alt:
                    pinned.append(i)         # the two tiles-per-row variants differ and the code behaves as pinned
            elif alt and main.rsplit(" k=", 1)[0] + " k=" + alt == x:
                repaired.append(i)           # ... and the code behaves as the proposed repair (F10 applied)
            else:
                neither.append(i)
        R.extra["grid_tiles_per_row"] = {"cases_where_variants_differ": len(pinned) + len(repaired),
                                         "as_pinned(height)": len(pinned), "as_repaired(width)": len(repaired)}
        if repaired and not pinned:
            R.traces += len(repaired)        # uniformly the repaired variant: the model with PerRow.width applies
            R.extra["model_variant"] = "PerRow.width (F10 repaired)"
        else:
            R.extra["model_variant"] = "PerRow.height (pinned)"
            neither += repaired              # mixed behaviour matches neither model
        for i in neither[:50]:
            R.mismatch(cmds[i], {"case": metas[i]}, impl=expect[i][:2000], model=out[i][:2000])
    else:
        R.extra["driver"] = "unavailable (Lean build failed) - oracles only"
    return R.to_json(exhaustive=True)
