"""C19 - inspecting a scenario never fails: correspondence (real objects vs Lean model Aoe.Render) + direct oracles.

Observations compared (DESIGN 2.4): `ok | raised` of every rendering call, and the (name, index, display) triples parsed
from the manager summary / content text.  Nothing else of the text, never the exception class (it goes into the replay).

Oracle (the property's own clauses, on the real objects):
  * every rendering call (str(), get_content_as_string, get_summary_as_string, get_trigger_as_string) of effects,
    conditions, triggers, managers, units returns, for every state inside the property's domain;
  * the trigger listing (summary and content) shows, for d, i in enumerate(display order), exactly
    (triggers[i].name, i, d) - hence every trigger exactly once when the display order is a permutation.
Domain of the oracle ("reachable through the API"): integer attributes hold ints (dangling / out-of-range / unknown ids
included), string attributes hold strings, selected_object_ids an int list, the armour/attack pair and quantity may be
None/[] (the library's own defaults); order arrays are permutations.  Ill-typed values (a string or list in an int
attribute ...) and non-permutation order arrays are still run and compared with the model (which predicts the TypeError /
IndexError), but are not judged by the oracle (tag `outside-domain`).

One scenario version per process: version 1.54 runs in this process (live `AoE2DEScenario.from_default()` + detached
`TriggerManagerDE`), every other version's tables run in their own subprocess (`python -m harness.h_c19 --worker ...`,
detached managers after `_initialise_version_dependencies`).
"""
import contextlib, io, json, os, re, subprocess, sys, time, random, collections

from harness import common

GEN = os.path.join(common.ROOT, "gen", "presentation.json")

NAMES = ["a", "beta x", "T[0]", "it's", "ünï", "x [Index: 9, Display: 9]", "", "a_rather_long_trigger_name_of_forty_chars", "#7", "q\"q"]


# ---------------------------------------------------------------------------------------------------------------
# value encoding for the driver
def enc_val(v):
    if isinstance(v, bool):
        return None
    if isinstance(v, int):
        return "i%d" % int(v)
    if v is None:
        return "n"
    if isinstance(v, str):
        return "s" + v.encode("utf-8").hex()
    if isinstance(v, list) and all(isinstance(x, int) and not isinstance(x, bool) for x in v):
        return "l" + (",".join(str(int(x)) for x in v) if v else "-")
    return None


def hx(s):
    return s.encode("utf-8").hex() or "-"


def ilist(l):
    return ",".join(str(int(x)) for x in l) if l else "-"


def is_perm(order, n):
    try:
        return sorted(order) == list(range(n))
    except TypeError:
        return False


class Worker:
    """All cases of one scenario version (one process)."""

    def __init__(self, version, tier, seed, escalate, driver_path, budget_scale=1.0):
        self.version, self.tier, self.quick = version, tier, tier == "quick"
        self.escalate = escalate
        self.rng = random.Random(f"C19:{seed}:{version}")
        self.driver_path = driver_path
        self.scale = budget_scale
        self.R = common.Result("")
        self.cmds, self.expect, self.meta = [], [], []
        self.gen = json.load(open(GEN))
        self.e_names, self.c_names = self.gen["e_names"], self.gen["c_names"]
        self.e_idx = {a: i for i, a in enumerate(self.e_names)}
        self.c_idx = {a: i for i, a in enumerate(self.c_names)}
        self.seen_sig = set()
        self.flags = None
        self.cur_state_key = None
        self.cur_tm = None
        self.setup()

    def budget(self, q, t):
        b = q if self.quick else t
        b = int(b * self.scale)
        return b * 3 if self.escalate else b

    # -----------------------------------------------------------------------------------------------------------
    def setup(self):
        common.lib_setup()
        from AoE2ScenarioParser.datasets import effects, conditions
        from AoE2ScenarioParser.datasets.effects import EffectId
        from AoE2ScenarioParser.datasets.trigger_lists import ObjectAttribute
        from AoE2ScenarioParser.objects.managers.de.trigger_manager_de import TriggerManagerDE
        self.effects, self.conditions, self.EffectId, self.ObjectAttribute = effects, conditions, EffectId, ObjectAttribute
        self.TriggerManagerDE = TriggerManagerDE
        self.scn = None
        if self.version == "1.54":
            from AoE2ScenarioParser.scenarios.aoe2_de_scenario import AoE2DEScenario
            with contextlib.redirect_stdout(io.StringIO()):
                self.scn = AoE2DEScenario.from_default()
            um = self.scn.unit_manager
            um.add_unit(1, 4, 1.5, 2.5)              # archer
            um.add_unit(2, 9999, 3.5, 2.5)           # unit constant unknown to the datasets
            um.add_unit(0, 59, 5.5, 5.5)             # gaia
            self.unit_ids = [int(u.reference_id) for u in um.get_all_units()]
        else:
            from AoE2ScenarioParser.scenarios.aoe2_scenario import _initialise_version_dependencies
            _initialise_version_dependencies("DE", self.version)
            self.unit_ids = []
        AA = [EffectId.CHANGE_OBJECT_ATTACK, EffectId.CHANGE_OBJECT_ARMOR, EffectId.CREATE_OBJECT_ATTACK, EffectId.CREATE_OBJECT_ARMOR]
        self.AA = [int(x) for x in AA]
        self.PQ = [int(EffectId.MODIFY_ATTRIBUTE)]
        self.PV = [int(EffectId.MODIFY_ATTRIBUTE_BY_VARIABLE), int(EffectId.MODIFY_VARIABLE_BY_ATTRIBUTE)]
        self.AATTR = [int(ObjectAttribute.ATTACK), int(ObjectAttribute.ARMOR)]
        self.e_str = {a for a, d in effects.empty_attributes.items() if isinstance(d, str)}
        self.c_str = {a for a, d in conditions.empty_attributes.items() if isinstance(d, str)}
        self.e_own = set(effects.default_attributes.get(0, {}))
        self.c_own = set(conditions.default_attributes.get(0, {}))
        self.cmd("version " + self.version, "ok e=%d c=%d" % (len(effects.attributes), len(conditions.attributes)), ("version",))

    # the armour/attack source of an effect, from public values only (mirrors the documented family)
    def aa_src(self, ty, oa):
        try:
            if ty in self.AA or (ty in self.PQ and oa in self.AATTR):
                return "q"
            if ty in self.PV and oa in self.AATTR:
                return "v"
        except TypeError:
            pass
        return "n"

    def cmd(self, c, x, m):
        self.cmds.append(c); self.expect.append(x); self.meta.append(m)

    # -----------------------------------------------------------------------------------------------------------
    # realising a state spec through the API
    def new_manager(self, live):
        if live:
            tm = self.scn.trigger_manager
            tm.triggers = []
            tm.variables = []
            return tm
        return self.TriggerManagerDE([], [], [])

    def make_obj(self, trig, kind, ospec):
        """ospec = {"type": int, "attrs": [[name, value], ...], "via": "set"|"new"}; returns the object or raises"""
        ty = ospec["type"]
        if kind == "effect":
            if ospec.get("via") == "new":
                name = self.effects.effect_names[ty]
                return getattr(trig.new_effect, name)(**{a: v for a, v in ospec["attrs"]})
            o = trig.new_effect.none()
            o.effect_type = ty
        else:
            if ospec.get("via") == "new":
                name = self.conditions.condition_names[ty]
                return getattr(trig.new_condition, name if name not in ("or", "and") else name + "_")(**{a: v for a, v in ospec["attrs"]})
            o = trig.new_condition.none()
            o.condition_type = ty
        for a, v in ospec["attrs"]:
            setattr(o, a, v)
        return o

    def realise(self, spec):
        """spec = {"live": bool, "triggers": [{"name", "effects": [ospec], "conditions": [ospec], "effect_order", "condition_order"}],
                   "variables": [[id, name]], "ops": [[op, ...]]}"""
        import warnings
        with warnings.catch_warnings():
            warnings.simplefilter("ignore")
            tm = self.new_manager(spec["live"])
            self.assigned_bad = False          # did the case itself assign an order array that is no permutation?
            for ts in spec["triggers"]:
                t = tm.add_trigger(ts["name"])
                for os_ in ts.get("conditions", []):
                    self.make_obj(t, "condition", os_)
                for os_ in ts.get("effects", []):
                    self.make_obj(t, "effect", os_)
                if ts.get("condition_order") is not None:
                    self.assigned_bad |= not is_perm(ts["condition_order"], len(t.conditions))
                    t.condition_order = list(ts["condition_order"])
                if ts.get("effect_order") is not None:
                    self.assigned_bad |= not is_perm(ts["effect_order"], len(t.effects))
                    t.effect_order = list(ts["effect_order"])
            for vid, name in spec.get("variables", []):
                tm.add_variable(name, vid)
            for op in spec.get("ops", []):
                if op[0] == "setorder":
                    self.assigned_bad |= not is_perm(op[1], len(tm.triggers))
                    tm.trigger_display_order = list(op[1])
                elif op[0] == "copy":
                    tm.copy_trigger(op[1], append_after_source=bool(op[2]))
                elif op[0] == "remove":
                    tm.remove_trigger(op[1])
                elif op[0] == "move":
                    tm.move_triggers(list(op[1]), op[2])
                elif op[0] == "rmeff":           # removals AFTER a custom display order: the order arrays shrink
                    tm.triggers[op[1]].remove_effect(effect_index=op[2])
                elif op[0] == "rmcond":
                    tm.triggers[op[1]].remove_condition(condition_index=op[2])
                elif op[0] == "deltrig":
                    del tm.triggers[op[1]]
                elif op[0] == "settrig":         # re-point an effect after the structural operations
                    tm.triggers[op[1]].effects[op[2]].trigger_id = op[3]
        return tm

    # -----------------------------------------------------------------------------------------------------------
    # reading the public state back and sending it to the model
    def read_obj(self, kind, o):
        """-> (type, src, {attr: value}) through public attributes; None when a value cannot be sent to the model"""
        names = self.e_names if kind == "effect" else self.c_names
        ty = o.effect_type if kind == "effect" else o.condition_type
        src = "n"
        if kind == "effect":
            src = self.aa_src(ty, o.object_attributes)
        vals = {}
        for a in names:
            if kind == "effect" and a == "quantity" and src == "q":
                continue            # merged property; the value is never shown for these effects
            vals[a] = getattr(o, a)
        return ty, src, vals

    def obj_words(self, kind, ty, src, vals):
        idx = self.e_idx if kind == "effect" else self.c_idx
        if not isinstance(ty, int) or isinstance(ty, bool):
            return None
        w = [str(int(ty))] + ([src] if kind == "effect" else [])
        for a, v in vals.items():
            if isinstance(v, int) and not isinstance(v, bool) and v == -1:
                continue
            e = enc_val(v)
            if e is None:
                return None
            w.append("%d=%s" % (idx[a], e))
        return " ".join(w)

    def in_domain_obj(self, kind, vals):
        strs = self.e_str if kind == "effect" else self.c_str
        own = self.e_own if kind == "effect" else self.c_own
        for a, v in vals.items():
            if v is None and a not in own:
                continue            # attribute newer than this scenario version: the library itself leaves it at None
            if a in strs:
                ok = isinstance(v, str)
            elif a == "selected_object_ids":
                ok = isinstance(v, list) and all(isinstance(x, int) and not isinstance(x, bool) for x in v)
            elif a in ("armour_attack_quantity", "armour_attack_class"):
                ok = v is None or v == [] or (isinstance(v, int) and not isinstance(v, bool))
            elif a == "quantity":
                ok = v is None or (isinstance(v, int) and not isinstance(v, bool))
            else:
                ok = isinstance(v, int) and not isinstance(v, bool)
            if not ok:
                return False
        return True

    def send_state(self, tm, live):
        """queue the commands describing the manager; returns (sendable, in_domain, info)"""
        lines = ["mclear", "world live=%d units=%s" % (1 if live else 0, ilist(self.unit_ids if live else []))]
        in_dom = True
        sendable = True
        self.perms_ok = True              # the order arrays, as the library hands them out, are permutations
        n = len(tm.triggers)
        for t in tm.triggers:
            if not isinstance(t.name, str):
                sendable = False
                break
            lines.append("tnew " + hx(t.name))
            for kind, objs in (("condition", t.conditions), ("effect", t.effects)):
                for o in objs:
                    st, r = common.outcome(self.read_obj, kind, o)
                    if st != "ok":
                        sendable = False; in_dom = False
                        continue
                    ty, src, vals = r
                    w = self.obj_words(kind, ty, src, vals)
                    if w is None:
                        sendable = False
                    else:
                        lines.append(("tcond " if kind == "condition" else "teff ") + w)
                    in_dom = in_dom and self.in_domain_obj(kind, vals)
            co, eo = list(t.condition_order), list(t.effect_order)
            if not (all(isinstance(x, int) for x in co) and all(isinstance(x, int) for x in eo)):
                sendable = False
            else:
                lines.append("torder c=%s e=%s" % (ilist(co), ilist(eo)))
            self.perms_ok = self.perms_ok and is_perm(co, len(t.conditions)) and is_perm(eo, len(t.effects))
        order = list(tm.trigger_display_order)
        if not all(isinstance(x, int) for x in order):
            sendable = False
        else:
            lines.append("morder " + ilist(order))
        self.perms_ok = self.perms_ok and is_perm(order, n)
        vs = [(v.variable_id, v.name) for v in tm.variables]
        if all(isinstance(i, int) and isinstance(nm, str) for i, nm in vs):
            lines.append("mvars " + (",".join("%d:%s" % (i, hx(nm)) for i, nm in vs) if vs else "-"))
        else:
            sendable = False
        if sendable:
            for l in lines:
                self.cmd(l, "ok", ("state",))
        return sendable, in_dom

    # -----------------------------------------------------------------------------------------------------------
    def flags_probe(self):
        """Which of the four recorded defects does the tree under test still have?  (model parameters `Fix`)"""
        P = probes(self)
        fl = {}
        for key in ("trig", "condName", "presDefault", "aaSkip"):
            spec = P.get(key)
            if spec is None:
                fl[key] = 0
                continue
            st, _ = self.render_single(spec, record=False)
            fl[key] = 0 if st is None or st.get(spec["call"]) == "raised" else 1
        self.flags = fl
        self.cmd("fix %d %d %d %d" % (fl["trig"], fl["condName"], fl["presDefault"], fl["aaSkip"]), "ok", ("fix",))
        self.R.extra.setdefault("model_params", {})[self.version] = fl

    # -----------------------------------------------------------------------------------------------------------
    # single effect / condition cases
    def render_single(self, spec, record=True, tags=()):
        """spec = {"live", "kind": effect|condition, "obj": ospec, "triggers": [names], "variables": [[id,name]], "call": ...}
        returns ({"str": ok|raised, "content": ok|raised}, info) or (None, reason)"""
        kind = spec["kind"]
        state = {"live": spec["live"], "triggers": [{"name": n} for n in spec.get("triggers", ["t0", "t1"])],
                 "variables": spec.get("variables", [])}
        key = json.dumps(state, sort_keys=True)
        if record and self.cur_state_key == key and self.cur_tm is not None and not spec.get("fresh"):
            tm = self.cur_tm
        else:
            self.cur_state_key = None
            st, tm = common.outcome(self.realise, state)
            if st != "ok":
                return None, "setup:" + tm
            if record:
                ok, _ = self.send_state(tm, spec["live"])
                self.cur_state_key, self.cur_tm = (key, tm) if ok else (None, None)
        host = tm.triggers[0]
        import warnings
        with warnings.catch_warnings():
            warnings.simplefilter("ignore")
            st, o = common.outcome(self.make_obj, host, kind, spec["obj"])
        lst = host.effects if kind == "effect" else host.conditions
        if st != "ok":
            del lst[:]
            return None, "setup:" + o
        res, exc = {}, {}
        for call, f in (("str", lambda: str(o)), ("content", lambda: o.get_content_as_string())):
            s, r = common.outcome(f)
            res[call] = "ok" if s == "ok" else "raised"
            if s != "ok":
                exc[call] = r
            elif not isinstance(r, str):
                res[call] = "raised"; exc[call] = "not-a-string"
        info = {"exc": exc}
        if record:
            s, r = common.outcome(self.read_obj, kind, o)
            if s == "ok":
                ty, src, vals = r
                dom = self.in_domain_obj(kind, vals)
                w = self.obj_words(kind, ty, src, vals)
                shown = [a for a, v in vals.items() if not self.hidden(v)]
                info.update(dom=dom, shown=shown, ty=ty, src=src)
                if w is not None:
                    for call in ("str", "content"):
                        self.cmd(("eff " if kind == "effect" else "cond ") + call + " " + w, res[call], ("single", spec, call))
            else:
                info.update(dom=False, shown=[], ty=None, src="n")
        del lst[:]
        return res, info

    @staticmethod
    def hidden(v):
        try:
            return v in [[], [-1], [''], "", " ", -1]
        except Exception:
            return False

    def single_case(self, spec, tags=()):
        res, info = self.render_single(spec)
        if res is None:
            self.R.case(tags=("setup-rejected",))
            return
        dom = info.get("dom", False)
        key = (self.version, spec["live"], spec["kind"], json.dumps(spec["obj"], sort_keys=True, default=str), tuple(spec.get("triggers", ())))
        self.R.case(key=key, nontrivial=bool(info.get("shown")),
                    sample={"version": self.version, "spec": spec, "obs": res},
                    tags=tuple(tags) + (spec["kind"] + (":live" if spec["live"] else ":detached"),
                                        "obs:" + res["str"] + "/" + res["content"], "domain" if dom else "outside-domain"))
        if dom and "raised" in res.values():
            self.report(spec, res, info, level="object")

    # -----------------------------------------------------------------------------------------------------------
    # classification of a failing in-domain input (by the input class, not by the exception class)
    def classify(self, spec, res):
        kind, ospec = spec["kind"], spec["obj"]
        ds = self.effects if kind == "effect" else self.conditions
        names = ds.effect_names if kind == "effect" else ds.condition_names
        ty = ospec["type"]
        attrs = dict((a, v) for a, v in ospec["attrs"])
        pres = ds.attribute_presentation
        alist = ds.attributes.get(ty, list(ds.empty_attributes))
        n = len(spec.get("triggers", ["t0", "t1"]))
        if res["content"] == "ok":
            if kind == "condition" and ty not in names:
                return "unknown-condition-type-name"
            return "other:str-only"
        if kind == "effect":
            src = self.aa_src(ty, attrs.get("object_attributes", -1))
            if src == "q" and "quantity" in alist:
                c, q = attrs.get("armour_attack_class"), attrs.get("armour_attack_quantity")
                if not spec["live"] or not (isinstance(c, int) and isinstance(q, int)):
                    return "armour-attack-quantity-getter"
        if ty in pres:
            for a, v in attrs.items():
                if a not in alist or self.hidden(v):
                    continue
                rep = pres[ty].get(a, pres.get(-1, {}).get(a))
                if rep == "TriggerId" and isinstance(v, int) and (not spec["live"] or v >= n or v < -n):
                    return "dangling-trigger-reference"
        if ty == -1 and ty in pres and ty not in ds.attributes:
            return "default-row-used-as-type"
        return "other"

    def minimise(self, spec, res):
        """drop attribute assignments one at a time while the same calls still raise"""
        want = {c for c, r in res.items() if r == "raised"}
        cur = json.loads(json.dumps(spec))
        cur["fresh"] = True
        changed = True
        while changed:
            changed = False
            for i in range(len(cur["obj"]["attrs"])):
                cand = json.loads(json.dumps(cur))
                del cand["obj"]["attrs"][i]
                r, _ = self.render_single(cand, record=False)
                if r is not None and {c for c, x in r.items() if x == "raised"} >= want:
                    cur = cand; changed = True
                    break
        if len(cur.get("triggers", [])) > 1 and cur["live"]:
            cand = json.loads(json.dumps(cur)); cand["triggers"] = cand["triggers"][:1]
            r, _ = self.render_single(cand, record=False)
            if r is not None and {c for c, x in r.items() if x == "raised"} >= want:
                cur = cand
        cur.pop("fresh", None)
        return cur

    def report(self, spec, res, info, level, via=None):
        small = self.minimise(spec, res)
        r2, i2 = self.render_single(small, record=False)
        if r2 is None:
            small, r2, i2 = spec, res, info
        cause = self.classify(small, r2)
        sig = {"cause": cause, "object": small["kind"], "level": level}
        if cause.startswith("other"):
            sig["attrs"] = sorted(a for a, _ in small["obj"]["attrs"])
            sig["type_known"] = small["obj"]["type"] in (self.effects.attributes if small["kind"] == "effect" else self.conditions.attributes)
        self.R.dist["violation:" + cause] += 1
        k = json.dumps(sig, sort_keys=True)
        if k in self.seen_sig:
            return
        self.seen_sig.add(k)
        calls = [c for c, x in r2.items() if x == "raised"]
        what = (f"version {self.version}: {'/'.join(calls)} of a {small['kind']} (type {small['obj']['type']}, "
                f"{dict((a, v) for a, v in small['obj']['attrs'])}, {'live scenario' if small['live'] else 'detached manager'}, "
                f"{len(small.get('triggers', [0, 0]))} trigger(s)) raises {i2.get('exc')}"
                + (f"; reached through {via}" if via else ""))
        rp = {"version": self.version, "single": small, "exception": i2.get("exc"), "level": level}
        if via:
            rp["via"] = via
        self.R.violation(sig, what, rp)

    # -----------------------------------------------------------------------------------------------------------
    # manager / trigger level cases
    SUMMARY_RE = re.compile(r"^\t(.*) \[Index: (-?\d+), Display: (\d+)\] *\t\(conditions: (\d+),  effects: (\d+)\)$")
    CONTENT_RE = re.compile(r"^\t'(.*)' \[Index: (-?\d+), Display: (\d+|None)\]:$")

    def parse_summary(self, text):
        body = text.split("\nVariables Summary:\n")[0]
        out = []
        for line in body.split("\n"):
            m = self.SUMMARY_RE.match(line)
            if m:
                out.append((m.group(1).rstrip(" "), int(m.group(2)), int(m.group(3))))
        return out

    def parse_content(self, text):
        body = text.rsplit("Variables:\n", 1)[0]
        out = []
        for line in body.split("\n"):
            m = self.CONTENT_RE.match(line)
            if m:
                out.append((m.group(1), int(m.group(2)), None if m.group(3) == "None" else int(m.group(3))))
        return out

    @staticmethod
    def show_triples(tr):
        return ",".join("%s:%d:%s" % (hx(n), i, d) for n, i, d in tr) if tr else "-"

    def manager_case(self, spec, tags=()):
        st, tm = common.outcome(self.realise, spec)
        if st != "ok":
            self.R.case(tags=("setup-rejected",))
            return
        self.cur_state_key = None
        live = spec["live"]
        st, r = common.outcome(self.send_state, tm, live)
        if st != "ok":
            self.R.case(tags=("state-unreadable",))
            return
        sendable, dom = r
        # order arrays that are no permutations are outside the domain only when the case ASSIGNED such an array; when
        # every assigned order was a permutation and the rest was done by the library (add / remove / copy / move), the
        # state is reachable through the API and the property speaks about it
        dom = dom and (self.perms_ok or not self.assigned_bad)
        n = len(tm.triggers)
        obs = {}
        calls = [("summary", tm.get_summary_as_string), ("content", tm.get_content_as_string), ("str", lambda: str(tm))]
        raised = []
        texts = {}
        for name, f in calls:
            s, r = common.outcome(f)
            if s == "ok" and not isinstance(r, str):
                s, r = "error", "not-a-string"
            obs[name] = "ok" if s == "ok" else "raised"
            if s == "ok":
                texts[name] = r
            else:
                raised.append((name, r))
        tobs = []
        for i, t in enumerate(tm.triggers):
            s1, r1 = common.outcome(lambda: str(t))
            s2, r2 = common.outcome(t.get_content_as_string)
            s3, r3 = common.outcome(tm.get_trigger_as_string, i) if dom else ("ok", "")
            tobs.append("ok" if s2 == "ok" else "raised")
            for s, r, nm in ((s1, r1, "str(trigger)"), (s2, r2, "trigger.get_content_as_string"), (s3, r3, "get_trigger_as_string")):
                if s != "ok":
                    raised.append((nm, r))
        # listing
        tri_s = self.parse_summary(texts["summary"]) if "summary" in texts else None
        tri_c = self.parse_content(texts["content"]) if "content" in texts else None
        if sendable:
            self.cmd("summary", "ok " + self.show_triples(tri_s) if tri_s is not None else "raised", ("manager", spec, "summary"))
            self.cmd("content", "ok " + self.show_triples(tri_c) if tri_c is not None else "raised", ("manager", spec, "content"))
            for i, o in enumerate(tobs):
                self.cmd("trigger %d" % i, o, ("manager", spec, "trigger %d" % i))
        nobj = sum(len(t.effects) + len(t.conditions) for t in tm.triggers)
        self.R.case(key=(self.version, json.dumps(spec, sort_keys=True, default=str)), nontrivial=n >= 1 and nobj >= 1,
                    sample={"version": self.version, "spec": spec, "obs": obs, "summary": tri_s},
                    tags=tuple(tags) + ("manager:live" if live else "manager:detached", "triggers:%d" % min(n, 6),
                                        "mobs:" + "/".join(obs[k] for k in ("summary", "content")), "domain" if dom else "outside-domain"))
        if not dom:
            return
        order = list(tm.trigger_display_order)
        if not is_perm(order, n):
            # reached only when every assigned order was a permutation: the library itself lost the permutation
            sig = {"cause": "display-order-not-a-permutation", "level": "manager"}
            k = json.dumps(sig, sort_keys=True)
            if k not in self.seen_sig:
                self.seen_sig.add(k)
                self.R.violation(sig, f"version {self.version}: after API operations with permutations only, trigger_display_order is {order} "
                                      f"for {n} triggers: the listing cannot show every trigger exactly once ({[x[0] for x in raised]} raised)",
                                 {"version": self.version, "manager": spec})
            return
        want = [(tm.triggers[i].name, i, d) for d, i in enumerate(order)]
        # oracle 1: nothing raises (reporting re-uses the live manager, so everything is read before)
        if raised:
            self.report_manager(spec, tm, raised)
        # oracle 2: the listing clause
        for nm, got in (("summary", tri_s), ("content", tri_c)):
            if got is None:
                continue
            if got != want or sorted(i for _, i, _ in got) != list(range(n)):
                sig = {"cause": "listing", "call": nm, "level": "manager"}
                k = json.dumps(sig, sort_keys=True)
                self.R.dist["violation:listing"] += 1
                if k not in self.seen_sig:
                    self.seen_sig.add(k)
                    self.R.violation(sig, f"version {self.version}: {nm} lists {got}, the manager holds {want}",
                                     {"version": self.version, "manager": spec, "call": nm, "listed": got, "expected": want})

    def report_manager(self, spec, tm, raised):
        """attribute a manager-level failure to the first effect/condition of the final state that fails on its own"""
        names = [t.name for t in tm.triggers] or ["t0"]
        failing = None
        for t in tm.triggers:
            for kind, objs in (("condition", t.conditions), ("effect", t.effects)):
                for o in objs:
                    s, _ = common.outcome(o.get_content_as_string)
                    if s != "ok" and failing is None:
                        s2, r2 = common.outcome(self.read_obj, kind, o)
                        if s2 == "ok":
                            ty, src, vals = r2
                            first = [a for a in ("object_attributes",) if a in vals]
                            attrs = [[a, vals[a]] for a in first + [a for a in vals if a not in first]
                                     if not (isinstance(vals[a], int) and not isinstance(vals[a], bool) and vals[a] == -1)
                                     and a not in ("effect_type", "condition_type", "item_id")]
                            failing = {"live": spec["live"], "kind": kind, "obj": {"type": ty, "attrs": attrs}, "triggers": names,
                                       "variables": [[v.variable_id, v.name] for v in tm.variables], "call": "content", "fresh": True}
        if failing is not None:
            r, info = self.render_single(failing, record=False)
            if r is not None and r["content"] == "raised":
                failing.pop("fresh")
                self.report(failing, r, info, level="manager", via=sorted({x[0] for x in raised}))
                return
        sig = {"cause": "other-manager", "calls": sorted({x[0] for x in raised}), "level": "manager"}
        k = json.dumps(sig, sort_keys=True)
        self.R.dist["violation:other-manager"] += 1
        if k not in self.seen_sig:
            self.seen_sig.add(k)
            self.R.violation(sig, f"version {self.version}: {raised[:3]} on a manager whose parts render on their own",
                             {"version": self.version, "manager": spec, "raised": raised[:5]})

    # -----------------------------------------------------------------------------------------------------------
    # units and the other managers (oracle only; their text is plain formatting, there is no model)
    def other_objects(self):
        if self.scn is None:
            return
        scn = self.scn
        um = scn.unit_manager
        targets = [("unit", u) for u in um.get_all_units()]
        targets += [(k, getattr(scn, k)) for k in ("unit_manager", "player_manager", "message_manager", "option_manager", "xs_manager", "map_manager")]
        targets += [("player", p) for p in scn.player_manager.players[:3]]
        targets += [("tile", scn.map_manager.terrain[0])]
        tm = scn.trigger_manager
        tm.triggers = []; tm.variables = []
        targets += [("variable", tm.add_variable("v0", 7))]
        self.cur_state_key = None
        for name, obj in targets:
            for call, f in (("str", lambda: str(obj)), ("repr", lambda: repr(obj))):
                s, r = common.outcome(f)
                good = s == "ok" and isinstance(r, str)
                self.R.case(key=("other", name, call), nontrivial=True, tags=("other:" + name,))
                if not good:
                    sig = {"cause": "other-object", "object": name, "call": call}
                    self.R.violation(sig, f"{call}({name}) raises {r}", {"version": self.version, "object": name, "call": call, "exception": r})

    def dead_scenario_stage(self, count):
        """objects that outlive their scenario (the store holds scenarios weakly): oracle only, no model"""
        if self.scn is None:
            return
        import gc, warnings
        from AoE2ScenarioParser.scenarios.aoe2_de_scenario import AoE2DEScenario
        with contextlib.redirect_stdout(io.StringIO()):
            scn2 = AoE2DEScenario.from_default()
        tm = scn2.trigger_manager
        u = scn2.unit_manager.add_unit(1, 4, 1.5, 1.5)
        kept = []
        with warnings.catch_warnings():
            warnings.simplefilter("ignore")
            for i in range(count):
                t = tm.add_trigger("d%d" % i)
                for kind in ("effect", "condition"):
                    os_ = self.random_obj(kind, count, p_ill=0.0)
                    lst = t.effects if kind == "effect" else t.conditions
                    n0 = len(lst)
                    st, o = common.outcome(self.make_obj, t, kind, os_)
                    if st != "ok":
                        del lst[n0:]
                        continue
                    s2, r = common.outcome(self.read_obj, kind, o)
                    # the four recorded defects are judged by the modelled stages; keep them out of this one
                    known_c = kind == "condition" and r[0] not in self.conditions.condition_names if s2 == "ok" else True
                    if s2 == "ok" and self.in_domain_obj(kind, r[2]) and r[1] != "q" and r[0] != -1 and not known_c:
                        kept.append((kind, os_, o))
                    else:
                        del lst[n0:]
        del scn2
        gc.collect()
        targets = [("manager", None, tm), ("unit", None, u)] + [("trigger", None, t) for t in tm.triggers[:5]] + kept
        for kind, os_, o in targets:
            s, r = common.outcome(lambda: str(o))
            self.R.case(key=("dead", kind, json.dumps(os_, default=str)), nontrivial=True, tags=("dead-scenario:" + kind,))
            if s != "ok" or not isinstance(r, str):
                sig = {"cause": "dead-scenario", "object": kind}
                k = json.dumps(sig, sort_keys=True)
                if k not in self.seen_sig:
                    self.seen_sig.add(k)
                    self.R.violation(sig, f"str({kind}) after its scenario was garbage-collected raises {r} ({os_})",
                                     {"version": self.version, "dead_scenario": True, "kind": kind, "obj": os_, "exception": r})

    # -----------------------------------------------------------------------------------------------------------
    # generators
    def value_pool(self, kind, attr, n_trig):
        strs = self.e_str if kind == "effect" else self.c_str
        ill = [[], [3], [-1], "", " ", "abc", None]
        if attr in strs:
            return ["", " ", "hello", "two\nlines", "ü", "'q'"], [0, 5, None, [1]]
        if attr == "selected_object_ids":
            u = self.unit_ids or [0]
            return [[], [-1], [u[0]], [u[0], 777], [777, 778], u[:3] + [u[0]], 5, u[-1]], ["abc", None, " "]
        if attr in ("armour_attack_quantity", "armour_attack_class", "quantity"):
            return [0, 1, 3, 255, 9999, -2, None] + ([[]] if attr != "quantity" else []), ["abc", [3]]
        ints = [0, 1, 2, 3, 5, 8, 9, 19, 40, 255, 256, 9999, -2, -3, 2 ** 31 - 1, n_trig - 1, n_trig, n_trig + 5, -n_trig, -n_trig - 1]
        if self.unit_ids:
            ints += [self.unit_ids[0], self.unit_ids[-1] + 50]
        return ints, ill

    def exhaustive_singles(self):
        """every type of the version's tables (+ unknown types) x every attribute of its list x the value pool"""
        rng = self.rng
        lives = [True, False] if self.scn is not None else [False]
        trig_names = ["t0", "t1"]
        for live in lives:
            for kind, ds, tkey in (("effect", self.effects, "effect_type"), ("condition", self.conditions, "condition_type")):
                types = sorted(ds.attributes) + [-1, 9999, 200]
                for ty in types:
                    alist = ds.attributes.get(ty, list(ds.empty_attributes))
                    alist = [a for a in alist if a != tkey]
                    if ty not in ds.attributes and self.quick:
                        alist = rng.sample(alist, min(len(alist), 14))
                    for a in alist:
                        good, ill = self.value_pool(kind, a, len(trig_names))
                        if self.quick:
                            good = rng.sample(good, min(len(good), 7 if self.version == "1.54" else 4))
                            ill = rng.sample(ill, 2 if self.version == "1.54" else 1)
                        for v in good + ill:
                            spec = {"live": live, "kind": kind, "obj": {"type": ty, "attrs": [[a, v]]}, "triggers": trig_names, "call": "str"}
                            self.single_case(spec, tags=("exhaustive",))
                    # the bare object of that type (version defaults only)
                    self.single_case({"live": live, "kind": kind, "obj": {"type": ty, "attrs": []}, "triggers": trig_names, "call": "str"}, tags=("exhaustive",))

    def random_obj(self, kind, n_trig, p_unknown=0.12, p_ill=0.06):
        rng = self.rng
        ds = self.effects if kind == "effect" else self.conditions
        tkey = "effect_type" if kind == "effect" else "condition_type"
        if rng.random() < p_unknown:
            ty = rng.choice([-1, 9999, 200, 77777])
        else:
            ty = rng.choice(sorted(ds.attributes))
        alist = [a for a in ds.attributes.get(ty, list(ds.empty_attributes)) if a not in (tkey, "item_id")]
        k = rng.choice([0, 1, 1, 2, 3, 5]) if alist else 0
        attrs = []
        for a in rng.sample(alist, min(k, len(alist))):
            good, ill = self.value_pool(kind, a, n_trig)
            attrs.append([a, rng.choice(ill) if rng.random() < p_ill else rng.choice(good)])
        if kind == "effect" and rng.random() < 0.15:
            # armour/attack family, switched after construction
            ty = rng.choice(self.AA + self.PQ + self.PV)
            if ty in ds.attributes:
                attrs = [["object_attributes", rng.choice(self.AATTR + [0, -1])]] + \
                        [[a, rng.choice([None, 3, [], 0])] for a in ("armour_attack_class", "armour_attack_quantity") if rng.random() < 0.5] + \
                        ([["quantity", rng.choice([5, 773, None])]] if rng.random() < 0.5 else [])
        return {"type": ty, "attrs": attrs}

    def random_singles(self, count):
        rng = self.rng
        for _ in range(count):
            live = self.scn is not None and rng.random() < 0.6
            kind = rng.choice(["effect", "effect", "condition"])
            names = rng.sample(NAMES, rng.choice([1, 2, 3]))
            spec = {"live": live, "kind": kind, "obj": self.random_obj(kind, len(names)), "triggers": names,
                    "variables": rng.choice([[], [[3, "v3"]], [[0, "zero"], [255, "last"]]]), "call": "str"}
            self.single_case(spec, tags=("random",))

    def random_manager(self):
        rng = self.rng
        live = self.scn is not None and rng.random() < 0.6
        n = rng.choice([0, 1, 2, 2, 3, 3, 4, 6])
        names = [rng.choice(NAMES) if rng.random() < 0.6 else "t%d" % i for i in range(n)]
        trigs = []
        for i in range(n):
            effs = [self.random_obj("effect", n, p_ill=0.02) for _ in range(rng.choice([0, 1, 1, 2, 3]))]
            # (de)activation effects: valid and dangling targets
            for _ in range(rng.choice([0, 0, 1, 2])):
                tgt = rng.choice([-1, 0, n - 1, n, n + 5, -2, -n - 1, rng.randrange(0, max(n, 1))])
                ty = int(rng.choice([self.EffectId.ACTIVATE_TRIGGER, self.EffectId.DEACTIVATE_TRIGGER]))
                if ty in self.effects.attributes:
                    effs.append({"type": ty, "attrs": [["trigger_id", tgt]]})
            conds = [self.random_obj("condition", n, p_ill=0.02) for _ in range(rng.choice([0, 0, 1, 2]))]
            t = {"name": names[i], "effects": effs, "conditions": conds}
            if len(effs) > 1 and rng.random() < 0.5:
                p = list(range(len(effs))); rng.shuffle(p); t["effect_order"] = p
            if len(conds) > 1 and rng.random() < 0.5:
                p = list(range(len(conds))); rng.shuffle(p); t["condition_order"] = p
            trigs.append(t)
        ops = []
        m = n
        for _ in range(rng.choice([0, 0, 1, 2, 3])):
            r = rng.random()
            if r < 0.4 and m > 0:
                p = list(range(m)); rng.shuffle(p); ops.append(["setorder", p])
            elif r < 0.6 and m > 0:
                ops.append(["copy", rng.randrange(m), rng.choice([0, 1])]); m += 1
            elif r < 0.8 and m > 1:
                ops.append(["remove", rng.randrange(m)]); m -= 1
            elif m > 1:
                ops.append(["move", [rng.randrange(m)], rng.randrange(m)])
        # removals of components / list entries after the custom orders were set (only while the trigger list is as built)
        if not any(o[0] in ("copy", "remove", "move") for o in ops):
            for i, t in enumerate(trigs):
                ne, nc = len(t["effects"]), len(t["conditions"])
                for _ in range(rng.choice([0, 0, 1, 2])):
                    if ne > 1 and rng.random() < 0.6:
                        ops.append(["rmeff", i, rng.randrange(ne)]); ne -= 1
                    elif nc > 1:
                        ops.append(["rmcond", i, rng.randrange(nc)]); nc -= 1
            if m > 1 and rng.random() < 0.25:
                ops.append(["deltrig", rng.randrange(m)]); m -= 1
        # states outside the listing invariant (correspondence only)
        tags = []
        if rng.random() < 0.05 and m > 0:
            bad = rng.choice([[0, m + 3], [m], [0] * (m + 1), list(range(m)) + [-1], [-m - 1]])
            ops.append(["setorder", bad]); tags.append("bad-order")
        elif rng.random() < 0.04 and trigs and trigs[0]["effects"]:
            trigs[0]["effect_order"] = rng.choice([[len(trigs[0]["effects"])], [0, 0, 7], [-9]]); tags.append("bad-order")
        variables = rng.choice([[], [], [[3, "v3"]], [[0, "zero"], [255, "last"], [9, NAMES[4]]]])
        return {"live": live, "triggers": trigs, "variables": variables, "ops": ops}, tags

    # -----------------------------------------------------------------------------------------------------------
    def replay_case(self, rp):
        if rp.get("version", "1.54") != self.version:
            return
        if "single" in rp:
            spec = dict(rp["single"])
            if spec.get("live") and self.scn is None:
                return
            self.single_case(spec, tags=("corpus",))
        elif "manager" in rp:
            spec = rp["manager"]
            if spec.get("live") and self.scn is None:
                return
            self.manager_case(spec, tags=("corpus",))

    def run(self, corpus):
        self.flags_probe()
        for c in corpus:
            self.replay_case(c.get("replay", c))
        self.exhaustive_singles()
        self.random_singles(self.budget(2500, 40000))
        for _ in range(self.budget(500, 8000)):
            spec, tags = self.random_manager()
            self.manager_case(spec, tags=tuple(tags))
        self.other_objects()
        self.dead_scenario_stage(self.budget(30, 200))
        # correspondence
        R = self.R
        if self.driver_path:
            out = common.Driver(self.driver_path).batch(self.cmds)
            for c, o, x, m in zip(self.cmds, out, self.expect, self.meta):
                o1 = "raised" if o.startswith("raised") else o
                if m[0] == "single":
                    o1 = "ok" if o.startswith("ok") else o1
                if m[0] == "manager" and m[2].startswith("trigger"):
                    o1 = "ok" if o.startswith("ok") else o1
                if o1 != x:
                    R.mismatch(f"version {self.version}: {c}", {"version": self.version, "cmd": c, **({m[0]: m[1]} if len(m) > 1 else {})},
                               impl=x, model=o)
                elif m[0] in ("single", "manager"):
                    R.traces += 1
        else:
            R.extra["driver"] = "unavailable (Lean build failed) - oracles only"
        return R


# -------------------------------------------------------------------------------------------------------------------
def probes(w):
    """the four minimised failing inputs (same content as corpus/C19/*.json); None when not applicable to the version"""
    act = int(w.EffectId.ACTIVATE_TRIGGER)
    P = {
        "trig": {"live": w.scn is not None, "kind": "effect", "obj": {"type": act, "attrs": [["trigger_id", 1]]}, "triggers": ["t0"], "call": "content"},
        "condName": {"live": w.scn is not None, "kind": "condition", "obj": {"type": 9999, "attrs": [["quantity", 5]]}, "triggers": ["t0"], "call": "str"},
        "presDefault": None,
        "aaSkip": None,
    }
    if act not in w.effects.attributes:
        P["trig"] = None
    # the row -1 taken for a type: observable in every version through an ill-typed value that the default row sends to TechInfo
    if "technology" in w.effects.attribute_presentation.get(-1, {}):
        P["presDefault"] = {"live": False, "kind": "effect", "obj": {"type": -1, "attrs": [["technology", "abc"]]}, "triggers": ["t0"], "call": "content"}
    if w.PQ[0] in w.effects.attributes:
        P["aaSkip"] = {"live": w.scn is not None, "kind": "effect",
                       "obj": {"type": w.PQ[0], "attrs": [["object_attributes", w.AATTR[0]]]}, "triggers": ["t0"], "call": "content"}
    return P


RULE = ("per scenario version (1.54 live + detached in-process, the other versions' tables in one subprocess each): every "
        "effect/condition type of the version tables and the unknown types -1, 200, 9999 x every attribute of its list x a "
        "value pool (ints incl. -1, -2, out-of-range, n-1, n, n+5, -n-1; lists; strings; None; ill-typed values) rendered by "
        "str() and get_content_as_string(); seeded random multi-attribute objects; seeded random manager states (0-6 "
        "triggers, named from a pool with brackets/quotes/unicode, random effects/conditions, (de)activation effects with "
        "valid and dangling targets, shuffled order arrays, copy/remove/move/set-display-order operations, variables, unit "
        "references) rendered by summary/content/str/str(trigger)/get_trigger_as_string; str/repr of units, players, tiles, "
        "variables and the six other managers. non-trivial = at least one attribute value is shown (single objects) or at "
        "least one trigger with one effect/condition (managers); distinct by (version, live, full state spec)")


def merge(R, d):
    R.evaluations += d["evaluations"]
    R.nontrivial |= set(d["nontrivial"])
    R.traces += d["traces"]
    for k, v in d["dist"].items():
        R.dist[k] += v
    for s in d["samples"]:
        if len(R.samples) < 8:
            R.samples.append(s)
    seen = {json.dumps(v["signature"], sort_keys=True) for v in R.violations}
    for v in d["violations"]:
        k = json.dumps(v["signature"], sort_keys=True)
        if k not in seen:
            seen.add(k); R.violations.append(v)
    R.mismatches += d["mismatches"][: max(0, 50 - len(R.mismatches))]
    for k, v in d.get("extra", {}).items():
        if isinstance(v, dict):
            R.extra.setdefault(k, {}).update(v)
        else:
            R.extra[k] = v


def dump(R):
    return {"evaluations": R.evaluations, "nontrivial": [hash_key(k) for k in R.nontrivial], "traces": R.traces, "dist": dict(R.dist),
            "samples": R.samples[:3], "violations": R.violations, "mismatches": R.mismatches, "extra": R.extra}


def hash_key(k):
    import hashlib
    return hashlib.sha256(repr(k).encode()).hexdigest()[:20]


def worker_main(argv):
    a = json.loads(argv[0])
    import warnings
    warnings.simplefilter("ignore")
    w = Worker(a["version"], a["tier"], a["seed"], a["escalate"], a["driver"], a.get("scale", 1.0))
    R = w.run(a.get("corpus", []))
    sys.stdout.write(json.dumps(dump(R), default=str))


def run(ctx):
    R = common.Result(RULE)
    gen = json.load(open(GEN))
    versions = gen["versions"]
    corpus = ctx.corpus()
    # version 1.54 in this process
    w = Worker("1.54", ctx.tier, ctx.seed, ctx.escalate, ctx.driver_path)
    t0 = time.time()
    merge(R, dump(w.run(corpus)))
    R.extra["wall_1.54_s"] = round(time.time() - t0, 1)
    # the other versions: one subprocess each; quick tier takes one member of every distinct table pair
    others = [v for v in versions if v != "1.54"]
    if ctx.quick:
        groups = collections.OrderedDict()
        for v in others:
            groups.setdefault((gen["tables"][v + ":effects"], gen["tables"][v + ":conditions"]), []).append(v)
        others = [g[ctx.seed % len(g)] for g in groups.values()]
    env = dict(os.environ)
    procs = []
    pending = list(others)
    results = {}
    maxpar = 6
    t1 = time.time()
    while pending or procs:
        while pending and len(procs) < maxpar:
            v = pending.pop(0)
            arg = json.dumps({"version": v, "tier": ctx.tier, "seed": ctx.seed, "escalate": ctx.escalate, "driver": ctx.driver_path,
                              "scale": 0.3, "corpus": corpus})
            p = subprocess.Popen([sys.executable, "-m", "harness.h_c19", "--worker", arg], stdout=subprocess.PIPE, stderr=subprocess.PIPE,
                                 text=True, env=env, cwd=common.ROOT)
            procs.append((v, p))
        v, p = procs.pop(0)
        out, err = p.communicate()
        if p.returncode != 0:
            raise RuntimeError(f"worker for version {v} failed rc={p.returncode}: {err[-3000:]}")
        results[v] = json.loads(out)
    for v in others:
        merge(R, results[v])
    R.extra["versions_run"] = ["1.54"] + others
    R.extra["wall_other_versions_s"] = round(time.time() - t1, 1)
    res = R.to_json(exhaustive=False)
    return res


if __name__ == "__main__":
    if len(sys.argv) >= 3 and sys.argv[1] == "--worker":
        worker_main(sys.argv[2:])
