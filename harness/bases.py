"""Base scenario files for every supported version.

Only v1.54 ships `default.aoe2scenario`. For the other versions a base file is synthesised:
  1. a value tree for version V is built from V's structure.json, taking each field's value from the parsed v1.54
     default scenario when a field of the same name exists at the same place, otherwise from the JSON default
     (repaired by the retriever's type: the JSON defaults of top-level sections are never used by the library and are sloppy);
  2. the tree is serialised by the LEAN model (driver `settree` + `ser`), i.e. by an encoder independent of the library;
  3. the file is normalised once by a library load + save in a subprocess of that version ("any file the library itself
     has written" is in the property's normal form).
Result cached under out/bases/, keyed by the hash of the inputs.
"""
import hashlib, json, os, struct, subprocess, sys, tempfile, shutil
from harness import common, codec_common as cc

ROOT = common.ROOT
REPO = common.REPO
VDIR = os.path.join(REPO, "AoE2ScenarioParser", "versions", "DE")


def versions():
    return sorted((d[1:] for d in os.listdir(VDIR) if d.startswith("v") and os.path.isfile(os.path.join(VDIR, d, "structure.json"))),
                  key=lambda v: tuple(int(x) for x in v.split(".")))


def type_length(var):
    if var[:7] == "struct:":
        return "struct", 0
    n = int(''.join(filter(str.isnumeric, var)))
    t = ''.join(filter(str.isalpha, var)) or "data"
    if t not in ("c", "data"):
        n = n // 8
    return t, n


def _default_scalar(t, n, d):
    if t in ("u", "s"):
        try:
            return int(d)
        except Exception:
            return 0
    if t == "f":
        try:
            return float(d)
        except Exception:
            return 0.0
    if t == "str":
        return d if isinstance(d, str) else ""
    if t == "c":
        if isinstance(d, str):
            if len(d) == 2 * n and all(ch in "0123456789abcdefABCDEF" for ch in d):
                return bytes.fromhex(d).split(b"\0")[0].decode("utf-8", "replace")
            return d if len(d) <= n else ""
        return ""
    if t == "data":
        if isinstance(d, str):
            try:
                b = bytes.fromhex(d)
                return b if len(b) == n else bytes(n)
            except ValueError:
                return bytes(n)
        return bytes(n)
    raise ValueError(t)


def canon_py(value, t, n):
    """canonical text of a Python value for a retriever of kind (t, n)"""
    if value is None:
        return "N"
    if isinstance(value, list):
        return "[" + ",".join(canon_py(v, t, n) for v in value) + "]"
    if t in ("u", "s"):
        return f"i{int(value)}"
    if t == "f":
        return "f" + struct.pack("<f" if n == 4 else "<d", float(value)).hex()
    if t in ("str", "c"):
        if isinstance(value, bytes):
            return "d" + value.hex()
        return "s" + value.encode("utf-8").hex()
    if t == "data":
        return "d" + bytes(value).hex()
    raise ValueError(t)


def build_tree_text(version, src_scn):
    """canonical `H{..} B[..]` text of a base tree for `version`, borrowing values from the parsed scenario src_scn (v1.54).
    Repeat counts of dynamically sized fields are evaluated with the structure's own `eval` strings over the values chosen
    so far (exactly what the library will do when it parses the file) and the borrowed value is fitted to that length."""
    import math
    structure = json.load(open(os.path.join(VDIR, "v" + version, "structure.json")))
    secvals = {}

    def count_of(r, selfvals, sec_name):
        deps = r.get("dependencies", {})
        oc = deps.get("on_construct")
        if oc is None:
            return None
        dep = oc
        if oc["action"] == "REFRESH_SELF":
            dep = deps.get("on_refresh")
            if dep is None or isinstance(dep, list) or dep["action"] != "SET_REPEAT":
                return None
        elif oc["action"] != "SET_REPEAT":
            return None
        tg = dep["target"]
        tg = tg if isinstance(tg, list) else [tg]
        loc = {"math": math}
        for t in tg:
            sec, nm = t.split(":")
            loc[nm] = selfvals[nm] if sec == "self" else secvals[sec][nm]
        code = dep.get("eval") or tg[0].split(":")[1]
        return eval(code, {}, loc)

    def rec(defn, src_sec, sec_name, top=False):
        parts, vals = [], {}
        if top:
            secvals[sec_name] = vals
        for name, r in defn["retrievers"].items():
            if name == "__END_OF_FILE_MARK__":
                continue
            t, n = type_length(r["type"])
            rep = r.get("repeat", 1)
            cnt = count_of(r, vals, sec_name)
            dynamic = cnt is not None
            if dynamic and (isinstance(cnt, bool) or not isinstance(cnt, int)):
                raise RuntimeError(f"{version}: repeat of {sec_name}.{name} evaluates to {cnt!r}")
            want = cnt if dynamic else rep
            src_r = src_sec.retriever_map.get(name) if src_sec is not None else None
            if t == "struct":
                child = defn["structs"][r["type"][7:]]
                items = []
                if src_r is not None and isinstance(src_r.data, list) and src_r.datatype.type == "struct":
                    items = [rec(child, s_, sec_name)[0] for s_ in src_r.data]
                items = items[:max(want, 0)]
                while len(items) < want:
                    items.append(rec(child, None, sec_name)[0])
                parts.append("[" + ",".join(items) + "]")
                vals[name] = items
                continue
            d = r.get("default")
            item_default = _default_scalar(t, n, d[0] if isinstance(d, list) and d else (None if isinstance(d, list) else d))
            if name == "victory_version" and any("victory_version == 2" in json.dumps(x.get("dependencies", {})) for x in defn["retrievers"].values()):
                # older versions gate the optional blocks with `victory_version == 2` and cannot parse a file where the
                # gate is closed (`unknown_structure_ww_campaign_2` then gets the list `[]` as its repeat: TypeError)
                v = 2.0
            elif sec_name == "FileHeader" and name == "version":
                v = version                       # the library picks the structure by these four characters
            elif "version" in name and d is not None and not isinstance(d, list):
                v = _default_scalar(t, n, d)      # the version's own (trigger / data / ...) version number                      # the version's own trigger version, not the one of the 1.54 default
            elif src_r is not None and src_r.datatype.type == t and (t in ("str", "f", "u", "s") or src_r.datatype.length == n) and src_r.data is not None:
                v = src_r.data
            elif isinstance(d, list):
                v = [_default_scalar(t, n, x) for x in d]
            else:
                v = item_default
            # fit to the count the parser will use (vorl: repeat != 1 -> list; repeat == 1 -> is_list decides)
            is_list = r.get("is_list", None)
            if is_list is None and any(x.get("action") == "SET_REPEAT" for dd in r.get("dependencies", {}).values() for x in (dd if isinstance(dd, list) else [dd])):
                is_list = True
            if want != 1 or is_list is True:
                lst = v if isinstance(v, list) else [v]
                lst = lst[:max(want, 0)]
                while len(lst) < want:
                    lst.append(item_default)
                v = lst
            else:
                if isinstance(v, list):
                    v = v[0] if v else item_default
            parts.append(canon_py(v, t, n))
            vals[name] = v
        return "{" + ",".join(parts) + "}", vals

    secs = list(structure.keys())
    out = []
    for sn in secs:
        src_sec = src_scn.sections.get(sn) if src_scn is not None else None
        out.append(rec(structure[sn], src_sec, sn, top=True)[0])
    return "H" + out[0] + " B[" + ",".join(out[1:]) + "]"


_NORMALISE = r'''
import sys, io, contextlib
sys.path.insert(0, sys.argv[4])
from AoE2ScenarioParser import settings
settings.PRINT_STATUS_UPDATES = False
from AoE2ScenarioParser.scenarios.aoe2_de_scenario import AoE2DEScenario
with contextlib.redirect_stdout(io.StringIO()):
    s = AoE2DEScenario.from_file(sys.argv[1])
    s.write_to_file(sys.argv[2], skip_reconstruction=(sys.argv[3] == "1"))
'''


def lib_roundtrip(src, dst, skip_reconstruction=False):
    """load+save with the library in a fresh process (one version per process). Returns (ok, stderr tail)."""
    p = subprocess.run([sys.executable, "-c", _NORMALISE, src, dst, "1" if skip_reconstruction else "0", REPO],
                       capture_output=True, text=True, env={**os.environ, "PYTHONPATH": REPO, "PYTHONDONTWRITEBYTECODE": "1"})
    return p.returncode == 0, p.stderr[-1500:]


def base_file(version, driver_path, normalise=True):
    """path of a base scenario of `version` (name stem `base`), or raises RuntimeError with the reason"""
    default154 = os.path.join(VDIR, "v1.54", "default.aoe2scenario")
    key_src = open(os.path.join(VDIR, "v" + version, "structure.json"), "rb").read() + open(default154, "rb").read() + open(__file__, "rb").read()
    key = hashlib.sha256(key_src).hexdigest()[:16]
    d = os.path.join(ROOT, "out", "bases", f"{version}-{key}{'' if normalise else '-raw'}")
    fn = os.path.join(d, "base.aoe2scenario")
    if os.path.exists(fn):
        return fn
    if version == "1.54" and not normalise:
        os.makedirs(d, exist_ok=True)
        shutil.copy(default154, fn)
        return fn
    if driver_path is None:
        raise RuntimeError("no model driver available to synthesise a base file")
    common.lib_setup()
    from AoE2ScenarioParser.scenarios.aoe2_de_scenario import AoE2DEScenario
    tmp = tempfile.mkdtemp(prefix="base_")
    try:
        if version == "1.54":
            raw = os.path.join(tmp, "base.aoe2scenario")
            shutil.copy(default154, raw)
        else:
            # NOTE: loading 1.54 here is safe only in a process that never loads another version afterwards
            with cc.quiet():
                src = _src154()
            text = build_tree_text(version, src)
            out = common.Driver(driver_path).batch([f"table {version}", "settree " + text, "consistent", "ser"])
            if not out[3].startswith("ok"):
                raise RuntimeError(f"model cannot serialise the synthesised base of {version}: {out[1:]}")
            h, b = [cc.unhexd(x.split("=", 1)[1]) for x in out[3].split()[1:]]
            raw = os.path.join(tmp, "base.aoe2scenario")
            open(raw, "wb").write(h + cc.deflate(b))
        os.makedirs(d, exist_ok=True)
        if normalise:
            nd = os.path.join(tmp, "n"); os.makedirs(nd)
            ok, err = lib_roundtrip(raw, os.path.join(nd, "base.aoe2scenario"))
            if not ok:
                raise RuntimeError(f"library cannot load/save the synthesised base of {version}: {err}")
            shutil.copy(os.path.join(nd, "base.aoe2scenario"), fn + ".tmp")
        else:
            shutil.copy(raw, fn + ".tmp")
        os.replace(fn + ".tmp", fn)
        return fn
    finally:
        shutil.rmtree(tmp, ignore_errors=True)


_SRC = None


def _src154():
    global _SRC
    if _SRC is None:
        from AoE2ScenarioParser.scenarios.aoe2_de_scenario import AoE2DEScenario
        _SRC = AoE2DEScenario.from_default()
    return _SRC
