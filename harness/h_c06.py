"""C06 – trigger links survive every structural operation.

Correspondence: the command language of lean/Driver/TrigCommon.lean is run on real `TriggerManagerDE` objects
(detached like the repository's test-suite, and inside live `AoE2DEScenario.from_default()` scenarios) and on the Lean
model; canonical observations (trigger ids in list order, object identities renumbered by first appearance, display
order, (owner, index, kind, target) of every effect, list positions of the returned objects, ok/error) are diffed.
Oracle: the five clauses of the property evaluated on the real objects by identity (harness/trig_lib.py).
"""
import itertools, json

from harness import common
from harness.trig_lib import Lib, Real, Runner, show_list


# ----------------------------------------------------------------------------------------------- enumeration
def link_sets(n, max_links):
    """canonical effect layouts: ≤ max_links activation effects in total, owners non-decreasing, every target in
    {-1, 0..n-1, n (dangling)}; kinds alternate a/d so that both effect types occur"""
    links = [(o, t) for o in range(n) for t in list(range(-1, n + 1))]
    out = [()]
    for k in range(1, max_links + 1):
        for combo in itertools.combinations_with_replacement(links, k):
            out.append(combo)
    return out


def effs_string(n, combo, other=False):
    rows = [[] for _ in range(n)]
    for j, (o, t) in enumerate(combo):
        rows[o].append(("a" if j % 2 == 0 else "d") + str(t))
    if other and n:
        rows[n - 1].append("o0")
    return "|".join((".".join(r) or "-") for r in rows) if n else "-"


def sels(n, full=True):
    s = [f"i{i}" for i in range(n)]
    if full:
        s += [f"d{i}" for i in range(n)] + [f"o{i}" for i in range(n)] + [f"I{i}" for i in range(n)]
    return s


def id_lists(n, maxlen=None):
    out = []
    for k in range(1, (maxlen or n) + 1):
        out += [list(p) for p in itertools.permutations(range(n), k)]
    return out


IMPORTS = ["0:-", "0:a1|1:d0", "1:a0.d2|2:a1", "2:a2", "0:a-1|3:d0.o1"]


def all_ops(n, level):
    """all single operations with all in-domain arguments for a state with n triggers (+ a few rejected ones).
    level 2 = everything, 1 = without the (link-blind) bulk of move positions / selectors"""
    ops = ["add"]
    full = level >= 2
    for s in sels(n, full) + [f"i{n}", "i-1", f"d{n}"]:
        ops += [f"copy {s} 0", f"copy {s} 1"]
    for s in sels(n, False) + (["d0", f"o{n - 1}"] if n else []) + [f"i{n}"]:
        ops.append(f"tree {s}")
    for s in sels(n, False) + (["d0"] if n else []):
        ops.append(f"pp {s} 1 2,3 0")
        if full:
            ops.append(f"pp {s} 2 1 1")
    if n and full:
        ops += ["pp i0 3 None 0", f"pp d{n - 1} 0 0,2 1", "treepp i0 2 None 1 trigger", f"treepp o{n - 1} 0 1,2 0 player"]
    for s in []:
        pass
    for s in sels(n, False) + ([f"o{n - 1}", f"d{n - 1}"] if n and full else []):
        for g in ("none", "trigger", "player"):
            ops.append(f"treepp {s} 1 2,3 0 {g}")
        if full:
            ops.append(f"treepp {s} 2 2,4 1 player")
    for spec in (IMPORTS if full else IMPORTS[1:3]):
        for idx in ([-1, 0, 1, n, n + 2] if full else [-1, 0, n]):
            ops.append(f"import {idx} {spec}")
    ks = list(range(n + 3)) if full else [0, max(n - 1, 0), n + 1]
    for ids in id_lists(n):
        for k in ks:
            ops.append(f"move {show_list(ids)} {k}")
    ops += [f"move {n} 0", "move - 0", "move -1 0"]
    for p in itertools.permutations(range(n)):
        if n:
            ops.append(f"reorder {show_list(p)}")
    ops += ["reorder None", f"reorder {show_list(list(range(n)) + [n])}", "reorder -", "reorder -1"]
    for k in range(1, n + 1):
        for sub in itertools.combinations(range(n), k):
            ops.append("remove " + ",".join(f"i{i}" for i in sub))
    for i in range(n):
        ops += [f"remove d{i}", f"remove o{i}"]
        if full:
            ops.append(f"remove I{i}")
    ops += [f"remove i{n}", "remove -"]
    for s in sels(n, full) + [f"i{n}", "i-1", f"d{n}", f"d{n + 1}"]:
        ops.append(f"get {s}")
    return ops


def random_history(rng, nmax, length):
    """a seeded random history: random initial state (≤ nmax triggers, random links and display order) and a generator
    of random operations with mostly in-domain arguments for the *current* trigger count"""
    n0 = rng.randrange(0, nmax + 1)
    rows = []
    for i in range(n0):
        r = []
        for _ in range(rng.choice([0, 0, 1, 1, 2, 3])):
            r.append(rng.choice("aaddo") + str(rng.choice([-1, n0] + list(range(n0)) * 3)))
        rows.append(".".join(r) or "-")
    order = list(range(n0)); rng.shuffle(order)
    base = f"init {n0} {'|'.join(rows) if n0 else '-'} {show_list(order) if rng.random() < 0.7 else '-'}"

    def gen(n, i):
        if i >= length:
            return None
        k = rng.choice(["add", "copy", "tree", "pp", "treepp", "import", "move", "move", "reorder", "remove", "remove", "get", "eff"])
        q = "q " if rng.random() < 0.15 else ""
        if n == 0 and k not in ("add", "import", "get"):
            k = "add"
        if n > 40 and k in ("pp", "treepp", "tree", "import", "copy"):
            k = "remove"
        sel = (lambda: "i0" if n == 0 else (rng.choice("iIdo") + str(rng.randrange(n)) if rng.random() < 0.95 else f"i{n + rng.randrange(2)}"))
        if k == "add":
            return q + "add"
        if k == "eff":
            return f"eff {rng.randrange(n)} {rng.choice('ado')}{rng.choice([-1] + list(range(n)) * 3)}"
        if k == "copy":
            return q + f"copy {sel()} {rng.randrange(2)}"
        if k in ("tree", "treepp"):
            s_ = sel()
            if s_[0] == "d":
                q = ""            # the oracle needs the selected root: display selectors only on a synchronised state
            if k == "tree":
                return q + f"tree {s_}"
            ps = show_list(rng.sample(range(0, 9), rng.randrange(1, 3))) if rng.random() < 0.9 else "None"
            return q + f"treepp {s_} {rng.randrange(0, 9)} {ps} {rng.randrange(2)} {rng.choice(['none', 'trigger', 'player'])}"
        if k == "pp":
            ps = show_list(rng.sample(range(0, 9), rng.randrange(1, 4))) if rng.random() < 0.9 else "None"
            return q + f"pp {sel()} {rng.randrange(0, 9)} {ps} {rng.randrange(2)}"
        if k == "import":
            m = rng.randrange(1, 4)
            tids = rng.sample(range(5), m)
            spec = "|".join(f"{t}:" + (".".join(rng.choice("ad") + str(rng.choice(tids + [-1, 7])) for _ in range(rng.randrange(3))) or "-") for t in tids)
            return q + f"import {rng.choice([-1, -1, 0, rng.randrange(n + 2)])} {spec}"
        if k == "move":
            ids = rng.sample(range(n), rng.randrange(1, min(n, 4) + 1))
            return q + f"move {show_list(ids)} {rng.randrange(n + 3)}"
        if k == "reorder":
            p = list(range(n)); rng.shuffle(p)
            return q + ("reorder None" if rng.random() < 0.2 else f"reorder {show_list(p)}")
        if k == "remove":
            ids = rng.sample(range(n), rng.randrange(1, min(n, 3) + 1))
            kind = rng.choice("iiIdo")
            if kind in "do" and len(ids) > 1:
                kind = "i"
            return q + "remove " + ",".join(kind + str(i) for i in ids)
        return f"get {sel()}"
    return base, gen


RULE = ("exhaustive small scope on detached TriggerManagerDE managers: all states with <= 3 triggers, <= 2 (de)activation "
        "effects in total (targets -1, every trigger, dangling; self links and 2-cycles included), all display orders, "
        "every single operation with every in-domain argument (plus rejected ones) [quick: full argument matrix for <= 1 link, "
        "reduced move/selector matrix for 2 links]; all/sampled sequences of 2 operations on <= 2 triggers; seeded random "
        "histories (<= 12 triggers, <= 10 operations, 15% without reading the display order in between) on detached managers "
        "and inside live default scenarios. non-trivial = the initial state has at least one (de)activation effect and a "
        "state-changing operation completed; distinct by (environment, initial state, operation list)")


def run(ctx):
    lib = Lib.get()
    R = common.Result(RULE)
    rng = ctx.rng
    rn = Runner(ctx, R, lib, "C06")
    R.extra["model_variant"] = {"remove_fixed(F4)": rn.mode[0], "tree_fixed(F16)": rn.mode[1], "import_extends(F5)": rn.mode[2]}
    real = Real(lib, lib.detached())

    # corpus / replay first
    for c in ctx.corpus():
        rp = c.get("replay", c)
        if "base" in rp:
            rn.case(real, rp.get("env", "detached"), rp["base"], rp.get("ops", []), tags=("corpus",))

    # ---- exhaustive single operations ------------------------------------------------------------
    thorough = not ctx.quick
    for n in range(0, 4):
        for combo in link_sets(n, 2):
            for oi, order in enumerate(itertools.permutations(range(n))):
                nl = len(combo)
                if nl <= 1 or thorough:
                    level = 2
                else:
                    level = 1
                    if ctx.quick and oi not in (0, 3, 4) and n == 3:
                        continue          # 2-link states of 3 triggers: identity and two non-trivial display orders in quick
                base = f"init {n} {effs_string(n, combo, other=(nl == 1))} {show_list(order) if n else '-'}"
                for op in all_ops(n, level):
                    rn.case(real, "detached", base, [op])

    # ---- sequences of two operations ---------------------------------------------------------------
    cache = {}

    def ops_for(n):
        if n not in cache:
            cache[n] = all_ops(n, 1)
        return cache[n]

    def pick_op(n):
        """a random operation that is in-domain for the CURRENT trigger count"""
        if n <= 4:
            return rng.choice(ops_for(n))
        return random_history(rng, 0, 1)[1](n, 0)

    seq_states = []
    for n in range(0, 3):
        for combo in link_sets(n, 1):
            for order in itertools.permutations(range(n)):
                seq_states.append((n, f"init {n} {effs_string(n, combo)} {show_list(order) if n else '-'}"))
    pairs = [(base, op1) for n, base in seq_states for op1 in ops_for(n)]
    if ctx.quick:
        for _ in range(ctx.budget(9000, 0)):
            base, op1 = rng.choice(pairs)
            rn.case(real, "detached", base, lambda n, i, op1=op1: op1 if i == 0 else (pick_op(n) if i == 1 else None), tags=("seq2",))
    else:
        for base, op1 in pairs:
            real.reset(); real.execute(base)
            st, _ = real.execute(op1)
            n_after = len(real.tm.triggers)
            if st != "ok":
                continue                    # a rejected first operation ends the history (covered by the single-op enumeration)
            for op2 in (ops_for(n_after) if n_after <= 4 else [pick_op(n_after) for _ in range(40)]):
                rn.case(real, "detached", base, [op1, op2], tags=("seq2",))
    R.extra["seq2_exhaustive"] = not ctx.quick

    # ---- thorough: 4 triggers / 3 operations sampled -------------------------------------------------
    if thorough:
        for _ in range(ctx.budget(0, 20000)):
            n = 4
            combo = tuple(sorted((rng.randrange(n), rng.randrange(-1, n + 1)) for _ in range(rng.randrange(0, 4))))
            order = list(range(n)); rng.shuffle(order)
            base = f"init {n} {effs_string(n, combo)} {show_list(order)}"
            rn.case(real, "detached", base, lambda n, i: pick_op(n) if i < 3 else None, tags=("seq3",))

    # ---- seeded random histories ------------------------------------------------------------------
    for _ in range(ctx.budget(1500, 30000)):
        base, ops = random_history(rng, 12 if rng.random() < 0.3 else 5, rng.randrange(2, 11))
        rn.case(real, "detached", base, ops, tags=("random",))

    # ---- live scenarios ---------------------------------------------------------------------------
    for s in range(ctx.budget(2, 6)):
        scn = lib.live()
        lreal = Real(lib, scn.trigger_manager)
        for _ in range(ctx.budget(150, 1500)):
            base, ops = random_history(rng, 6, rng.randrange(1, 8))
            rn.case(lreal, "live", base, ops, tags=("live",))
        for n in (2, 3):
            for combo in link_sets(n, 1):
                base = f"init {n} {effs_string(n, combo)} {show_list(list(range(n))[::-1])}"
                for op in all_ops(n, 1)[:: (3 if ctx.quick else 1)]:
                    rn.case(lreal, "live", base, [op], tags=("live",))

    rn.flush_violations()
    rn.compare()

    # ---- persisted links: older scenario versions, file that already holds effects, operations, save, re-load --------
    from harness import bases, vworker, codec_common as cc
    vs = bases.versions()
    pick = sorted({vs[0], vs[len(vs) // 2], vs[-2], vs[-1]} | ({rng.choice(vs)} if not ctx.quick else set()))
    fixed = [c.get("replay", c) for c in ctx.corpus()]
    fixed = [rp for rp in fixed if "hist" in rp and rp.get("version") in vs]
    for rp in fixed:
        per = vworker.run_versions("h_c06", "persist_worker", [rp["version"]],
                                   {"seed": ctx.seed, "driver": ctx.driver_path, "rounds": 0, "fixed": [rp["hist"]]})
        cc.merge_results(R, per, "C06")
    per = vworker.run_versions("h_c06", "persist_worker", pick if ctx.quick else vs,
                               {"seed": ctx.seed, "driver": ctx.driver_path, "rounds": ctx.budget(6, 40)})
    cc.merge_results(R, per, "C06")
    R.extra["persisted_versions"] = pick if ctx.quick else vs
    return R.to_json(exhaustive=True)


class RealKeep(Real):
    """a `Real` over the manager of a LOADED scenario: nothing is cleared"""
    def reset(self):
        self.ren, self.keep, self.dead, self.names = {}, [], {}, 1000


def persisted_state(tm, lib):
    def k(e):
        et = e.effect_type
        return "a" if et == lib.ACT else "d" if et == lib.DEACT else "o"
    return {"names": [t.name for t in tm.triggers], "ids": [t.trigger_id for t in tm.triggers],
            "order": list(tm.trigger_display_order),
            "links": [[f"{k(e)}{e.trigger_id}" for e in t.effects if k(e) != "o"] for t in tm.triggers]}


def persist_worker(version, args):
    """the links as the file holds them: scenario of `version` → triggers with links → save → re-load (the loaded file now
    holds effects) → structural operations → save → re-load; names, ids, display order and every (de)activation target
    must be what the manager showed before the save"""
    import os, random, shutil, tempfile
    from harness import bases, codec_common as cc
    lib = Lib.get()
    from AoE2ScenarioParser.scenarios.aoe2_de_scenario import AoE2DEScenario
    rng = random.Random(f"C06p:{args['seed']}:{version}")
    R = common.Result(RULE); R.export_keys = True
    tmp = tempfile.mkdtemp(prefix="c06p_")
    try:
        base = bases.base_file(version, args.get("driver"))
        fixed = list(args.get("fixed") or [])
        if args["rounds"]:
            # directed: files that hold exactly ONE trigger (a one-element display-order array) and none at all
            fixed += [["init 1 a0 0"], ["init 2 a1|d0 1,0", "remove i1"], ["init 1 - 0", "remove i0"]]
        for rnd in range(len(fixed) + args["rounds"]):
            with cc.quiet():
                scn = AoE2DEScenario.from_file(base)
            lib._deps = True
            real = RealKeep(lib, scn.trigger_manager)
            init, gen = random_history(rng, 5, rng.randrange(2, 7))
            if init.split()[1] == "0":
                init = "init 3 a1.d2|a0|o1.a0 2,0,1"
            if rnd < len(fixed):
                init, rest = fixed[rnd][0], fixed[rnd][1:]
                gen = lambda n, i, rest=rest: rest[i] if i < len(rest) else None
            hist = [init]
            real.execute(init)
            f1 = os.path.join(tmp, f"a{rnd}.aoe2scenario")
            with cc.quiet():
                st, _ = common.outcome(lambda: scn.write_to_file(f1))
                if st != "ok":
                    R.violation({"kind": "persist-save-failed", "stage": 1}, f"saving after {init!r} failed: {_}", {"version": version, "hist": hist})
                    continue
                scn = AoE2DEScenario.from_file(f1)
            os.remove(f1)
            real = RealKeep(lib, scn.trigger_manager)
            i = 0
            while True:
                cmd = gen(len(real.tm.triggers), i)
                if cmd is None:
                    break
                i += 1
                body = cmd[2:] if cmd.startswith("q ") else cmd
                real.execute(body)
                hist.append(body)
            st_w, want = common.outcome(persisted_state, scn.trigger_manager, lib)
            if st_w != "ok":
                R.case(json.dumps(["persist", version, hist]), True, tags=("persisted",))
                R.violation({"kind": "persisted-state-unreadable"},
                            f"version {version}: after {hist} (file saved and re-loaded once) ids / display order / links of the manager cannot be read: {want}",
                            {"version": version, "hist": hist})
                continue
            f2 = os.path.join(tmp, f"b{rnd}.aoe2scenario")
            with cc.quiet():
                st, err = common.outcome(lambda: scn.write_to_file(f2))
                got = None
                if st == "ok":
                    st, got = common.outcome(lambda: persisted_state(AoE2DEScenario.from_file(f2).trigger_manager, lib))
            if os.path.exists(f2):
                os.remove(f2)
            nontrivial = any(want["links"]) and len(hist) > 1
            R.case(json.dumps(["persist", version, hist]), nontrivial, tags=("persisted",))
            if st != "ok":
                R.violation({"kind": "persist-save-or-reload-failed"}, f"save/re-load after {hist} failed: {got if got else err}",
                            {"version": version, "hist": hist})
            elif got != want:
                diff = [k for k in want if want[k] != got[k]]
                R.violation({"kind": "persisted-links-differ", "what": diff[0]},
                            f"version {version}: after {hist} the manager showed {want} but the written file holds {got}",
                            {"version": version, "hist": hist})
        return R.to_json()
    finally:
        shutil.rmtree(tmp, ignore_errors=True)
