"""C05 – edits land exactly where they belong and nowhere else.

Per version: a small working scenario (map 4x4, three triggers with effects and conditions, units for several owners, a
variable) is saved (file A). Then, for every editable attribute x slot (nine players, units, tiles, triggers, effects,
conditions, options, messages) one value is changed through the manager, the scenario is saved (file B) and the edit undone.
A and B are decoded by the generated Lean reader and compared field by field; the set of changed field paths must EQUAL the
prediction of the golden layout (harness/layout.py): the attribute's field in the addressed slot, its documented duplicates,
its count fields - nothing else.
"""
import json, os, random, shutil, tempfile, warnings
from harness import common, codec_common as cc, bases, vworker, layout

RULE = ("per version: every editable attribute x every slot (9 players / units / tiles / triggers / effects / conditions / options / "
        "messages) x a value different from the current one; changed fields of the saved file (decoded by the Lean reader) must equal "
        "the golden layout's prediction; non-trivial = every case; distinct by (version, object, slot, attribute)")

TRIGGER_FIELDS = {"name": "trigger_name", "description": "trigger_description", "description_stid": "description_string_table_id",
                  "display_as_objective": "display_as_objective", "short_description": "short_description",
                  "short_description_stid": "short_description_string_table_id", "display_on_screen": "display_on_screen",
                  "description_order": "objective_description_order", "enabled": "enabled", "looping": "looping", "header": "make_header",
                  "mute_objectives": "mute_objectives"}
UNIT_FIELDS = {"x": "x", "y": "y", "z": "z", "unit_const": "unit_const", "status": "status", "rotation": "rotation",
               "initial_animation_frame": "initial_animation_frame", "garrisoned_in_id": "garrisoned_in_id", "reference_id": "reference_id"}
TILE_FIELDS = {"terrain_id": "terrain_id", "elevation": "elevation", "layer": "layer"}
MESSAGE_FIELDS = {"instructions": "ascii_instructions", "hints": "ascii_hints", "victory": "ascii_victory", "loss": "ascii_loss",
                  "history": "ascii_history", "scouts": "ascii_scouts", "instructions_string_table_id": "instructions",
                  "hints_string_table_id": "hints", "victory_string_table_id": "victory", "loss_string_table_id": "loss",
                  "history_string_table_id": "history", "scouts_string_table_id": "scouts"}
OPTION_FIELDS = {"victory_condition": ("GlobalVictory", "mode"), "victory_score": ("GlobalVictory", "required_score_for_score_victory"),
                 "victory_custom_conditions_required": ("GlobalVictory", "all_custom_conditions_required"),
                 "lock_teams": ("Diplomacy", "lock_teams"), "random_start_points": ("Diplomacy", "random_start_points"),
                 "allow_players_choose_teams": ("Diplomacy", "allow_players_choose_teams"), "collide_and_correct": ("Map", "collide_and_correct")}
EFFECT_INT_ATTRS = ["ai_script_goal", "quantity", "tribute_list", "diplomacy", "object_list_unit_id", "source_player", "target_player",
                    "technology", "string_id", "display_time", "trigger_id", "location_x", "location_y", "location_object_reference",
                    "area_x1", "area_y1", "area_x2", "area_y2", "object_group", "object_type", "instruction_panel_position", "attack_stance",
                    "time_unit", "enabled", "food", "wood", "stone", "gold", "flash_object", "force_research_technology", "visibility_state",
                    "scroll", "operation", "object_list_unit_id_2", "button_location", "ai_signal_value", "object_attributes", "variable",
                    "timer", "facet", "play_sound"]
CONDITION_INT_ATTRS = ["quantity", "attribute", "unit_object", "next_object", "object_list", "source_player", "technology", "timer",
                       "area_x1", "area_y1", "area_x2", "area_y2", "object_group", "object_type", "ai_signal", "inverted", "variable",
                       "comparison", "target_player"]


class Names:
    """positional path <-> names, from the version's structure.json"""
    def __init__(self, version):
        self.st = json.load(open(os.path.join(bases.VDIR, "v" + version, "structure.json")))
        self.secs = list(self.st.keys())

    def name_path(self, path):
        """positional path in the dump `(H|B, ...)` -> 'Section.field[i].field...'"""
        which, rest = path[0], list(path[1:])
        if which == 0:
            sec = self.secs[0]
        else:
            sec = self.secs[1 + rest.pop(0)]
        defn = self.st[sec]
        out = sec
        while rest:
            fi = rest.pop(0)
            names = [k for k in defn["retrievers"] if k != "__END_OF_FILE_MARK__"]
            fn = names[fi]
            out += "." + fn
            r = defn["retrievers"][fn]
            if rest:
                li = rest.pop(0)
                out += f"[{li}]"
                if r["type"].startswith("struct:"):
                    defn = defn["structs"][r["type"][7:]]
                else:
                    break
        return out


def worker(version, args):
    common.lib_setup(xs_check=True)
    from AoE2ScenarioParser.scenarios.aoe2_de_scenario import AoE2DEScenario
    from AoE2ScenarioParser.datasets import effects as eff_ds, conditions as cond_ds
    rng = random.Random(f"C05:{args['seed']}:{version}")
    R = common.Result(RULE); R.export_keys = True
    drv = common.Driver(args["driver"]) if args.get("driver") else None
    if drv is None:
        R.extra["driver"] = "unavailable: the field-level diff needs the Lean reader"
        return R.to_json()
    NM = Names(version)
    vt = layout.vt(version)
    tmp = tempfile.mkdtemp(prefix="c05_")
    try:
        base = bases.base_file(version, args.get("driver"))
        with cc.quiet():
            scn = AoE2DEScenario.from_file(base)
            scn.map_manager.map_size = 4
            tm = scn.trigger_manager
            for i in range(3):
                t = tm.add_trigger(f"trig{i}", description=f"d{i}", short_description=f"s{i}")
                t.new_effect.send_chat(source_player=1 + i, message=f"m{i}")
                t.new_effect.activate_trigger(trigger_id=(i + 1) % 3)
                t.new_effect.create_object(object_list_unit_id=4, source_player=1, location_x=1, location_y=2)
                t.new_condition.timer(timer=5 + i)
                t.new_condition.own_objects(quantity=3, object_list=4, source_player=2)
            tm.add_trigger("trig3")
            tm.trigger_display_order = [2, 0, 3, 1]        # a display order with a 3-cycle: display index != trigger index
            tm.add_variable("var", 5)
            for p in (0, 1, 1, 3, 8):
                scn.unit_manager.add_unit(player=p, unit_const=4, x=1.5, y=2.5, rotation=1.5)
            for p in range(1, 9):
                scn.player_manager.players[p].disabled_techs = [10 + p]
            wd = os.path.join(tmp, "w"); os.makedirs(wd)
            work = os.path.join(wd, "work.aoe2scenario")
            scn.write_to_file(work)
            del scn
            scn = AoE2DEScenario.from_file(work)
        tm = scn.trigger_manager
        od = os.path.join(tmp, "o"); os.makedirs(od)
        fa = os.path.join(od, "work.aoe2scenario")

        def save_dump():
            with cc.quiet():
                scn.write_to_file(fa)
            raw = open(fa, "rb").read()
            os.remove(fa)
            o = drv.batch([f"table {version}", "hdr " + cc.hexd(raw)])
            n = int(o[1].split("consumed=")[1])
            o = drv.batch([f"table {version}", "hdr " + cc.hexd(raw), "body " + cc.hexd(cc.inflate(raw[n:])), "dump"])
            h, b = o[3].split(" ", 1)
            return ("T", [cc.parse_canon(h[1:]), cc.parse_canon(b[1:])])

        def run_matrix(phase, nedits, only=None):
            nonlocal_rng = rng
            A = save_dump()
            size = scn.map_manager.map_size
            edits = []
            pm = scn.player_manager
            tm = scn.trigger_manager

            def P(path):        # predicted name path helper
                return path

            for attr in layout.PLAYER_FIELDS:
                if attr in ("active",):
                    continue
                for p in range(9):
                    ents = layout.player_entries(attr, p, version)
                    prim = layout.PLAYER_FIELDS[attr][0]
                    if layout.pos(prim[3], p) is None or not ents or (prim[5] and vt < layout.vt(prim[5])):
                        continue
                    pred = [f"{sec}.{fld}[{i}]" + (f".{sf}" if sf else "") for sec, fld, i, sf, k in ents]
                    edits.append(("player", p, attr, pm.players[p], pred))
            for dis, kind in layout.DISABLED.items():
                for p in range(1, 9):
                    pred = [f"Options.disabled_{kind}_ids_player_{p}", f"Options.per_player_number_of_disabled_{kind}s[{p - 1}]"]
                    edits.append(("player", p, dis, pm.players[p], pred))
            for p, lst in enumerate(scn.unit_manager.units):
                for k, u in enumerate(lst):
                    for a, f in UNIT_FIELDS.items():
                        edits.append(("unit", (p, k), a, u, [f"Units.players_units[{p}].units[{k}].{f}"]))
            for i in sorted(set(rng.sample(range(size * size), min(6, size * size))) | ({size - 1, size - 2, size * size - 2} if size >= 3 else set())):
                for a, f in TILE_FIELDS.items():
                    edits.append(("tile", i, a, scn.map_manager.terrain[i], [f"Map.terrain_data[{i}].{f}"]))
            # designation: tile (x, y) IS the object of record y*size+x, and coordinates outside the map designate no tile
            mm_ = scn.map_manager
            for _ in range(12):
                x_, y_ = rng.randrange(size), rng.randrange(size)
                st_, t_ = common.outcome(mm_.get_tile, x_, y_)
                R.case(key=f"designate:{x_},{y_}", nontrivial=True, tags=("tile-designation",))
                if st_ != "ok" or t_ is not mm_.terrain[y_ * size + x_]:
                    R.violation({"version": version, "kind": "tile-designation", "where": "inside"},
                                f"get_tile({x_}, {y_}) on a {size}x{size} map does not return the tile of record {y_ * size + x_}",
                                {"version": version, "size": size, "x": x_, "y": y_})
            k_ = rng.randrange(size)
            for x_, y_ in [(-1, k_), (k_, -1), (size, k_), (k_, size), (-1, -1), (-2, k_), (k_, -size), (-size, k_)]:
                st_, t_ = common.outcome(mm_.get_tile_safe, x_, y_)
                st2_, t2_ = common.outcome(mm_.get_tile, x_, y_)
                R.case(key=f"outside:{x_},{y_}", nontrivial=True, tags=("tile-designation-outside",))
                if (st_ == "ok" and t_ is not None) or st2_ == "ok":
                    R.violation({"version": version, "kind": "tile-designation", "where": "outside"},
                                f"coordinates ({x_}, {y_}) outside a {size}x{size} map designate a tile "
                                f"(get_tile_safe -> {getattr(t_, 'i', t_)!r}, get_tile -> {st2_})",
                                {"version": version, "size": size, "x": x_, "y": y_})
            from AoE2ScenarioParser.objects.support.trigger_select import TriggerSelect as TS
            order = list(tm.trigger_display_order)
            for ti, t in enumerate(tm.triggers):
                for k, (a, f) in enumerate(TRIGGER_FIELDS.items()):
                    # the same trigger designated by index, by display index and by object reference (C07: they agree)
                    mode = k % 3
                    if mode == 0:
                        obj = tm.get_trigger(TS.index(ti)); how = "index"
                    elif mode == 1:
                        d = order.index(ti)
                        obj = tm.get_trigger(TS.display(d)); how = f"display({d})"
                    else:
                        obj = tm.get_trigger(TS.trigger(t)); how = "object"
                    edits.append(("trigger", f"{ti} via {how}", a, obj, [f"Triggers.trigger_data[{ti}].{f}"]))
                for ei, e in enumerate(t.effects):
                    for a in rng.sample(EFFECT_INT_ATTRS, 8) + ["message", "sound_name", "selected_object_ids"]:
                        f = a
                        pred = [f"Triggers.trigger_data[{ti}].effect_data[{ei}].{f}"]
                        if a == "selected_object_ids":
                            pred.append(f"Triggers.trigger_data[{ti}].effect_data[{ei}].number_of_units_selected")
                        edits.append(("effect", (ti, ei), a, e, pred))
                for ci, c in enumerate(t.conditions):
                    for a in rng.sample(CONDITION_INT_ATTRS, 6):
                        edits.append(("condition", (ti, ci), a, c, [f"Triggers.trigger_data[{ti}].condition_data[{ci}].{a}"]))
            for a, f in MESSAGE_FIELDS.items():
                edits.append(("message", 0, a, scn.message_manager, [f"Messages.{f}"]))
            for a, (sec, f) in OPTION_FIELDS.items():
                edits.append(("option", 0, a, scn.option_manager, [f"{sec}.{f}"]))
            if only:
                edits = [e for e in edits if e[0] in only]
            if nedits and len(edits) > nedits:
                keep = [e for e in edits if e[0] == "player"]
                rest = [e for e in edits if e[0] != "player"]
                rng.shuffle(rest); rng.shuffle(keep)
                edits = keep[: nedits // 2] + rest[: nedits - min(len(keep), nedits // 2)]
            edits = [(k_, s_, a_, o_, p_, z_) for (k_, s_, a_, o_, p_) in edits for z_ in (False, True)]
            for kind, slot, attr, obj, pred, zero in edits:
                with warnings.catch_warnings():
                    warnings.simplefilter("ignore")
                    st, old = common.outcome(getattr, obj, attr)
                if st != "ok":
                    continue                                # attribute not available in this version (C15)
                new = _other_value(attr, old, rng)
                if zero:
                    # second pass: the falsy value of the attribute's type (0 / False / "" / []), when it is a change
                    ov = getattr(old, "value", old)
                    new = 0 if isinstance(ov, int) and not isinstance(ov, bool) and ov != 0 else (0.0 if isinstance(ov, float) and ov != 0.0 else None)
                    if attr in ("civilization", "architecture_set", "victory_condition"):
                        new = None
                if new is None:
                    continue
                with warnings.catch_warnings():
                    warnings.simplefilter("ignore")
                    st, e = common.outcome(setattr, obj, attr, new)
                if st != "ok":
                    continue
                st, B = common.outcome(save_dump)
                with warnings.catch_warnings():
                    warnings.simplefilter("ignore")
                    setattr(obj, attr, old)
                key = f"{phase}:{kind}:{slot}:{attr}:{'zero' if zero else 'other'}"
                replay = {"version": version, "phase": phase, "object": kind, "slot": slot, "attribute": attr, "old": repr(old)[:60], "new": repr(new)[:60]}
                if st != "ok":
                    R.case(key=key, nontrivial=True, tags=(f"obj:{kind}", "save:raises", f"raises:{kind}.{attr}"))
                    continue
                changed = sorted(set(NM.name_path(p) for p in cc.diff_canon(A, B)))
                # the next-unit-id counter advances with every save (reading it consumes an id, C10) - not part of any edit
                changed = [c for c in changed if c != "DataHeader.next_unit_id_to_place"]
                R.case(key=key, nontrivial=True, tags=(f"obj:{kind}",), sample=replay if len(R.samples) < 3 else None)
                want = sorted(pred)
                # documented duplicate of effects: `item_id` mirrors the first valid one of object_list_unit_id / technology / tribute_list
                optional = [pred[0].rsplit(".", 1)[0] + ".item_id"] if kind == "effect" and attr in ("object_list_unit_id", "technology", "tribute_list") else []
                changed_req = [c for c in changed if c not in optional]
                if changed_req != want:
                    missing = [w for w in want if w not in changed]
                    extra = [c for c in changed if c not in want and c not in optional]
                    R.violation({"kind": "misplaced-edit", "object": kind, "attribute": attr, "missing": bool(missing), "extra": bool(extra)},
                                f"editing {kind} {slot} .{attr} changes {changed} in the saved file; the layout says {want}", {**replay, "changed": changed, "expected": want})
                else:
                    R.traces += 1
            return A

        A = run_matrix("fresh", args["nedits"])
        # phase 2: the same matrix (objects only) after a save followed by SAME-LENGTH rearrangements - triggers reordered, a unit
        # replaced - so that list positions and the positions recorded at the last commit differ
        with cc.quiet():
            tmq = scn.trigger_manager
            tmq.reorder_triggers([2, 0, 3, 1])
            um = scn.unit_manager
            u0 = um.units[1][0]
            um.remove_unit(unit=u0)
            um.add_unit(player=1, unit_const=83, x=3.5, y=0.5)
        PLAYER_SKIP = True
        A = run_matrix("after-reorder", (args["nedits"] // 2) if args["nedits"] else 0)
        # phase 3: tiles after the map has GROWN in memory (no re-load in between): the tiles that pad the old rows and fill the new
        # rows are new objects, each the object of its own record
        with cc.quiet():
            scn.map_manager.map_size = scn.map_manager.map_size + 2
        A = run_matrix("after-grow", 0, only=("tile",))
        # after undoing every edit the file must be A again
        Z = save_dump()
        zd = [NM.name_path(p) for p in cc.diff_canon(A, Z)]
        zd = [c for c in zd if c != "DataHeader.next_unit_id_to_place"]
        if zd:
            R.mismatch("after undoing all edits the saved file differs from the initial one", {"version": version, "changed": zd[:10]})
    finally:
        shutil.rmtree(tmp, ignore_errors=True)
    return R.to_json()


def _other_value(attr, old, rng):
    from enum import Enum
    if isinstance(old, Enum):
        oldv = old.value
    else:
        oldv = old
    if isinstance(oldv, bool):
        return not oldv
    if attr in ("x", "y", "z", "rotation"):
        return 2.5 if oldv != 2.5 else 3.5
    if isinstance(oldv, float):
        return oldv + 1.0
    if isinstance(oldv, int):
        if attr in ("civilization", "architecture_set"):
            return 7 if oldv != 7 else 8
        if attr == "color":
            return (oldv + 1) % 8
        if attr == "starting_age":
            return 4 if oldv != 4 else 2
        if attr == "victory_condition":
            return 2 if oldv != 2 else 1
        if attr in ("elevation",):
            return (oldv + 1) % 7
        if attr == "unit_const":
            return 83 if oldv != 83 else 4
        if attr == "status":
            return (oldv + 1) % 5
        return oldv + 7 if oldv >= 0 else 7
    if isinstance(oldv, str):
        return oldv + "x" if len(oldv) < 10 else "y"
    if isinstance(oldv, list):
        if attr.startswith("disabled_"):
            return list(oldv) + [999]
        if attr == "selected_object_ids":
            return list(oldv) + [77]
        return None
    if oldv is None:
        return None
    return None


def run(ctx):
    R = common.Result(RULE)
    vs = bases.versions()
    args = {"seed": ctx.seed, "driver": ctx.driver_path, "nedits": ctx.budget(110, 0) if ctx.quick else 0}
    per = vworker.run_versions("h_c05", "worker", vs, args)
    cc.merge_results(R, per, "C05")
    R.extra["versions"] = vs
    return R.to_json()
