"""Per-version worker process (the library supports one scenario version per process).

    python -m harness.vworker <module> <func> <version> <args.json> <out.json>
calls  harness.<module>.<func>(version, args)  and writes its JSON result.
`run_versions` fans the versions out over the cores and collects the results.
"""
import importlib, json, os, subprocess, sys, tempfile, warnings
from concurrent.futures import ThreadPoolExecutor


def main():
    module, func, version, argfile, outfile = sys.argv[1:6]
    warnings.simplefilter("ignore")
    args = json.load(open(argfile))
    mod = importlib.import_module("harness." + module)
    res = getattr(mod, func)(version, args)
    with open(outfile, "w") as f:
        json.dump(res, f, default=str)


def run_versions(module, func, versions, args, timeout=3000, workers=None):
    """returns {version: result | {'worker_error': text}}"""
    from harness import common
    tmp = tempfile.mkdtemp(prefix="vw_")
    argfile = os.path.join(tmp, "args.json")
    json.dump(args, open(argfile, "w"))

    def one(v):
        out = os.path.join(tmp, f"out_{v}.json")
        env = {**os.environ, "PYTHONPATH": common.REPO + os.pathsep + common.ROOT, "PYTHONDONTWRITEBYTECODE": "1", "PYTHONHASHSEED": "0"}
        try:
            p = subprocess.run([sys.executable, "-m", "harness.vworker", module, func, v, argfile, out],
                               capture_output=True, text=True, timeout=timeout, env=env, cwd=os.getcwd())
        except subprocess.TimeoutExpired:
            return v, {"worker_error": "timeout"}
        if p.returncode != 0 or not os.path.exists(out):
            return v, {"worker_error": (p.stderr or p.stdout)[-3000:]}
        return v, json.load(open(out))
    try:
        with ThreadPoolExecutor(max_workers=workers or min(15, os.cpu_count() or 4)) as ex:
            return dict(ex.map(one, versions))
    finally:
        import shutil
        shutil.rmtree(tmp, ignore_errors=True)


if __name__ == "__main__":
    main()
