"""Type-directed generator of well-formed (and deliberately malformed) scenario trees from a version's structure.json.

The tree is generated field by field in file order; every repeat count is obtained exactly as the library's parser will
obtain it (static `repeat`, or the dependency `eval` string evaluated over the values generated so far), so generated trees
are consistent by construction. Fields that some SET_REPEAT dependency reads ("count-like") are drawn from small ranges so
files stay small; all other integer fields are drawn from the boundaries of their width/sign plus random values.
"""
import json, math, os, struct
from harness import bases

INT_POOL_CACHE = {}


def int_pool(signed, n):
    key = (signed, n)
    if key not in INT_POOL_CACHE:
        bits = 8 * n
        if signed:
            lo, hi = -(1 << (bits - 1)), (1 << (bits - 1)) - 1
        else:
            lo, hi = 0, (1 << bits) - 1
        INT_POOL_CACHE[key] = (lo, hi, sorted({lo, lo + 1, -1 if signed else 0, 0, 1, 2, 127 if hi >= 127 else hi, hi - 1, hi}))
    return INT_POOL_CACHE[key]


STRINGS = ["", "a", "Trigger 0", "héllo wörld", "日本語テキスト", "emoji 😀 ok", "tab\there", "line\nbreak", "q\"uote'", "x" * 40,
           "Ünïcödé ✓", "mixed ASCII and ключ", " lead and trail ", "nul inside \x00 mid",
           "\x00\x00lead"]
CHARS = ["", "a", "1.54", "Player 1", "é", "Ωmega"]


class TreeGen:
    def __init__(self, version, rng, big_lists=3):
        self.version, self.rng, self.big = version, rng, big_lists
        self.structure = json.load(open(os.path.join(bases.VDIR, "v" + version, "structure.json")))
        self.secvals = {}
        # versions whose optional blocks are gated by `victory_version == 2` cannot parse a file where the gate is closed
        # (the next repeat then evaluates to the list `[]`): inside the well-formed domain the gate is open there
        self.vv_strict = "victory_version == 2" in json.dumps(self.structure)
        self.countlike = set()       # (scope id, name) targeted by a SET_REPEAT dependency
        self.stats = {"fields": 0, "int_boundary": 0, "multibyte_str": 0, "empty_list": 0, "nonempty_struct_list": 0,
                      "optional_present": 0, "optional_absent": 0}
        for sn, sec in self.structure.items():
            self._scan(sec, sn)

    def _scan(self, rec, sec_name):
        for name, r in rec["retrievers"].items():
            for dn, d in r.get("dependencies", {}).items():
                for x in (d if isinstance(d, list) else [d]):
                    if x.get("action") == "SET_REPEAT" and x.get("target"):
                        tg = x["target"] if isinstance(x["target"], list) else [x["target"]]
                        for t in tg:
                            s, nm = t.split(":")
                            self.countlike.add((id(rec) if s == "self" else s, nm))
        for s in rec.get("structs", {}).values():
            self._scan(s, sec_name)

    # ------------------------------------------------------------------------------------------
    def count_of(self, r, selfvals):
        deps = r.get("dependencies", {})
        oc = deps.get("on_construct")
        if oc is None:
            return r.get("repeat", 1)
        dep = oc
        if oc["action"] == "REFRESH_SELF":
            dep = deps.get("on_refresh")
            if dep is None or isinstance(dep, list) or dep["action"] != "SET_REPEAT":
                return r.get("repeat", 1) if not isinstance(dep, list) else None
        tg = dep["target"]
        tg = tg if isinstance(tg, list) else [tg]
        loc = {"math": math}
        for t in tg:
            sec, nm = t.split(":")
            loc[nm] = selfvals[nm] if sec == "self" else self.secvals[sec][nm]
        code = dep.get("eval") or tg[0].split(":")[1]
        return eval(code, {}, loc)

    def leaf(self, t, n, name, r, countlike, sec_name):
        rng = self.rng
        self.stats["fields"] += 1
        if t in ("u", "s"):
            lo, hi, pool = int_pool(t == "s", n)
            if countlike:
                if "width" in name or "height" in name or name == "map_size":
                    return rng.randint(1, 5)
                return rng.choice([0, 0, 1, 2, self.big, -1 if t == "s" else 0])
            if rng.random() < 0.5:
                self.stats["int_boundary"] += 1
                return rng.choice(pool)
            return rng.randint(lo, hi)
        if t == "f":
            if name == "trigger_version":
                return rng.choice([2.4, 2.6, 3.5, 3.6, 3.9, 4.0, 4.5, 1.6])
            if name == "victory_version":
                return 2.0 if self.vv_strict else rng.choice([2.0, 2.0, 2.1, 2.1, 0.0])
            v = rng.choice([0.0, -0.0, -0.0, 1.0, -1.0, 0.5, 72.0, 1.1, 3.4e38, -3.4e38, 1e-40, -1e-40, float("inf"), float("-inf"), rng.uniform(-1000, 1000)])
            return struct.unpack("<f", struct.pack("<f", v))[0] if n == 4 else v
        if t == "str":
            if sec_name == "DataHeader" and name == "filename":
                return "base"            # a save sets this field to the output stem; round trips are written to stem `base`
            s = rng.choice(STRINGS)
            if any(ord(c) > 127 for c in s):
                self.stats["multibyte_str"] += 1
            return s
        if t == "c":
            if sec_name == "FileHeader" and name == "version":
                return self.version
            s = rng.choice(CHARS)
            return s if len(s.encode()) <= n else ""
        if t == "data":
            k = rng.random()
            return bytes(n) if k < 0.3 else bytes(rng.getrandbits(8) for _ in range(n)) if n <= 64 else bytes([rng.getrandbits(8)]) * n
        raise ValueError(t)

    def record(self, defn, sec_name, top=False):
        parts, vals = [], {}
        if top:
            self.secvals[sec_name] = vals
        for name, r in defn["retrievers"].items():
            if name == "__END_OF_FILE_MARK__":
                continue
            t, n = bases.type_length(r["type"])
            cnt = self.count_of(r, vals)
            if cnt is None or isinstance(cnt, bool) or not isinstance(cnt, int):
                raise BadCount(f"{sec_name}.{name}: repeat evaluates to {cnt!r}")
            k = max(cnt, 0)
            cl = ((id(defn), name) in self.countlike) or ((sec_name, name) in self.countlike and top)
            if t == "struct":
                child = defn["structs"][r["type"][7:]]
                items = [self.record(child, sec_name) for _ in range(k)]
                parts.append("[" + ",".join(x[0] for x in items) + "]")
                vals[name] = [x[1] for x in items]
                self.stats["nonempty_struct_list" if k else "empty_list"] += 1
                continue
            items = [self.leaf(t, n, name, r, cl, sec_name) for _ in range(k)]
            is_list = r.get("is_list", None)
            if is_list is None and any(x.get("action") == "SET_REPEAT" for dd in r.get("dependencies", {}).values() for x in (dd if isinstance(dd, list) else [dd])):
                is_list = True
            if cnt != 1:
                v = items
            elif is_list is not None:
                v = items if is_list else items[0]
            else:
                v = items[0]
            if "on_construct" in r.get("dependencies", {}) and is_list is False:
                self.stats["optional_present" if cnt == 1 else "optional_absent"] += 1
            parts.append(bases.canon_py(v, t, n))
            vals[name] = v
        return "{" + ",".join(parts) + "}", vals

    def tree(self):
        secs = list(self.structure.keys())
        out = [self.record(self.structure[sn], sn, top=True)[0] for sn in secs]
        return "H" + out[0] + " B[" + ",".join(out[1:]) + "]"


class BadCount(Exception):
    pass
