"""C11 - map geometry: correspondence (live MapManagerDE of `AoE2DEScenario.from_default()` vs the Lean model
`Aoe.Model.Map`) + direct property oracles on the real tiles.

Compared (DESIGN 2.4): only public results - map_size, len(terrain), per tile (terrain_id, elevation, layer, i, xy),
which tile a lookup returns (as its position in `terrain`), the tile.i sequences of square selections, `ok`/`error`.
Not compared: the `_xy` cache, exception classes, evaluation order.

Oracles = the clauses of the property, evaluated on the real objects:
  O1 len(terrain) == map_size ** 2 after every operation of every history
  O2 tile.i == position and tile.xy == (i % size, i // size) and i == y*size + x for every tile
  O3 for every valid index i < size**2: get_tile(i=i) is get_tile(x=i%size, y=i//size) is terrain[i]
  O4 resize: requested size reached; content of every tile whose (x, y) exists in both sizes unchanged at (x, y);
     every new tile has the content of a default TerrainTile
  O5 get_square_1d/2d return exactly the objects terrain[x + y*size], y in y1..y2, x in x1..x2, row-major
  O6 model boundary: int(i / s) == i // s for every i < s*s of every size s explored (float division in i_to_xy)
"""
import contextlib, io, itertools
from harness import common

P = 2305843009213693951


def run(ctx):
    common.lib_setup()
    from AoE2ScenarioParser.scenarios.aoe2_de_scenario import AoE2DEScenario
    from AoE2ScenarioParser.objects.data_objects.terrain_tile import TerrainTile
    from AoE2ScenarioParser.helper.helper import xy_to_i, i_to_xy

    R = common.Result(
        "depth-first over all histories of length <= 3 over {map_size = b, terrain = reversed tiles, terrain = tiles "
        "rotated by 1} (b in 0..10 from start sizes 1..8 in quick, 0..12 from 1..12 in thorough): dump + O1/O2/O4 at every node; all indices -2..size^2+1 and all coordinates -1..size at "
        "every node of depth <= 1 (O3); all rectangles x1<=x2,y1<=y2 on sizes <= 7 plus reversed/outside ones (O5); "
        "xy_to_i/i_to_xy on every argument for sizes 0..12; terrain setter on every length 0..40; seeded random "
        "histories/indices/rectangles up to size 240. non-trivial = resize that changes the size with both sizes >= 1, "
        "valid index >= 1, rectangle of >= 2 tiles, in-range helper argument; distinct by (kind, sizes, arguments)")
    rng = ctx.rng
    with contextlib.redirect_stdout(io.StringIO()):
        scn = AoE2DEScenario.from_default()
    mm = scn.map_manager
    uuid = scn.uuid
    dflt = TerrainTile(uuid=uuid)
    DEFAULT = (int(dflt.terrain_id), int(dflt.elevation), int(dflt.layer))

    cmds, expect, meta = [], [], []
    seen_viol = set()
    sizes_seen = set()

    def add(cmd, obs, m=None):
        cmds.append(cmd); expect.append(obs); meta.append(m)

    def violation(sig, what, replay):
        key = tuple(sorted(sig.items()))
        if key in seen_viol:
            return
        seen_viol.add(key)
        R.violation(sig, what, replay)

    # ------------------------------------------------------------------ observations
    def tile_ints(t):
        try:
            x, y = t.xy
        except Exception:
            x, y = None, None
        return int(t.terrain_id), int(t.elevation), int(t.layer), int(t.i), x, y

    def tile_str(t):
        a, b, c, i, x, y = tile_ints(t)
        return f"{a}:{b}:{c}:{i}:{x}:{y}" if x is not None else f"{a}:{b}:{c}:{i}:E:E"

    def dump():
        ts = mm.terrain
        head = f"size={mm.map_size} len={len(ts)}"
        if len(ts) > 64:
            h = 0
            for t in ts:
                a, b, c, i, x, y = tile_ints(t)
                for v in (a, b, c, i, -7 if x is None else x, -7 if y is None else y):
                    h = (h * 1000003 + (v % P) + 7) % P
            return f"{head} hash={h}"
        return head + " tiles=" + ("-" if not ts else ",".join(tile_str(t) for t in ts))

    def snapshot():
        """(size, {(x, y): content}) read through the public attributes"""
        s = mm.map_size
        return s, [(int(t.terrain_id), int(t.elevation), int(t.layer)) for t in mm.terrain]

    def mk_tiles(n, base):
        return [TerrainTile(terrain_id=(base + j) % 97, elevation=(base + j) % 5, layer=base + j, uuid=uuid) for j in range(n)]

    # ------------------------------------------------------------------ oracles
    def check_geometry(hist):
        """O1, O2 on the current state"""
        s = mm.map_size
        ts = mm.terrain
        if len(ts) != s * s:
            violation({"op": hist[-1][0] if hist else "init", "class": "len-not-size-squared"},
                      f"len(terrain)={len(ts)} but map_size={s} after {hist}", {"op": "history", "history": hist})
            return
        for k, t in enumerate(ts):
            ok = t.i == k
            if ok:
                st, xy = common.outcome(lambda: t.xy)
                ok = st == "ok" and tuple(xy) == (k % s, k // s) and t.x == k % s and t.y == k // s and k == t.y * s + t.x
            if not ok:
                violation({"op": hist[-1][0] if hist else "init", "class": "tile-index-or-xy"},
                          f"tile at position {k} of a {s}x{s} map has i={t.i}, xy={common.outcome(lambda: t.xy)} after {hist}",
                          {"op": "history", "history": hist})
                return

    def check_division(s):
        """O6: the float division of i_to_xy equals integer division for this size"""
        if s in sizes_seen or s == 0:
            return
        sizes_seen.add(s)
        bad = next((i for i in range(s * s) if int(i / s) != i // s or int(i % s) != i % s), None)
        R.case(key=("div", s), nontrivial=False, tags=("division-check",))
        if bad is not None:
            R.mismatch(f"model boundary: int({bad} / {s}) != {bad} // {s}", {"op": "division", "size": s, "i": bad},
                       impl=int(bad / s), model=bad // s)

    def do_terrain(n, base, hist):
        tiles = mk_tiles(n, base)

        def assign():
            mm.terrain = tiles
        st, _ = common.outcome(assign)
        is_sq = int(round(n ** 0.5)) ** 2 == n
        R.case(key=("terrain", n), nontrivial=is_sq and n >= 4, tags=("terrain:" + ("square" if is_sq else "non-square"),))
        if st == "ok":
            add(f"terrain {n} {base}", "ok " + dump(), ("terrain", n, base))
            if not is_sq:
                violation({"op": "terrain", "class": "non-square-accepted"}, f"terrain setter accepted {n} tiles",
                          {"op": "terrain", "n": n})
            else:
                check_geometry(hist + [("terrain", n)])
                if [(int(t.terrain_id), int(t.elevation), int(t.layer)) for t in mm.terrain] != \
                        [((base + j) % 97, (base + j) % 5, base + j) for j in range(n)]:
                    violation({"op": "terrain", "class": "content-changed"}, "terrain setter changed tile contents", {"op": "terrain", "n": n})
                check_division(mm.map_size)
        else:
            add(f"terrain {n} {base}", "error", ("terrain", n, base))
            if is_sq:
                violation({"op": "terrain", "class": "square-rejected"}, f"terrain setter rejected {n} tiles", {"op": "terrain", "n": n})

    def do_size(b, hist):
        """map_size = b with O1, O2, O4"""
        a, before = snapshot()

        def assign():
            mm.map_size = b
        st, _ = common.outcome(assign)
        h2 = hist + [("size", b)]
        R.case(key=("size",) + tuple(x[1] for x in h2), nontrivial=(a != b and a >= 1 and b >= 1),
               tags=("resize:" + ("grow" if b > a else "shrink" if b < a else "same"), f"depth{len(h2) - 1}"),
               sample={"op": "history", "history": h2})
        if st != "ok":
            add(f"size {b}", "error", h2)
            violation({"op": "map_size", "class": "raises"}, f"map_size = {b} raised on a {a}x{a} map ({hist})", {"op": "history", "history": h2})
            return
        add(f"size {b}", "ok " + dump(), h2)
        s2, after = snapshot()
        if s2 != b:
            violation({"op": "map_size", "class": "size-not-reached"}, f"map_size = {b} gave size {s2}", {"op": "history", "history": h2})
            return
        check_geometry(h2)
        if len(after) == b * b:
            for y in range(b):
                for x in range(b):
                    got = after[x + y * b]
                    if x < a and y < a:
                        if got != before[x + y * a]:
                            violation({"op": "map_size", "class": "content-not-preserved", "dir": "grow" if b > a else "shrink"},
                                      f"{a}->{b}: tile ({x},{y}) was {before[x + y * a]} is {got} ({h2})", {"op": "history", "history": h2})
                            return
                    elif got != DEFAULT:
                        violation({"op": "map_size", "class": "new-tile-not-default"},
                                  f"{a}->{b}: new tile ({x},{y}) is {got}, default is {DEFAULT} ({h2})", {"op": "history", "history": h2})
                        return
        check_division(b)

    def do_perm(kind, k, hist):
        """terrain = a list built from the tile objects the manager holds: O1, O2, contents follow.
        reverse / rotate by k: a permutation; prefix: the first (a-k)^2 objects (same objects at the same list positions,
        other map size); extend: the objects followed by new tiles up to (a+k)^2"""
        a, before = snapshot()
        objs = list(mm.terrain)
        size_after = a
        if kind == "reverse":
            new, want, cmd = objs[::-1], before[::-1], "reverse"
        elif kind == "rotate":
            new, want, cmd = objs[k:] + objs[:k], before[k:] + before[:k], f"rotate {k}"
        elif kind in ("setitem", "popinsert"):
            return do_single(kind, k, hist)
        elif kind == "prefix":
            size_after = max(a - k, 0)
            n = size_after * size_after
            new, want, cmd = objs[:n], before[:n], f"prefix {n}"
        else:
            size_after = a + k
            n = size_after * size_after - a * a
            extra = mk_tiles(n, 5000)
            new, cmd = objs + extra, f"extend {n} 5000"
            want = before + [(int(t.terrain_id), int(t.elevation), int(t.layer)) for t in extra]

        def assign():
            mm.terrain = new
        st, _ = common.outcome(assign)
        h2 = hist + [(kind, k)]
        R.case(key=("perm",) + tuple(map(tuple, h2)), nontrivial=a >= 2, tags=("terrain:" + ("permute" if size_after == a else kind), f"depth{len(h2) - 1}"))
        if st != "ok":
            add(cmd, "error", h2)
            violation({"op": "terrain", "class": "square-rejected"}, f"terrain = {kind} of the {a}x{a} tiles raised", {"op": "history", "history": h2})
            return
        add(cmd, "ok " + dump(), h2)
        check_geometry(h2)
        s2, after = snapshot()
        if s2 != size_after or after != want or any(u is not v for u, v in zip(mm.terrain, new)):
            violation({"op": "terrain", "class": "content-changed"}, f"terrain = {kind} of the tiles: contents/objects not in the assigned order ({h2})",
                      {"op": "history", "history": h2})

    def do_single(kind, k, hist):
        """single-object edits of the terrain list itself (`terrain[k] = tile`, `terrain.insert(0, terrain.pop(-1))`): the list
        keeps its length, every tile's index / coordinates must follow its position afterwards"""
        a, before = snapshot()
        n = a * a
        h2 = hist + [(kind, k)]
        if n == 0:
            return
        if kind == "setitem":
            kk = k % n
            nt = mk_tiles(1, 7000 + kk)[0]
            want = list(before); want[kk] = (int(nt.terrain_id), int(nt.elevation), int(nt.layer))
            cmd = f"setitem {kk} {7000 + kk}"

            def edit():
                mm.terrain[kk] = nt
        else:
            want = [before[-1]] + before[:-1]
            cmd = "popinsert"

            def edit():
                mm.terrain.insert(0, mm.terrain.pop(-1))
        st, _ = common.outcome(edit)
        R.case(key=("single",) + tuple(map(tuple, h2)), nontrivial=a >= 2, tags=("terrain:" + kind, f"depth{len(h2) - 1}"))
        if st != "ok":
            add(cmd, "error", h2)
            violation({"op": "terrain", "class": "single-edit-raises", "how": kind}, f"{kind} on the terrain list of a {a}x{a} map raised", {"op": "history", "history": h2})
            return
        add(cmd, "ok " + dump(), h2)
        check_geometry(h2)
        s2, after = snapshot()
        if s2 != a or after != want:
            violation({"op": "terrain", "class": "content-changed", "how": kind}, f"{kind}: contents not as edited ({h2})", {"op": "history", "history": h2})

    def do_op(op, hist):
        if op[0] == "size":
            do_size(op[1], hist)
        elif op[0] == "terrain":
            do_terrain(op[1], 0, hist)
        else:
            do_perm(op[0], op[1], hist)

    def do_get(x, y, i, hist, tag="get"):
        s = mm.map_size
        ts = mm.terrain
        st, t = common.outcome(lambda: mm.get_tile(x, y, i))
        cmd = f"get {x} {y} {i}"
        if st == "ok":
            k = t.i if (isinstance(t.i, int) and 0 <= t.i < len(ts) and ts[t.i] is t) else next((j for j, u in enumerate(ts) if u is t), -1)
            add(cmd, f"pos={k} tile={tile_str(t)}", (hist, x, y, i))
        else:
            add(cmd, "error", (hist, x, y, i))
        return st, t

    def report_rejected(s, i, err, hist):
        """a valid index was rejected by get_tile(i=...): shrink to the smallest fresh map / index showing it"""
        if ("min-rejected",) in seen_viol:
            return
        seen_viol.add(("min-rejected",))
        keep = list(mm.terrain)
        found = None
        for s2 in range(1, s + 1):
            mm.terrain = mk_tiles(s2 * s2, 0)
            for i2 in range(s2 * s2):
                if common.outcome(lambda: mm.get_tile(i=i2))[0] != "ok":
                    found = (s2, i2); break
            if found:
                break
        mm.terrain = keep
        if found:
            s2, i2 = found
            R.violation({"op": "get_tile", "by": "i", "class": "valid-index-rejected", "where": "i >= map_size" if i2 >= s2 else "i < map_size"},
                        f"get_tile(i={i2}) raises {err} on a fresh {s2}x{s2} map although 0 <= {i2} < {s2 * s2}; "
                        f"get_tile({i2 % s2},{i2 // s2}) returns the tile (first seen: i={i} on {s}x{s})",
                        {"op": "get", "size": s2, "x": None, "y": None, "i": i2, "minimised": True})
        else:
            R.violation({"op": "get_tile", "by": "i", "class": "valid-index-rejected", "where": "history-dependent"},
                        f"get_tile(i={i}) raises {err} on a {s}x{s} map after {hist}",
                        {"op": "history", "history": hist, "i": i})

    def sweep_gets(hist):
        """O3 at the current state: every index (and a margin), every coordinate pair (and a margin)"""
        s = mm.map_size
        ts = mm.terrain
        for i in range(-2, s * s + 2):
            st, t = do_get(None, None, i, hist)
            valid = 0 <= i < s * s
            R.case(key=("get-i", s, i, len(hist)), nontrivial=valid and i >= 1, tags=("get-i:" + ("valid" if valid else "outside"),))
            if valid:
                st2, t2 = common.outcome(lambda: mm.get_tile(i % s, i // s))
                if st2 != "ok" or t2 is not ts[i]:
                    violation({"op": "get_tile", "by": "xy", "class": "wrong-tile"}, f"get_tile({i % s},{i // s}) on {s}x{s}: {st2}",
                              {"op": "get", "size": s, "x": i % s, "y": i // s, "i": None})
                if st != "ok":
                    report_rejected(s, i, t, hist)
                elif t is not ts[i] or t is not t2:
                    violation({"op": "get_tile", "by": "i", "class": "wrong-tile"}, f"get_tile(i={i}) on {s}x{s} returns tile {t.i}",
                              {"op": "get", "size": s, "x": None, "y": None, "i": i, "history": hist})
            elif st == "ok":
                violation({"op": "get_tile", "by": "i", "class": "invalid-index-accepted"}, f"get_tile(i={i}) on {s}x{s} returned a tile",
                          {"op": "get", "size": s, "x": None, "y": None, "i": i, "history": hist})
        for y in range(-1, s + 1):
            for x in range(-1, s + 1):
                st, t = do_get(x, y, None, hist)
                valid = 0 <= x < s and 0 <= y < s
                R.case(key=("get-xy", s, x, y, len(hist)), nontrivial=valid and (x or y), tags=("get-xy:" + ("valid" if valid else "outside"),))
                if valid and (st != "ok" or t is not ts[x + y * s]):
                    violation({"op": "get_tile", "by": "xy", "class": "wrong-tile"}, f"get_tile({x},{y}) on {s}x{s}: {st}",
                              {"op": "get", "size": s, "x": x, "y": y, "i": None, "history": hist})
                if not valid and st == "ok":
                    violation({"op": "get_tile", "by": "xy", "class": "outside-accepted"}, f"get_tile({x},{y}) on {s}x{s} returned a tile",
                              {"op": "get", "size": s, "x": x, "y": y, "i": None, "history": hist})
        # both given: the guard `i and (x or y)`
        for (x, y, i) in [(0, 0, 0), (1, 0, 0), (0, 0, 1), (1, 1, 1), (0, 1, 2), (None, 0, 1), (0, None, None)]:
            do_get(x, y, i, hist)
            R.case(key=("get-mixed", s, x, y, i), nontrivial=False, tags=("get-mixed",))

    def do_square(x1, y1, x2, y2, hist):
        s = mm.map_size
        ts = mm.terrain
        st1, l1 = common.outcome(lambda: mm.get_square_1d(x1, y1, x2, y2))
        st2, l2 = common.outcome(lambda: mm.get_square_2d(x1, y1, x2, y2))
        add(f"sq1 {x1} {y1} {x2} {y2}", "error" if st1 != "ok" else "ok " + (",".join(str(t.i) for t in l1) or "-"), (hist, x1, y1, x2, y2))
        add(f"sq2 {x1} {y1} {x2} {y2}", "error" if st2 != "ok" else
            f"ok rows={len(l2)} " + "|".join((",".join(str(t.i) for t in r) or "-") for r in l2), (hist, x1, y1, x2, y2))
        valid = 0 <= x1 <= x2 < s and 0 <= y1 <= y2 < s
        R.case(key=("square", s, x1, y1, x2, y2), nontrivial=valid and (x2 - x1 + 1) * (y2 - y1 + 1) >= 2,
               tags=("square:" + ("valid" if valid else "invalid"),),
               sample={"op": "square", "size": s, "rect": [x1, y1, x2, y2]} if valid and x2 > x1 and y2 > y1 else None)
        if valid:
            want = [[ts[x + y * s] for x in range(x1, x2 + 1)] for y in range(y1, y2 + 1)]
            flat = [t for r in want for t in r]
            good = st1 == "ok" and st2 == "ok" and len(l1) == len(flat) and all(a is b for a, b in zip(l1, flat)) \
                and len(l2) == len(want) and all(len(r) == len(w) and all(a is b for a, b in zip(r, w)) for r, w in zip(l2, want))
            if not good:
                violation({"op": "get_square", "class": "not-row-major-rectangle"},
                          f"get_square_1d/2d({x1},{y1},{x2},{y2}) on {s}x{s} does not return the rectangle's tiles in row-major order",
                          {"op": "square", "size": s, "rect": [x1, y1, x2, y2], "history": hist})

    # ------------------------------------------------------------------ mode probe (which index guard is in force)
    def probe_fix_idx():
        mm.terrain = mk_tiles(4, 0)
        st, _ = common.outcome(lambda: mm.get_tile(i=2))
        return 1 if st == "ok" else 0

    fix_idx = probe_fix_idx()
    R.extra["index_guard"] = "0 <= i < map_size ** 2" if fix_idx else "0 <= i < map_size (pinned)"
    add(f"mode {fix_idx} 0", "ok")

    # ------------------------------------------------------------------ corpus / replays first
    for c in ctx.corpus():
        rp = c.get("replay", c)
        if rp.get("op") == "get":
            do_terrain(rp["size"] ** 2, 0, [])
            sweep_gets([("terrain", rp["size"] ** 2)])
        elif rp.get("op") == "history":
            h = rp["history"]
            for k, op in enumerate(h):
                do_op(tuple(op), [tuple(o) for o in h[:k]])
            sweep_gets(h)
        elif rp.get("op") == "square":
            do_terrain(rp["size"] ** 2, 0, [])
            do_square(*rp["rect"], [("terrain", rp["size"] ** 2)])

    # ------------------------------------------------------------------ helpers xy_to_i / i_to_xy
    for s in range(0, 13):
        for y in range(-2, s + 2):
            for x in range(-2, s + 2):
                st, k = common.outcome(lambda: xy_to_i(x, y, s))
                add(f"xytoi {x} {y} {s}", str(k) if st == "ok" else "error")
                valid = 0 <= x < s and 0 <= y < s
                R.case(key=("xytoi", x, y, s), nontrivial=valid, tags=("xy_to_i:" + ("valid" if valid else "outside"),))
                if valid and (st != "ok" or k != y * s + x):
                    violation({"op": "xy_to_i", "class": "wrong"}, f"xy_to_i({x},{y},{s}) = {k}", {"op": "xytoi", "args": [x, y, s]})
                if not valid and st == "ok":
                    violation({"op": "xy_to_i", "class": "outside-accepted"}, f"xy_to_i({x},{y},{s}) = {k}", {"op": "xytoi", "args": [x, y, s]})
        for i in range(-2, s * s + 2):
            st, xy = common.outcome(lambda: i_to_xy(i, s))
            add(f"itoxy {i} {s}", f"{xy[0]} {xy[1]}" if st == "ok" else "error")
            valid = 0 <= i < s * s
            R.case(key=("itoxy", i, s), nontrivial=valid, tags=("i_to_xy:" + ("valid" if valid else "outside"),))
            if valid and (st != "ok" or tuple(xy) != (i % s, i // s) or xy_to_i(xy[0], xy[1], s) != i):
                violation({"op": "i_to_xy", "class": "wrong"}, f"i_to_xy({i},{s}) = {xy}", {"op": "itoxy", "args": [i, s]})
            if not valid and st == "ok":
                violation({"op": "i_to_xy", "class": "outside-accepted"}, f"i_to_xy({i},{s}) = {xy}", {"op": "itoxy", "args": [i, s]})

    # ------------------------------------------------------------------ terrain setter, every length
    base = 1000
    for n in range(0, ctx.budget(41, 150)):
        do_terrain(n, base, [])
        base += n

    # ------------------------------------------------------------------ depth-first over resize histories
    starts = range(1, 9) if ctx.quick else range(1, 13)
    alphabet = list(range(0, 11)) if ctx.quick else list(range(0, 13))
    max_depth = 3
    rect_starts = {3, 6} if ctx.quick else {2, 3, 5, 6, 9, 12}

    def restore(objs):
        mm.terrain = objs          # re-stamps the same objects; contents never change in these histories

    def probe_rejected(hist):
        """a REJECTED terrain assignment built from the manager's own tile objects (a crop that is one tile short) leaves
        the manager - tile indices included - as it was"""
        a, before = snapshot()
        if a < 2:
            return
        objs = list(mm.terrain)
        for new, tag in ((objs[1:], "drop-first"), (objs[a:] + objs[:1], "rotated-crop")):
            def assign():
                mm.terrain = new
            st, e = common.outcome(assign)
            h2 = hist + [("rejected-" + tag, len(new))]
            R.case(key=("rejected", a, tag) + tuple(map(tuple, hist)), nontrivial=True, tags=("terrain:rejected-own-tiles",))
            if st == "ok":
                violation({"op": "terrain", "class": "non-square-accepted"}, f"terrain setter accepted {len(new)} of its own tiles", {"op": "history", "history": h2})
                restore(objs)
                continue
            check_geometry(h2)
            a2, after = snapshot()
            if a2 != a or after != before or any(u is not v for u, v in zip(mm.terrain, objs)):
                violation({"op": "terrain", "class": "rejected-assignment-changed-state"},
                          f"a rejected terrain assignment ({tag}, {len(new)} tiles) changed the {a}x{a} map ({h2})", {"op": "history", "history": h2})

    def dfs(hist, depth, start):
        if depth <= 1:
            sweep_gets(hist)
            probe_rejected(hist)
            s = mm.map_size
            if depth == 1 and s <= 7 and start in rect_starts:
                for y1 in range(s):
                    for y2 in range(y1, s):
                        for x1 in range(s):
                            for x2 in range(x1, s):
                                do_square(x1, y1, x2, y2, hist)
                # reversed / outside rectangles
                for (x1, y1, x2, y2) in [(1, 0, 0, 0), (0, 1, 0, 0), (1, 1, 0, 0), (2, 0, 0, 2), (0, 0, s, 0), (0, 0, 0, s), (-1, 0, 0, 0),
                                         (0, -1, 0, 0), (s, 0, s, 0), (0, 0, s - 1, s - 1), (s - 1, s - 1, s - 1, s - 1), (0, 0, -1, 0)]:
                    do_square(x1, y1, x2, y2, hist)
        if depth == max_depth:
            return
        saved = list(mm.terrain)
        for op in [("size", b) for b in alphabet] + [("reverse", 0), ("rotate", 1), ("prefix", 1), ("extend", 1), ("setitem", 2), ("popinsert", 0)]:
            add("push", "ok")
            do_op(op, hist)
            dfs(hist + [op], depth + 1, start)
            add("pop", "ok")
            restore(saved)

    for s0 in starts:
        do_terrain(s0 * s0, base, [])
        base += s0 * s0
        dfs([("terrain", s0 * s0)], 0, s0)

    # ------------------------------------------------------------------ seeded random, up to size 240
    for _ in range(ctx.budget(5, 40)):
        s0 = rng.choice([rng.randrange(1, 30), rng.randrange(1, 241)])
        do_terrain(s0 * s0, rng.randrange(10 ** 6), [])
        hist = [("terrain", s0 * s0)]
        for _ in range(rng.randrange(1, 4)):
            b = rng.choice([rng.randrange(0, 30), rng.randrange(0, 241), mm.map_size, max(0, mm.map_size + rng.randrange(-2, 3))])
            do_size(b, hist)
            hist = hist + [("size", b)]
            s = mm.map_size
            ts = mm.terrain
            for _ in range(40):
                i = rng.choice([rng.randrange(-3, s * s + 3), rng.randrange(0, max(1, s * s))])
                st, t = do_get(None, None, i, hist)
                valid = 0 <= i < s * s
                R.case(key=("rget-i", s, i), nontrivial=valid and i >= 1, tags=("random-get-i",))
                if valid:
                    t2 = mm.get_tile(i % s, i // s)
                    if t2 is not ts[i]:
                        violation({"op": "get_tile", "by": "xy", "class": "wrong-tile"}, f"get_tile({i % s},{i // s}) on {s}x{s}", {"op": "get", "size": s, "x": i % s, "y": i // s, "i": None})
                    if st != "ok":
                        report_rejected(s, i, t, hist)
                    elif t is not ts[i]:
                        violation({"op": "get_tile", "by": "i", "class": "wrong-tile"}, f"get_tile(i={i}) on {s}x{s}", {"op": "get", "size": s, "i": i})
                x, y = rng.randrange(-1, s + 1), rng.randrange(-1, s + 1)
                do_get(x, y, None, hist)
                R.case(key=("rget-xy", s, x, y), nontrivial=0 <= x < s and 0 <= y < s, tags=("random-get-xy",))
            for _ in range(6):
                if s == 0:
                    break
                x1, y1 = rng.randrange(s), rng.randrange(s)
                x2, y2 = min(s - 1, x1 + rng.randrange(0, 12)), min(s - 1, y1 + rng.randrange(0, 12))
                do_square(x1, y1, x2, y2, hist)

    # ------------------------------------------------------------------ correspondence
    drv = ctx.driver()
    if drv is not None:
        out = drv.batch(cmds)
        for cmd, o, x, m in zip(cmds, out, expect, meta):
            if o != x:
                R.mismatch(cmd, {"cmd": cmd, "meta": m, "index_guard_mode": fix_idx}, impl=x[:300], model=o[:300])
            else:
                R.traces += 1
    else:
        R.extra["driver"] = "unavailable (Lean build failed) - oracles only"
    R.extra["sizes_division_checked"] = len(sizes_seen)
    return R.to_json(exhaustive=True)
