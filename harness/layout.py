"""Golden layout: which file fields represent which manager attribute (DESIGN §5 C05 table), as accessors on the library's
sections. Hand-written from the file format as read from the pinned tree – it is an ASSUMPTION of C05 (and of C01's
section-edited inputs), not derived from the code under test.

conventions for the position of player p in a per-player array:
  GL  GAIA last : p-1 for players 1..8, GAIA at 8        GF  GAIA first : p         NG  no GAIA : p-1, players 1..8 only
"""

GL, GF, NG = "GL", "GF", "NG"


def pos(conv, p):
    if conv == GF:
        return p
    if conv == GL:
        return 8 if p == 0 else p - 1
    if conv == NG:
        return None if p == 0 else p - 1
    raise ValueError(conv)


def vt(version):
    return tuple(int(x) for x in version.split("."))


# attribute -> list of (section, field, struct-field or None, convention, kind, since-version or None)
#   kind: 'i' int as is, 'f' float duplicate (value stored as float), 'b' bool stored as int
PLAYER_FIELDS = {
    "active":               [("DataHeader", "player_data_1", "active", GL, "b", None)],
    "human":                [("DataHeader", "player_data_1", "human", GL, "b", None)],
    "civilization":         [("DataHeader", "player_data_1", "civilization", GL, "i", None)],
    "architecture_set":     [("DataHeader", "player_data_1", "architecture_set", GL, "i", "1.40")],
    "lock_civ":             [("DataHeader", "per_player_lock_civilization", None, GL, "b", None)],
    "lock_personality":     [("DataHeader", "per_player_lock_personality", None, GL, "b", "1.53")],
    "starting_age":         [("Options", "per_player_starting_age", None, GL, "i", None)],
    "food":                 [("PlayerDataTwo", "resources", "food", GL, "i", None), ("Units", "player_data_4", "food_duplicate", NG, "f", None)],
    "wood":                 [("PlayerDataTwo", "resources", "wood", GL, "i", None), ("Units", "player_data_4", "wood_duplicate", NG, "f", None)],
    "gold":                 [("PlayerDataTwo", "resources", "gold", GL, "i", None), ("Units", "player_data_4", "gold_duplicate", NG, "f", None)],
    "stone":                [("PlayerDataTwo", "resources", "stone", GL, "i", None), ("Units", "player_data_4", "stone_duplicate", NG, "f", None)],
    "color":                [("PlayerDataTwo", "resources", "player_color", GL, "i", None), ("Units", "player_data_3", "color", NG, "i", None)],
    "tribe_name":           [("DataHeader", "tribe_names", None, NG, "s", None)],
    "string_table_name_id": [("DataHeader", "string_table_player_names", None, NG, "i", None)],
    "population_cap":       [("Units", "player_data_4", "population_limit", NG, "f", None), ("Map", "per_player_population_cap", None, NG, "i", "1.44")],
    "base_priority":        [("Options", "per_player_base_priority", None, NG, "i", None)],
    "allied_victory":       [("Diplomacy", "per_player_allied_victory", None, NG, "b", None), ("Units", "player_data_3", "aok_allied_victory", NG, "b", None)],
    "initial_camera_x":     [("Units", "player_data_3", "initial_camera_x", NG, "i", None)],
    "initial_camera_y":     [("Units", "player_data_3", "initial_camera_y", NG, "i", None)],
    "initial_player_view_x": [("Map", "initial_player_views", "location_x", GF, "i", "1.40")],
    "initial_player_view_y": [("Map", "initial_player_views", "location_y", GF, "i", "1.40")],
}
DISABLED = {"disabled_techs": "tech", "disabled_buildings": "building", "disabled_units": "unit"}


def player_entries(attr, p, version):
    """[(section, field, index, struct-field, kind)] for player p's attribute in `version` (entries that exist there)"""
    out = []
    for sec, fld, sf, conv, kind, since in PLAYER_FIELDS[attr]:
        if since and vt(version) < vt(since):
            continue
        i = pos(conv, p)
        if i is None:
            continue
        out.append((sec, fld, i, sf, kind))
    return out


def get_field(scn, sec, fld, idx, sf):
    data = scn.sections[sec].retriever_map[fld].data
    item = data[idx]
    return getattr(item, sf) if sf else item


def set_field(scn, sec, fld, idx, sf, value):
    """direct section write (the list object is edited in place)"""
    r = scn.sections[sec].retriever_map[fld]
    if sf:
        setattr(r.data[idx], sf, value)
    else:
        r.data[idx] = value


def stored(kind, v):
    if kind == "f":
        return float(v)
    if kind == "b":
        return int(bool(v))
    return v
