"""C08 - per-player copies change only the player fields they may change.

For every case (a JSON-able `spec`): build a detached `TriggerManagerDE([],[],[])` exactly as the test-suite does,
take a deep attribute-by-attribute snapshot, run `copy_trigger_per_player` / `copy_trigger_tree_per_player` /
`replace_player`, and
  (O) evaluate the clauses of the property directly on the real objects (frame of every attribute of every
      component, locked untouched, source/target only when enabled, kept-if-not-from-player, changed = the copy's
      player, exact owner list, fresh objects, source components unmodified);
  (X) print the canonical observation (names, trigger ids, display order, aliasing, per-component
      kind/source/target/trigger_id/"rest token", which returned object is which list entry) and queue the same
      command for the Lean model `Aoe.PerPlayer` (driver `drv_c08`).
Only public attributes are read (plus object identity).
"""
import contextlib, copy, io, json
from harness import common

PLAYER_FIELDS = ("source_player", "target_player")


def run(ctx):
    common.lib_setup()
    from AoE2ScenarioParser.scenarios.aoe2_scenario import _initialise_version_dependencies
    with contextlib.redirect_stdout(io.StringIO()):
        _initialise_version_dependencies("DE", 1.47)
    from AoE2ScenarioParser.datasets.players import PlayerId
    from AoE2ScenarioParser.datasets.effects import EffectId
    from AoE2ScenarioParser.datasets.conditions import ConditionId
    import AoE2ScenarioParser.datasets.effects as effect_dataset
    import AoE2ScenarioParser.datasets.conditions as condition_dataset
    from AoE2ScenarioParser.objects.managers.de.trigger_manager_de import TriggerManagerDE
    from AoE2ScenarioParser.objects.support.trigger_ce_lock import TriggerCELock
    from AoE2ScenarioParser.objects.support.trigger_select import TriggerSelect
    from AoE2ScenarioParser.objects.support.enums.group_by import GroupBy
    from AoE2ScenarioParser.objects.data_objects.effect import Effect
    from AoE2ScenarioParser.objects.data_objects.condition import Condition

    R = common.Result(
        "systematic: seeded random managers (1-5 triggers, 0-4 conditions and 0-5 effects each, types drawn from the "
        "version's effect/condition tables incl. (de)activation effects, player fields from {None,-1,0..8} biased to "
        "from_player, 0-3 other attributes randomised) x all 8 flag combinations x 7 lock configurations "
        "(None, default, all conditions, all effects, by type, by id, mixed) x random player subsets (None, subsets of "
        "0..8 in random order, include_gaia, rarely an invalid id) x 4 trigger-select forms x 3 GroupBy modes for trees; "
        "non-trivial = call succeeded and at least one player field of a copy (or of the replaced trigger) changed; "
        "distinct by the full case spec")
    rng = ctx.rng
    ACT = (int(EffectId.ACTIVATE_TRIGGER), int(EffectId.DEACTIVATE_TRIGGER))
    R.extra["activation_ids"] = list(ACT)
    EFFECT_TYPES = sorted(k for k in effect_dataset.default_attributes if k != 0)
    COND_TYPES = sorted(k for k in condition_dataset.default_attributes if k != 0)
    # component types the loaded version's tables do not know (written by a newer game build / appended by hand):
    # the per-player functions have to treat their player fields like anyone else's
    NEWER_EFFECTS = sorted(set(int(x) for x in EffectId) - set(effect_dataset.default_attributes))
    NEWER_CONDS = sorted(set(int(x) for x in ConditionId) - set(condition_dataset.default_attributes)) or [199]
    R.extra["types_outside_version_tables"] = {"effects": NEWER_EFFECTS, "conditions": NEWER_CONDS}

    def prop_names(cls):
        return [n for n, v in vars(cls).items() if isinstance(v, property) and not n.startswith("_")]
    PROPS = {Effect: prop_names(Effect), Condition: prop_names(Condition)}

    def norm(v):
        if isinstance(v, bool):
            return v
        if isinstance(v, int):
            return int(v)
        if isinstance(v, (list, tuple)):
            return [norm(x) for x in v]
        return v

    def comp_dump(obj):
        """every public attribute of a condition/effect -> normalised value"""
        names = [k for k in vars(obj) if not k.startswith("_")] + PROPS[type(obj)]
        d = {}
        for n in names:
            if n == "instance_number_history":
                continue
            try:
                d[n] = norm(getattr(obj, n))
            except Exception as e:       # a reconstruction property that cannot be evaluated: same text before/after
                d[n] = "!" + type(e).__name__
        return d

    def trig_dump(t):
        return {"conds": [comp_dump(c) for c in t.conditions], "effs": [comp_dump(e) for e in t.effects]}

    # -------------------------------------------------------------------------------------------- building
    EFF_ATTRS = ["quantity", "object_list_unit_id", "location_x", "location_y", "area_x1", "area_y1", "area_x2", "area_y2",
                 "message", "display_time", "technology", "object_group", "selected_object_ids", "variable", "food",
                 "string_id", "operation", "timer", "sound_name", "diplomacy", "tribute_list", "item_id_skip"]
    COND_ATTRS = ["quantity", "attribute", "unit_object", "object_list", "timer", "area_x1", "area_y1", "area_x2", "area_y2",
                  "inverted", "variable", "comparison", "xs_function", "technology", "object_group", "ai_signal"]

    def rand_attr(name):
        if name in ("message", "sound_name", "xs_function"):
            return rng.choice(["", "x", "hello world", "p1", "äö"])
        if name == "selected_object_ids":
            return [rng.randrange(50) for _ in range(rng.randrange(3))]
        return rng.choice([-1, 0, 1, 2, 7, rng.randrange(1000)])

    def rand_player(frm):
        r = rng.random()
        if r < 0.30:
            return frm
        if r < 0.42:
            return -1
        if r < 0.52:
            return None
        return rng.randrange(9)

    def rand_comp(kind, frm, ntrig, link_mode):
        if kind == "c":
            t = rng.choice(NEWER_CONDS) if rng.random() < 0.08 else rng.choice(COND_TYPES)
            attrs = {a: rand_attr(a) for a in rng.sample(COND_ATTRS, rng.choice([0, 0, 1, 2, 3]))}
            return {"type": t, "src": rand_player(frm), "tgt": rand_player(frm) if rng.random() < 0.6 else -1, "attrs": attrs}
        t = rng.choice(ACT) if rng.random() < link_mode else (
            rng.choice(NEWER_EFFECTS) if NEWER_EFFECTS and rng.random() < 0.1 else rng.choice(EFFECT_TYPES))
        attrs = {a: rand_attr(a) for a in rng.sample(EFF_ATTRS[:-1], rng.choice([0, 0, 1, 2, 3]))}
        if t in ACT:
            r = rng.random()
            tid = rng.randrange(ntrig) if r < 0.93 else rng.choice([-1, ntrig, ntrig + 3, -2])
        else:
            tid = rng.choice([-1, -1, -1, rng.randrange(ntrig), 5])
        return {"type": t, "src": rand_player(frm), "tgt": rand_player(frm), "trigger_id": tid, "attrs": attrs}

    def rand_triggers(frm, tree):
        n = rng.choice([1, 2, 3, 3, 4, 5]) if tree else rng.choice([1, 1, 2, 3])
        lm = rng.choice([0.25, 0.4, 0.6]) if tree else 0.1
        return [{"conds": [rand_comp("c", frm, n, lm) for _ in range(rng.randrange(5))],
                 "effs": [rand_comp("e", frm, n, lm) for _ in range(rng.randrange(6))]} for _ in range(n)]

    def build(spec):
        tm = TriggerManagerDE([], [], [])
        for i, ts in enumerate(spec["triggers"]):
            t = tm.add_trigger(f"t{i}")
            for c in ts["conds"]:
                if c["type"] not in condition_dataset.default_attributes:
                    o = Condition(**{**copy.deepcopy(condition_dataset.default_attributes[0]), "condition_type": c["type"]})
                    t.conditions.append(o)
                else:
                    o = t._add_condition(ConditionId(c["type"]) if c["type"] in ConditionId._value2member_map_ else c["type"])
                for k, v in c["attrs"].items():
                    setattr(o, k, v)
                o.source_player, o.target_player = c["src"], c["tgt"]
            for e in ts["effs"]:
                if e["type"] not in effect_dataset.default_attributes:
                    o = Effect(**{**copy.deepcopy(effect_dataset.default_attributes[0]), "effect_type": e["type"]})
                    t.effects.append(o)
                else:
                    o = t._add_effect(EffectId(e["type"]) if e["type"] in EffectId._value2member_map_ else e["type"])
                for k, v in e["attrs"].items():
                    try:
                        setattr(o, k, v)
                    except TypeError:        # `quantity` of an armour/attack effect needs a trigger version (detached: None)
                        pass
                o.source_player, o.target_player, o.trigger_id = e["src"], e["tgt"], e["trigger_id"]
        if spec.get("order") is not None:
            tm.trigger_display_order = list(spec["order"])
        return tm

    lock_n = [0]

    def mk_lock(l):
        if l is None:
            return None
        lock_n[0] += 1
        if lock_n[0] % 3 == 0:
            # every third lock is default-constructed and filled in place afterwards (the lists a lock hands out are the
            # user's to edit); a later default lock must start empty again
            lk = TriggerCELock(lock_conditions=l["lc"], lock_effects=l["le"])
            lk.lock_condition_type.extend(l["ct"]); lk.lock_effect_type.extend(l["et"])
            lk.lock_condition_ids.extend(l["ci"]); lk.lock_effect_ids.extend(l["ei"])
            return lk
        return TriggerCELock(lock_conditions=l["lc"], lock_effects=l["le"], lock_condition_type=list(l["ct"]),
                             lock_effect_type=list(l["et"]), lock_condition_ids=list(l["ci"]), lock_effect_ids=list(l["ei"]))

    def mk_sel(tm, sel):
        kind, v = sel
        if kind == "int":
            return v
        if kind == "i":
            return TriggerSelect.index(v)
        if kind == "d":
            return TriggerSelect.display(v)
        return TriggerSelect.trigger(tm.triggers[v])

    def pid(v, enum):
        return PlayerId(v) if enum and 0 <= v <= 8 else v

    # -------------------------------------------------------------------------------------------- observation
    def so(v):
        return "N" if v is None else str(int(v))

    class Tokens:
        def __init__(self):
            self.t = {}

        def of(self, d, drop):
            key = json.dumps({k: v for k, v in d.items() if k not in drop}, sort_keys=True, default=str)
            return self.t.setdefault(key, len(self.t))

    def show_cond(tok, d):
        return f"{so(d['condition_type'])}:{so(d['source_player'])}:{so(d['target_player'])}:" \
               f"{tok.of(d, ('condition_type', 'source_player', 'target_player'))}"

    def show_eff(tok, d):
        return f"{so(d['effect_type'])}:{so(d['source_player'])}:{so(d['target_player'])}:{so(d['trigger_id'])}:" \
               f"{tok.of(d, ('effect_type', 'source_player', 'target_player', 'trigger_id'))}"

    def lst(f, l):
        return ";".join(f(x) for x in l) if l else "-"

    def ints(l):
        return ",".join(str(int(x)) for x in l) if l else "-"

    def pos_of(tm, obj):
        for i, t in enumerate(tm.triggers):
            if t is obj:
                return str(i)
        return "?"

    def dump_state(tm, tok):
        parts = ["order=" + ints(tm.trigger_display_order)]
        for t in tm.triggers:
            d = trig_dump(t)
            parts.append(f"{t.name.replace(' ', '_')}~{so(t.trigger_id)}~{pos_of(tm, t)}~"
                         f"{lst(lambda c: show_cond(tok, c), d['conds'])}~{lst(lambda e: show_eff(tok, e), d['effs'])}")
        return " | ".join(parts)

    def lock_txt(l):
        if l is None:
            return "00/-/-/-/-"
        return f"{int(l['lc'])}{int(l['le'])}/{ints(l['ct'])}/{ints(l['et'])}/{ints(l['ci'])}/{ints(l['ei'])}"

    def sel_txt(sel):
        kind, v = sel
        return {"int": "i", "i": "i", "d": "d", "o": "o"}[kind] + str(v)

    def model_cmds(spec, tok, fixed):
        """the command lines that rebuild this case in the driver; tokens come from the pre-call dump"""
        tm = build(spec)
        lines = ["reset"]
        for t in tm.triggers:
            d = trig_dump(t)
            lines.append(f"trig {t.name} {lst(lambda c: show_cond(tok, c), d['conds'])} {lst(lambda e: show_eff(tok, e), d['effs'])}")
        if spec.get("order") is not None:
            lines.append("order " + ints(spec["order"]))
        a = spec
        common_args = (f"frm={a.get('from', 0)} fo={int(a.get('fo', 0))} is={int(a['is'])} it={int(a['it'])} gaia={int(a.get('gaia', 0))} "
                       f"players={'N' if a.get('players') is None else ints(a['players'])} lock={lock_txt(a['lock'])}")
        if a["op"] == "cpp":
            lines.append(f"cpp {sel_txt(a['sel'])} {common_args}")
        elif a["op"] == "tree":
            lines.append(f"tree {sel_txt(a['sel'])} {common_args} group={-1 if a['group'] is None else a['group']} fixed={int(fixed)}")
        else:
            lines.append(f"rp {sel_txt(a['sel'])} to={a['to']} only={'N' if a['only'] is None else a['only']} is={int(a['is'])} "
                         f"it={int(a['it'])} lock={lock_txt(a['lock'])}")
        return lines

    # -------------------------------------------------------------------------------------------- oracle
    def locked(l, kind, j, typ):
        if l is None:
            return False
        if kind == "c":
            return bool(l["lc"]) or j in l["ci"] or typ in l["ct"]
        return bool(l["le"]) or j in l["ei"] or typ in l["et"]

    def check_component(before, after, kind, j, spec, player, only_from, in_tree, fails, where):
        """the per-component clauses; `before` = source snapshot, `after` = copy (or the replaced component)"""
        typ = before["condition_type" if kind == "c" else "effect_type"]
        skip = set(PLAYER_FIELDS)
        if in_tree and kind == "e" and typ in ACT:
            skip.add("trigger_id")          # activation links of tree copies are C06's subject
        for k in before.keys() | after.keys():
            if k in skip:
                continue
            if before.get(k, "<absent>") != after.get(k, "<absent>"):
                fails.append(("frame", f"{where} attribute {k}: {before.get(k)!r} -> {after.get(k)!r}"))
        is_locked = locked(spec["lock"], kind, j, typ)
        for fld, enabled in (("source_player", spec["is"]), ("target_player", spec["it"])):
            b, a = before[fld], after[fld]
            if b == a:
                continue
            short = "src" if fld == "source_player" else "tgt"
            if is_locked:
                fails.append(("locked", f"{where} is locked but {fld} {b!r} -> {a!r}"))
            if not enabled:
                fails.append((short + "_enabled", f"{where} {fld} {b!r} -> {a!r} although its changes are disabled"))
            if a != player:
                fails.append(("becomes_player", f"{where} {fld} {b!r} -> {a!r}, not the player {player}"))
            if only_from is not None and b != only_from:
                fails.append(("from_only", f"{where} {fld} {b!r} != {only_from} was changed to {a!r}"))

    def expected_owners(spec):
        ps = [1, 2, 3, 4, 5, 6, 7, 8] if spec["players"] is None else list(spec["players"])
        if spec["gaia"] and 0 not in ps:
            ps.append(0)
        out = []
        for p in ps:
            if p != spec["from"] and p not in out:
                out.append(p)
        return out, len([p for p in ps if p != spec["from"]])

    def tree_nodes(spec, root):
        """distinct triggers reachable through (de)activation effects (independent of the library's search)"""
        n = len(spec["triggers"])
        seen, todo = [root], [root]
        while todo:
            i = todo.pop(0)
            for e in spec["triggers"][i]["effs"]:
                if e["type"] in ACT:
                    j = e["trigger_id"]
                    if not (0 <= j < n):
                        return None           # dangling link: the library is expected to reject (or the tree is undefined)
                    if j not in seen:
                        seen.append(j); todo.append(j)
        return seen

    def has_dup_link(spec, nodes):
        for i in nodes:
            ls = [e["trigger_id"] for e in spec["triggers"][i]["effs"] if e["type"] in ACT]
            if len(ls) != len(set(ls)):
                return True
        return False

    def root_of(spec):
        kind, v = spec["sel"]
        n = len(spec["triggers"])
        if kind == "d":
            o = spec["order"] if spec.get("order") is not None else list(range(n))
            return o[v] if -n <= v < n else None
        return v if 0 <= v < n else None

    # -------------------------------------------------------------------------------------------- one case
    cmds, expect, meta = [], [], []
    shrunk = set()

    def run_case(spec, fixed, record=True):
        """returns list of (clause, text) oracle failures; queues the model commands"""
        tok = Tokens()
        tm = build(spec)
        before_objs = list(tm.triggers)
        snap = [trig_dump(t) for t in before_objs]
        shared_before = shared_mutables(tm, collect=True)
        lines = model_cmds(spec, tok, fixed) if record else None
        frm = spec.get("from", 0)
        fails = []
        op = spec["op"]
        sel = mk_sel(tm, spec["sel"])
        players_arg = None if spec.get("players") is None else [pid(p, spec.get("enum", True)) for p in spec["players"]]
        with contextlib.redirect_stdout(io.StringIO()):
            if op == "cpp":
                st, ret = common.outcome(lambda: tm.copy_trigger_per_player(
                    pid(frm, spec.get("enum", True)), sel, spec["fo"], spec["is"], spec["it"], mk_lock(spec["lock"]), spec["gaia"], players_arg))
            elif op == "tree":
                st, ret = common.outcome(lambda: tm.copy_trigger_tree_per_player(
                    pid(frm, spec.get("enum", True)), sel, spec["fo"], spec["is"], spec["it"], mk_lock(spec["lock"]), spec["gaia"], players_arg,
                    None if spec["group"] is None else GroupBy(spec["group"])))
            else:
                st, ret = common.outcome(lambda: tm.replace_player(
                    sel, pid(spec["to"], spec.get("enum", True)), None if spec["only"] is None else pid(spec["only"], spec.get("enum", True)),
                    spec["is"], spec["it"], mk_lock(spec["lock"])))
        changed = False
        root = root_of(spec)
        dup_tree = False
        if op == "tree" and root is not None:
            nn = tree_nodes(spec, root)
            dup_tree = nn is not None and has_dup_link(spec, nn)
        if st != "ok":
            obs = "error"
        else:
            old_ids = {id(t) for t in before_objs}
            if op == "cpp":
                obs_ret = ",".join(f"{int(p)}:{pos_of(tm, t)}" for p, t in ret.items()) or "-"
                owners, ncopies = expected_owners(spec)
                if [int(p) for p in ret.keys()] != owners:
                    fails.append(("owners", f"copies for {[int(p) for p in ret.keys()]}, requested {owners}"))
                new_objs = [t for t in tm.triggers if id(t) not in old_ids]
                if len(new_objs) != ncopies or len({id(t) for t in new_objs}) != len(new_objs):
                    fails.append(("owners", f"{len(new_objs)} new triggers for {ncopies} requested copies"))
                for p, t in ret.items():
                    if id(t) in old_ids or not any(t is x for x in tm.triggers):
                        fails.append(("fresh", f"copy for player {int(p)} is not a new trigger of the manager"))
                    d = trig_dump(t)
                    for kind, key in (("c", "conds"), ("e", "effs")):
                        if len(d[key]) != len(snap[root][key]):
                            fails.append(("frame", f"copy for {int(p)}: {len(d[key])} {key} instead of {len(snap[root][key])}"))
                            continue
                        for j, (b, a) in enumerate(zip(snap[root][key], d[key])):
                            check_component(b, a, kind, j, spec, int(p), frm if spec["fo"] else None, False, fails,
                                            f"copy p{int(p)} {key}[{j}]")
                            changed = changed or any(b[f] != a[f] for f in PLAYER_FIELDS)
            elif op == "tree":
                obs_ret = ",".join(f"{int(p)}:" + "+".join(pos_of(tm, t) for t in ts) for p, ts in ret.items())
                owners, _ = expected_owners(spec)
                if [int(p) for p in ret.keys()] != [frm] + owners:
                    fails.append(("owners", f"tree copies for {[int(p) for p in ret.keys()]}, requested {[frm] + owners}"))
                nodes = tree_nodes(spec, root)
                srcs = ret.get(frm, [])
                if nodes is not None:
                    if set(pos_before(before_objs, t) for t in srcs) != set(nodes):
                        fails.append(("tree_nodes:dup" if dup_tree else "tree_nodes", f"source entry lists {[pos_before(before_objs, t) for t in srcs]}, the tree is {nodes}"))
                    dup = has_dup_link(spec, nodes)
                    for p, ts in ret.items():
                        if int(p) == frm:
                            if len(ts) != len(nodes):
                                fails.append(("one_copy_per_node:dup" if dup else "one_copy_per_node", f"{len(ts)} source entries for {len(nodes)} tree triggers"))
                            continue
                        if len(ts) != len(nodes) or len({id(t) for t in ts}) != len(ts):
                            fails.append(("one_copy_per_node:dup" if dup else "one_copy_per_node",
                                          f"{len(ts)} copies for player {int(p)} of a tree of {len(nodes)} triggers"))
                    new_objs = [t for t in tm.triggers if id(t) not in old_ids]
                    if len(new_objs) != len(owners) * len(nodes) and not (spec["players"] is not None and len(set(spec["players"])) != len(spec["players"])):
                        fails.append(("one_copy_per_node:dup" if dup else "one_copy_per_node",
                                      f"{len(new_objs)} new triggers for {len(owners)} players x {len(nodes)} tree triggers"))
                    listed = [id(t) for t in tm.triggers]
                    if len(set(listed)) != len(listed):
                        fails.append(("listed_twice:dup" if dup else "listed_twice", "the same trigger object is listed twice in the manager"))
                for p, ts in ret.items():
                    if int(p) == frm:
                        continue
                    for i, t in enumerate(ts):
                        if i >= len(srcs):
                            break
                        si = pos_before(before_objs, srcs[i])
                        if si is None:
                            fails.append(("fresh", f"source entry {i} is not an original trigger")); continue
                        if id(t) in old_ids or not any(t is x for x in tm.triggers):
                            fails.append(("fresh", f"tree copy {i} for player {int(p)} is not a new trigger of the manager"))
                        d = trig_dump(t)
                        for kind, key in (("c", "conds"), ("e", "effs")):
                            if len(d[key]) != len(snap[si][key]):
                                fails.append(("frame", f"tree copy p{int(p)}[{i}]: {len(d[key])} {key} instead of {len(snap[si][key])}"))
                                continue
                            for j, (b, a) in enumerate(zip(snap[si][key], d[key])):
                                check_component(b, a, kind, j, spec, int(p), frm if spec["fo"] else None, True, fails,
                                                f"tree copy p{int(p)}[{i}] {key}[{j}]")
                                changed = changed or any(b[f] != a[f] for f in PLAYER_FIELDS)
            else:
                obs_ret = pos_of(tm, ret)
                if root is not None and ret is not before_objs[root]:
                    fails.append(("fresh", "replace_player did not return the selected trigger"))
                d = trig_dump(ret)
                if root is not None:
                    for kind, key in (("c", "conds"), ("e", "effs")):
                        if len(d[key]) != len(snap[root][key]):
                            fails.append(("frame", f"replace_player: {len(d[key])} {key} instead of {len(snap[root][key])}")); continue
                        for j, (b, a) in enumerate(zip(snap[root][key], d[key])):
                            check_component(b, a, kind, j, spec, spec["to"], spec["only"], False, fails, f"replaced {key}[{j}]")
                            changed = changed or any(b[f] != a[f] for f in PLAYER_FIELDS)
            # the source trigger(s) keep their conditions and effects (deep snapshot taken before the call)
            if op == "cpp":
                sources = [root]
            elif op == "tree":
                sources = sorted({pos_before(before_objs, t) for t in ret.get(frm, []) if pos_before(before_objs, t) is not None} | {root})
            else:
                sources = []
            for i, (t, s0) in enumerate(zip(before_objs, snap)):
                if i not in sources:
                    continue
                s1 = trig_dump(t)
                for key in ("conds", "effs"):
                    if len(s1[key]) != len(s0[key]):
                        fails.append(("source_modified", f"trigger {i}: number of {key} changed")); continue
                    for j, (b, a) in enumerate(zip(s0[key], s1[key])):
                        for k in b.keys() | a.keys():
                            if b.get(k) == a.get(k):
                                continue
                            if op == "tree" and key == "effs" and k == "trigger_id" and b["effect_type"] in ACT:
                                # the link must still designate the same trigger object
                                tb, ta = b["trigger_id"], a["trigger_id"]
                                if 0 <= tb < len(before_objs) and 0 <= ta < len(tm.triggers) and tm.triggers[ta] is before_objs[tb]:
                                    continue
                            fails.append(("source_modified:dup" if (op == "tree" and dup_tree) else "source_modified", f"source trigger {i} {key}[{j}].{k}: {b.get(k)!r} -> {a.get(k)!r}"))
            sm = shared_mutables(tm, shared_before)
            if sm:
                fails.append(("fresh", "a copy is not isolated from its source: " + sm))
            obs = f"ok ret={obs_ret} | {dump_state(tm, tok)}"
        if record:
            cmds.extend(lines); expect.extend([None] * (len(lines) - 1) + [obs]); meta.extend([None] * (len(lines) - 1) + [spec])
        return fails, st, changed

    def shared_mutables(tm, known=frozenset(), collect=False):
        """a mutable object (component, list-valued attribute, order array) reachable from two different triggers of the manager
        that was not shared before the operation: an in-place edit of one trigger would then change the other"""
        seen = {}
        found = set()
        for ti, t in enumerate(tm.triggers):
            objs = [(f"trigger.{k}", v) for k, v in vars(t).items() if isinstance(v, (list, dict, set))]
            for kind, comps in (("condition", t.conditions), ("effect", t.effects)):
                for j, c in enumerate(comps):
                    objs.append((f"{kind}[{j}]", c))
                    objs += [(f"{kind}[{j}].{k}", v) for k, v in vars(c).items() if isinstance(v, (list, dict, set))]
            for name, o in objs:
                if id(o) in seen and seen[id(o)][0] != ti:
                    if collect:
                        found.add(id(o))
                    elif id(o) not in known:
                        return f"{name} of trigger {ti} is the very object {seen[id(o)][1]} of trigger {seen[id(o)][0]}"
                seen[id(o)] = (ti, name)
        return found if collect else None

    def pos_before(before_objs, t):
        for i, x in enumerate(before_objs):
            if x is t:
                return i
        return None

    def signature(spec, clause):
        return {"op": spec["op"], "clause": clause}

    def shrink(spec, clause, fixed):
        """cheap greedy shrink: drop components / triggers / attributes while the same clause keeps failing"""
        def still(s):
            try:
                f, _, _ = run_case(s, fixed, record=False)
            except Exception:
                return False
            return any(c == clause for c, _ in f)
        cur = copy.deepcopy(spec)
        progress = True
        rounds = 0
        while progress and rounds < 6:
            progress = False; rounds += 1
            for ti in range(len(cur["triggers"])):
                for key in ("conds", "effs"):
                    j = 0
                    while j < len(cur["triggers"][ti][key]):
                        cand = copy.deepcopy(cur)
                        del cand["triggers"][ti][key][j]
                        if cand["lock"] is None or not (cand["lock"]["ci"] or cand["lock"]["ei"]):
                            if still(cand):
                                cur = cand; progress = True; continue
                        j += 1
                    for c in cur["triggers"][ti][key]:
                        if c["attrs"]:
                            cand_attrs = c["attrs"]; c["attrs"] = {}
                            if not still(cur):
                                c["attrs"] = cand_attrs
            if cur.get("players") and len(cur["players"]) > 1:
                for p in list(cur["players"]):
                    cand = copy.deepcopy(cur); cand["players"].remove(p)
                    if cand["players"] and still(cand):
                        cur = cand; progress = True
        return cur

    def do_case(spec, fixed):
        fails, st, changed = run_case(spec, fixed)
        key = json.dumps(spec, sort_keys=True)
        tags = [spec["op"], f"{spec['op']}:{st}", f"flags:{int(spec.get('fo', 0))}{int(spec['is'])}{int(spec['it'])}",
                "lock:" + spec.get("lock_kind", "?"), "sel:" + spec["sel"][0]]
        if spec["op"] == "tree":
            tags.append(f"group:{spec['group']}")
        if spec["op"] != "rp":
            tags.append("players:" + ("default" if spec["players"] is None else str(len(spec["players"]))))
        ncomp = sum(len(t["conds"]) + len(t["effs"]) for t in spec["triggers"])
        tags.append(f"components:{min(ncomp, 20) // 5 * 5}+")
        R.case(key=key, nontrivial=(st == "ok" and changed), tags=tags,
               sample={"spec": spec, "status": st} if rng.random() < 0.002 or R.evaluations < 3 else None)
        seen = set()
        for clause, text in fails:
            if clause in seen:
                continue
            seen.add(clause)
            sig = signature(spec, clause)
            sk = json.dumps(sig, sort_keys=True)
            if sk not in shrunk and len(shrunk) < 8:
                shrunk.add(sk)
                R.violations.insert(0, {"signature": sig, "what": text, "replay": shrink(spec, clause, fixed)})
            else:
                R.violation(sig, text, spec)

    # -------------------------------------------------------------------------------------------- generators
    def rand_lock(kind, trig):
        cts = [c["type"] for c in trig["conds"]] or [1]
        ets = [e["type"] for e in trig["effs"]] or [1]
        nc, ne = len(trig["conds"]), len(trig["effs"])
        base = {"lc": False, "le": False, "ct": [], "et": [], "ci": [], "ei": []}
        if kind == "none":
            return None
        if kind == "default":
            return base
        if kind == "allc":
            return {**base, "lc": True}
        if kind == "alle":
            return {**base, "le": True}
        if kind == "type":
            return {**base, "ct": rng.sample(cts, min(len(cts), rng.randrange(1, 3))) + rng.sample(COND_TYPES, rng.randrange(2)),
                    "et": rng.sample(ets, min(len(ets), rng.randrange(1, 3))) + rng.sample(EFFECT_TYPES, rng.randrange(2))}
        if kind == "id":
            return {**base, "ci": sorted(rng.sample(range(nc + 2), rng.randrange(0, nc + 2))),
                    "ei": sorted(rng.sample(range(ne + 2), rng.randrange(0, ne + 2)), reverse=rng.random() < 0.3)}
        return {"lc": rng.random() < 0.2, "le": rng.random() < 0.2, "ct": rng.sample(cts, rng.randrange(min(2, len(cts)) + 1)),
                "et": rng.sample(ets, rng.randrange(min(2, len(ets)) + 1)), "ci": rng.sample(range(nc + 1), rng.randrange(nc + 1)),
                "ei": rng.sample(range(ne + 1), rng.randrange(ne + 1)) + ([-1] if rng.random() < 0.2 else [])}

    LOCK_KINDS = ["none", "default", "allc", "alle", "type", "id", "mixed"]

    def rand_players():
        r = rng.random()
        if r < 0.2:
            return None
        k = rng.choice([1, 2, 3, 3, 4, 8, 9])
        ps = rng.sample(range(9), min(k, 9))
        if rng.random() < 0.04:
            ps.insert(rng.randrange(len(ps) + 1), rng.choice([9, -1, 12]))
        if rng.random() < 0.03 and ps:
            ps.append(rng.choice(ps))           # a duplicate request
        return ps

    def rand_sel(n, order):
        i = rng.randrange(n)
        r = rng.random()
        if rng.random() < 0.02:
            return rng.choice([["int", n], ["d", n], ["int", -1], ["i", n + 1], ["d", -n - 1]])
        if r < 0.4:
            return ["int", i]
        if r < 0.55:
            return ["i", i]
        if r < 0.8:
            return ["d", order.index(i) if rng.random() < 0.9 else order.index(i) - n]
        return ["o", i]

    def rand_order(n):
        o = list(range(n))
        if rng.random() < 0.5:
            rng.shuffle(o)
        return o

    # ---- probe: is the duplicate-tree-node defect (F16) present in this tree? ---------------------------------
    def probe_fixed():
        spec = {"triggers": [{"conds": [], "effs": [{"type": ACT[0], "src": -1, "tgt": -1, "trigger_id": 1, "attrs": {}},
                                                      {"type": ACT[1], "src": -1, "tgt": -1, "trigger_id": 1, "attrs": {}}]},
                             {"conds": [], "effs": []}], "order": None}
        tm = build(spec)
        with contextlib.redirect_stdout(io.StringIO()):
            st, ret = common.outcome(lambda: tm.copy_trigger_tree_per_player(PlayerId.ONE, 0, create_copy_for_players=[PlayerId.TWO]))
        return st == "ok" and len(ret.get(PlayerId.TWO, [])) == 2
    fixed = probe_fixed()
    R.extra["tree_duplicate_nodes_repaired"] = fixed
    if ACT != (8, 9):
        R.mismatch("EffectId.ACTIVATE_TRIGGER/DEACTIVATE_TRIGGER are not 8/9 as the model assumes", {"ids": list(ACT)})

    # ---- corpus / replay first ----------------------------------------------------------------------------------
    for c in ctx.corpus():
        spec = c.get("replay", c)
        if isinstance(spec, dict) and "op" in spec and "triggers" in spec:
            do_case(spec, fixed)

    # ---- the nine fixed scenarios of the test-suite shape (one trigger, two or three components) ---------------
    def base_args(**k):
        d = {"from": 1, "enum": True, "fo": False, "is": True, "it": False, "lock": None, "lock_kind": "none", "gaia": False,
             "players": None, "order": None}
        d.update(k)
        return d
    t_two = [{"conds": [], "effs": [{"type": 11, "src": 1, "tgt": -1, "trigger_id": -1, "attrs": {"object_list_unit_id": 1}},
                                    {"type": 11, "src": 2, "tgt": -1, "trigger_id": -1, "attrs": {"object_list_unit_id": 1}}]}]
    for fo in (False, True):
        for is_ in (False, True):
            for it in (False, True):
                do_case(base_args(op="cpp", sel=["int", 0], triggers=copy.deepcopy(t_two), fo=fo, **{"is": is_, "it": it}), fixed)
                do_case(base_args(op="cpp", sel=["int", 0], triggers=copy.deepcopy(t_two), fo=fo, gaia=True, **{"is": is_, "it": it}), fixed)

    # ---- systematic random sweep --------------------------------------------------------------------------------
    n_cpp = ctx.budget(40, 400)          # managers; each x 8 flags x 7 locks
    for _ in range(n_cpp):
        frm = rng.randrange(9)
        trigs = rand_triggers(frm, False)
        for fo in (False, True):
            for is_ in (False, True):
                for it in (False, True):
                    for lk in LOCK_KINDS:
                        n = len(trigs)
                        order = rand_order(n)
                        sel = rand_sel(n, order)
                        root = root_of({'sel': sel, 'order': order, 'triggers': trigs}) or 0
                        do_case({"op": "cpp", "triggers": trigs, "order": order, "sel": sel, "from": frm, "enum": rng.random() < 0.8,
                                 "fo": fo, "is": is_, "it": it, "lock": rand_lock(lk, trigs[root]), "lock_kind": lk,
                                 "gaia": rng.random() < 0.4, "players": rand_players()}, fixed)
    n_rp = ctx.budget(25, 250)
    for _ in range(n_rp):
        frm = rng.randrange(9)
        trigs = rand_triggers(frm, False)
        for is_ in (False, True):
            for it in (False, True):
                for only in (None, frm, rng.randrange(9)):
                    for lk in LOCK_KINDS:
                        n = len(trigs)
                        order = rand_order(n)
                        sel = rand_sel(n, order)
                        root = root_of({'sel': sel, 'order': order, 'triggers': trigs}) or 0
                        to = rng.randrange(9) if rng.random() < 0.96 else rng.choice([9, -1])
                        do_case({"op": "rp", "triggers": trigs, "order": order, "sel": sel, "to": to, "only": only, "enum": rng.random() < 0.8,
                                 "is": is_, "it": it, "lock": rand_lock(lk, trigs[root]), "lock_kind": lk}, fixed)
    n_tree = ctx.budget(45, 450)
    for _ in range(n_tree):
        frm = rng.randrange(9)
        trigs = rand_triggers(frm, True)
        n = len(trigs)
        for fo in (False, True):
            for is_ in (False, True):
                for it in (False, True):
                    for group in (None, -1, 0, 1):
                        lk = rng.choice(LOCK_KINDS)
                        order = rand_order(n)
                        sel = rand_sel(n, order)
                        root = root_of({'sel': sel, 'order': order, 'triggers': trigs}) or 0
                        ps = rand_players()
                        if ps is not None and len(ps) > 4 and rng.random() < 0.7:
                            ps = ps[:3]
                        do_case({"op": "tree", "triggers": trigs, "order": order, "sel": sel, "from": frm, "enum": rng.random() < 0.8,
                                 "fo": fo, "is": is_, "it": it, "lock": rand_lock(lk, trigs[root]), "lock_kind": lk,
                                 "gaia": rng.random() < 0.3, "players": ps, "group": group}, fixed)

    # ---- correspondence --------------------------------------------------------------------------------------
    drv = ctx.driver()
    if drv is not None:
        out = drv.batch(cmds)
        for cmd, o, x, m in zip(cmds, out, expect, meta):
            if x is None:
                if not o.startswith("ok"):
                    R.mismatch(f"driver refused setup command: {cmd} -> {o}", {"cmd": cmd})
                continue
            if o != x:
                R.mismatch(cmd, m, impl=x[:3000], model=o[:3000])
            else:
                R.traces += 1
    else:
        R.extra["driver"] = "unavailable (Lean build failed) - oracles only"
    return R.to_json(exhaustive=False)
