"""Tracing of a real commit (`AoE2ObjectManager.reconstruct`) for the M4 correspondence.

While the library saves, every `RetrieverObjectLink.push_to_link` is observed (monkey-patched from the harness, no source
hooks): for plain links the value handed to `retriever.set_data(value, affect_dirty=False)`, for object-list links the list of
child objects handed to `commit_object_list`. From these the harness builds, per manager, the nested list of pushed values in
link order - exactly the input of the Lean commit engine (`Aoe.Commit.commitAll`), which then has to reproduce the saved file
from the tree before the save. The ORDER and STRUCTURE of the commit come from the model, not from the trace.
"""
import contextlib
from harness import codec_common as cc

_MISSING = object()


def flatten(cls):
    from AoE2ScenarioParser.sections.retrievers.retriever_object_link_group import RetrieverObjectLinkGroup
    out = []
    for l in cls._link_list:
        if isinstance(l, RetrieverObjectLinkGroup):
            out += list(l.group)
        else:
            out.append(l)
    return out


class Trace:
    def __init__(self):
        self.rec = {}        # (id(host), link name) -> (value, retriever or None)
        self.keep = []
        self.stack = []

    @contextlib.contextmanager
    def active(self):
        from AoE2ScenarioParser.sections.retrievers.retriever_object_link import RetrieverObjectLink as ROL
        from AoE2ScenarioParser.sections.retrievers.retriever import Retriever
        orig_push, orig_set, orig_col = ROL.push_to_link, Retriever.set_data, ROL.commit_object_list
        T = self

        def push(self, uuid=None, number_hist=None, host_obj=None, progress=None):
            ctx = {"link": self, "value": _MISSING, "retr": None}
            T.stack.append(ctx)
            try:
                return orig_push(self, uuid, number_hist, host_obj, progress)
            finally:
                T.stack.pop()
                if ctx["value"] is not _MISSING:
                    T.rec[(id(host_obj), self.name)] = (ctx["value"], ctx["retr"])
                    T.keep.append(host_obj)

        def set_data(self, value, affect_dirty=True):
            if T.stack and T.stack[-1]["value"] is _MISSING and T.stack[-1]["link"].process_as_object is None and not affect_dirty:
                T.stack[-1]["value"] = value
                T.stack[-1]["retr"] = self
            return orig_set(self, value, affect_dirty)

        def col(object_list, instance_number_history):
            if T.stack and T.stack[-1]["value"] is _MISSING:
                T.stack[-1]["value"] = list(object_list)
                T.keep.append(T.stack[-1]["value"])
            return orig_col(object_list, instance_number_history)

        ROL.push_to_link, Retriever.set_data, ROL.commit_object_list = push, set_data, staticmethod(col)
        try:
            yield self
        finally:
            ROL.push_to_link, Retriever.set_data, ROL.commit_object_list = orig_push, orig_set, staticmethod(orig_col)

    def obj_text(self, obj):
        parts = []
        for link in flatten(type(obj)):
            got = self.rec.get((id(obj), link.name))
            if got is None:
                parts.append("N")                     # history link / unsupported in this version: never pushed
                continue
            value, retr = got
            if link.process_as_object is not None:
                parts.append("[" + ",".join(self.obj_text(o) for o in value) + "]")
            else:
                parts.append(cc.canon(value, retr))
        return "{" + ",".join(parts) + "}"

    def managers_text(self, scn):
        return "[" + ",".join(self.obj_text(m) for m in scn._object_manager.managers.values()) + "]"


def save_traced(scn, path, **kw):
    """scn.write_to_file(path) while recording (a) the sections as they are when the managers start to commit (after the
    on-write callbacks and the file-name update) and (b) the values the managers push. Returns (pre_text, pushed_text)."""
    T = Trace()
    om = scn._object_manager
    orig = om.reconstruct
    box = {}

    def reconstruct():
        box["pre"] = cc.canon_scenario(scn)
        return orig()
    om.reconstruct = reconstruct
    try:
        with T.active():
            scn.write_to_file(path, **kw)
    finally:
        del om.reconstruct
    return box.get("pre"), T.managers_text(scn)


class PullTrace:
    """records what every `construct` pulls: per constructed object the dict of constructor parameters"""
    def __init__(self):
        self.frames = {}
        self.keep = []
        self.stack = []

    @contextlib.contextmanager
    def active(self):
        from AoE2ScenarioParser.objects.aoe2_object import AoE2Object
        from AoE2ScenarioParser.sections.retrievers.retriever_object_link import RetrieverObjectLink as ROL
        from AoE2ScenarioParser.sections.retrievers.retriever_object_link_group import RetrieverObjectLinkGroup as ROLG
        orig_c = AoE2Object.__dict__["construct"].__func__
        orig_p, orig_g = ROL.pull, ROLG.pull
        T = self

        def construct(cls, uuid, number_hist=None, progress=None):
            frame = {"cls": cls, "params": {}}
            T.stack.append(frame)
            try:
                obj = orig_c(cls, uuid, number_hist, progress)
            finally:
                T.stack.pop()
            T.frames[id(obj)] = frame
            T.keep.append(obj)
            return obj

        def pull(self, *a, **k):
            r = orig_p(self, *a, **k)
            if T.stack:
                T.stack[-1]["params"].update(r)
            return r

        def gpull(self, *a, **k):
            r = orig_g(self, *a, **k)
            if T.stack:
                T.stack[-1]["params"].update(r)
            return r
        AoE2Object.construct = classmethod(construct)
        ROL.pull, ROLG.pull = pull, gpull
        try:
            yield self
        finally:
            AoE2Object.construct = classmethod(orig_c)
            ROL.pull, ROLG.pull = orig_p, orig_g

    def _canon(self, v):
        import struct
        if isinstance(v, float):
            try:
                b = struct.pack("<f", v)
                if struct.unpack("<f", b)[0] == v or v != v:
                    return "f" + b.hex()
            except OverflowError:
                pass
            return "f" + struct.pack("<d", v).hex()
        if isinstance(v, list):
            return "[" + ",".join(self._canon(x) for x in v) + "]"
        return cc.canon(v)

    def obj_text(self, obj):
        frame = self.frames[id(obj)]
        parts = []
        for link in flatten(frame["cls"]):
            v = frame["params"].get(link.name, None)
            if link.process_as_object is not None and v is not None:
                parts.append("[" + ",".join(self.obj_text(o) for o in v) + "]")
            elif v is None:
                parts.append("N")
            else:
                parts.append(self._canon(v))
        return "{" + ",".join(parts) + "}"

    def managers_text(self, scn):
        return "[" + ",".join(self.obj_text(m) for m in scn._object_manager.managers.values()) + "]"


def load_traced(path):
    """AoE2DEScenario.from_file(path) while recording what the managers' constructors receive. Returns (scenario, text)."""
    from AoE2ScenarioParser.scenarios.aoe2_de_scenario import AoE2DEScenario
    T = PullTrace()
    with T.active():
        scn = AoE2DEScenario.from_file(path)
    return scn, T.managers_text(scn)
