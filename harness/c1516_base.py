"""Live scenarios of every supported version for the C15/C16 harnesses.

Only v1.54 ships `default.aoe2scenario`. For the other versions a scenario is synthesised *in memory with the library's
own machinery*: the sections of the version's structure.json are filled, retriever by retriever, with the defaults of
the structure file, the repeat of every retriever being computed by the library's own `handle_retriever_dependency(…,
"construct")` (so counts and data are consistent), then the managers are constructed from those sections exactly as
`from_file` does. Files written from such a scenario re-load in the library for all 14 versions.

One scenario *version* per Python process (library limitation).
"""
import contextlib, io, json, os, sys

from harness import common


def quiet():
    return contextlib.redirect_stdout(io.StringIO())


def _leaf_default(r):
    from AoE2ScenarioParser.helper import bytes_parser
    dv, t = r.default_value, r.datatype.type

    def one(x):
        if t == "data":
            return bytes.fromhex(x) if isinstance(x, str) else bytes(r.datatype.length)
        if x is None:
            return 0 if t in ("u", "s") else (0.0 if t == "f" else "")
        if t in ("u", "s"):
            x = int(x); bits = 8 * r.datatype.length
            x %= 2 ** bits
            if t == "s" and x >= 2 ** (bits - 1):
                x -= 2 ** bits
            return x
        if t == "f":
            return float(x)
        if t == "c" and isinstance(x, str) and len(x) > r.datatype.length:       # hex dump of a fixed-width string
            return bytes.fromhex(x).split(b"\x00")[0].decode("utf-8", "replace")
        return x
    rep = r.datatype.repeat
    if isinstance(dv, list):
        vals = [one(x) for x in dv]
        if len(vals) < rep:
            vals += [one(dv[-1] if dv else None)] * (rep - len(vals))
        vals = vals[:rep]
    else:
        vals = [one(dv) for _ in range(rep)]
    return bytes_parser.vorl(r, vals)


def _fill(section, uuid):
    from AoE2ScenarioParser.sections.aoe2_file_section import AoE2FileSection
    from AoE2ScenarioParser.sections.dependencies.dependency import handle_retriever_dependency
    for r in section.retriever_map.values():
        handle_retriever_dependency(r, "construct", section, uuid)
        if r.datatype.type == "struct":
            model = section.struct_models[r.datatype.get_struct_name()]
            lst = []
            for _ in range(r.datatype.repeat):
                s = AoE2FileSection.from_model(model, uuid, set_defaults=False)
                _fill(s, uuid)
                lst.append(s)
            r.set_data(lst, affect_dirty=False)
        else:
            r.set_data(_leaf_default(r), affect_dirty=False)


def synth(version):
    """in-memory default scenario of `version` (string like '1.40')"""
    from AoE2ScenarioParser.scenarios.aoe2_de_scenario import AoE2DEScenario
    from AoE2ScenarioParser.scenarios.aoe2_scenario import _initialise_version_dependencies
    from AoE2ScenarioParser.sections.aoe2_file_section import AoE2FileSection
    from AoE2ScenarioParser.objects.aoe2_object_manager import AoE2ObjectManager
    with quiet():
        s = AoE2DEScenario("DE", version, source_location="", name="synth")
        s._load_structure()
        _initialise_version_dependencies("DE", version)
        for name in s.structure:
            sec = AoE2FileSection.from_structure(name, s.structure[name], s.uuid)
            s._add_to_sections(sec)
            _fill(sec, s.uuid)
        # v1.36's structure file carries the header default "1.37"
        s.sections["FileHeader"].retriever_map["version"].set_data(version, affect_dirty=False)
        s._object_manager = AoE2ObjectManager(s.uuid)
        s._object_manager.setup()
    return s


def live(version, has_default):
    """a live scenario of the version: the shipped default when there is one, a synthesised one otherwise"""
    from AoE2ScenarioParser.scenarios.aoe2_de_scenario import AoE2DEScenario
    if has_default:
        with quiet():
            return AoE2DEScenario.from_default(version) if _from_default_takes_version(AoE2DEScenario) else AoE2DEScenario.from_default()
    return synth(version)


def _from_default_takes_version(cls):
    import inspect
    try:
        return "scenario_version" in inspect.signature(cls.from_default).parameters
    except (TypeError, ValueError):
        return False


def save_reload(scn, path):
    from AoE2ScenarioParser.scenarios.aoe2_de_scenario import AoE2DEScenario
    import warnings
    with quiet(), warnings.catch_warnings():
        warnings.simplefilter("ignore")
        scn.write_to_file(path)
        return AoE2DEScenario.from_file(path)


def tables():
    g = os.path.join(common.ROOT, "gen")
    return {k: json.load(open(os.path.join(g, k + ".json"))) for k in ("versions", "links", "helpers", "names")}


def err_kind(e):
    n = type(e).__name__
    return {"UnsupportedAttributeError": "unsupported", "ValueError": "valueError", "TypeError": "typeError",
            "KeyError": "keyError"}.get(n, "other:" + n)
