"""Run one worker subprocess per scenario version in parallel and collect their JSON results."""
import json, os, subprocess, sys, tempfile, shutil
from concurrent.futures import ThreadPoolExecutor

from harness import common


def run_versions(mode, versions, ctx, timeout=3000):
    tmp = tempfile.mkdtemp(prefix=f"{mode}_")
    env = dict(os.environ)
    env["PYTHONPATH"] = common.REPO + os.pathsep + common.ROOT
    env["PYTHONDONTWRITEBYTECODE"] = "1"
    env["PYTHONHASHSEED"] = "0"

    def one(v):
        out = os.path.join(tmp, f"{v}.json")
        cmd = [sys.executable, "-m", "harness.c1516_worker", mode, v, ctx.tier, str(ctx.seed), "1" if ctx.escalate else "0", out]
        # cwd = scratch: the library writes `error_file.txt` into the working directory when a parse fails
        p = subprocess.run(cmd, cwd=tmp, env=env, capture_output=True, text=True, timeout=timeout)
        if p.returncode != 0 or not os.path.exists(out):
            return v, None, (p.stdout[-1500:] + p.stderr[-3000:])
        return v, json.load(open(out)), ""
    try:
        with ThreadPoolExecutor(max_workers=min(len(versions), os.cpu_count() or 4)) as ex:
            res = list(ex.map(one, versions))
    finally:
        shutil.rmtree(tmp, ignore_errors=True)
    return res
