"""Run one worker subprocess per scenario version in parallel and collect their JSON results."""
import json, os, subprocess, sys, tempfile, shutil
from concurrent.futures import ThreadPoolExecutor

from harness import common


def run_versions(mode, versions, ctx, timeout=3000):
    tmp = tempfile.mkdtemp(prefix=f"{mode}_")
    env = dict(os.environ)
    env["PYTHONPATH"] = common.REPO + os.pathsep + common.ROOT
    env["PYTHONDONTWRITEBYTECODE"] = "1"
    env["PYTHONHASHSEED"] = "0"

    def one(v):
        out = os.path.join(tmp, f"{v}.json")
        cmd = [sys.executable, "-m", "harness.c1516_worker", mode, v, ctx.tier, str(ctx.seed), "1" if ctx.escalate else "0", out]
        # cwd = scratch: the library writes `error_file.txt` into the working directory when a parse fails
        p = subprocess.run(cmd, cwd=tmp, env=env, capture_output=True, text=True, timeout=timeout)
        if p.returncode != 0 or not os.path.exists(out):
            return v, None, (p.stdout[-1500:] + p.stderr[-3000:])
        return v, json.load(open(out)), ""
    try:
        with ThreadPoolExecutor(max_workers=min(len(versions), os.cpu_count() or 4)) as ex:
            res = list(ex.map(one, versions))
        # confirm before reporting: a version whose worker reported violations is run once more, alone; only violations
        # whose signature shows up again are kept (the others are listed as unconfirmed in the evidence)
        out = []
        for v, r, err in res:
            if r is not None and any(not x.get("confirmed") for x in r.get("violations", [])):
                v2, r2, err2 = one(v)
                if r2 is not None:
                    again = {json.dumps(x["signature"], sort_keys=True) for x in r2.get("violations", [])}
                    kept = [x for x in r["violations"] if x.get("confirmed") or json.dumps(x["signature"], sort_keys=True) in again]
                    r["unconfirmed"] = [x for x in r["violations"] if x not in kept]
                    r["violations"] = kept
            out.append((v, r, err))
        res = out
    finally:
        shutil.rmtree(tmp, ignore_errors=True)
    return res
