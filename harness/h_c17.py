"""C17 – armour/attack packing: correspondence (real Effect objects vs Lean model AA) + direct oracles.

Observations compared (DESIGN 2.4): the public results only – armour_attack_class, armour_attack_quantity,
variable, and the integers the reconstruction properties hand to commit (quantity, _variable_ref).
"""
import contextlib, io, os, shutil, tempfile
from harness import common


def run(ctx):
    common.lib_setup()
    from AoE2ScenarioParser.scenarios.aoe2_de_scenario import AoE2DEScenario
    from AoE2ScenarioParser.objects.data_objects.effect import Effect
    from AoE2ScenarioParser.datasets.effects import EffectId
    from AoE2ScenarioParser.datasets.trigger_lists import ObjectAttribute

    R = common.Result("exhaustive over the 8-bit layout (all 65536 class/amount pairs through real Effect objects, "
                      "quantity- and variable-based); boundaries + seeded random over the 16-bit layout and over stored "
                      "integers (negative included); every family effect type x {ATTACK, ARMOR, other, None}; trigger "
                      "versions 2.4, 2.49, 2.5, 3.9; save/reload on samples. non-trivial = class != 0 and amount != 0 "
                      "(or a family effect with a non-zero stored value); distinct by (layout, form, values)")
    rng = ctx.rng
    with contextlib.redirect_stdout(io.StringIO()):
        scn = AoE2DEScenario.from_default()
    T = scn.sections['Triggers']
    u = scn.uuid

    AA = [EffectId.CHANGE_OBJECT_ATTACK, EffectId.CHANGE_OBJECT_ARMOR, EffectId.CREATE_OBJECT_ATTACK, EffectId.CREATE_OBJECT_ARMOR]
    PQ = [EffectId.MODIFY_ATTRIBUTE]
    PV = [EffectId.MODIFY_ATTRIBUTE_BY_VARIABLE, EffectId.MODIFY_VARIABLE_BY_ATTRIBUTE]
    ATTRS = [ObjectAttribute.ATTACK, ObjectAttribute.ARMOR]
    il = lambda l: ",".join(str(int(x)) for x in l)
    cmds = [f"family aa={il(AA)} pq={il(PQ)} pv={il(PV)} attrs={il(ATTRS)}"]
    expect = ["ok"]          # implementation-side observation per command
    meta = [None]

    BASE = dict(object_list_unit_id=-1, technology=-1, object_list_unit_id_2=-1, area_x1=-1, area_y1=-1, area_x2=-1, area_y2=-1)

    def Eff(**kw):
        """a real Effect as `construct` / `new_effect` build it (the int-typed and area arguments are always supplied there)"""
        return Effect(**{**BASE, **kw}, uuid=u)

    def so(v):
        return "None" if v is None else str(int(v))

    def set_tv(tv):
        T.trigger_version = tv

    def add(cmd, obs, m):
        cmds.append(cmd); expect.append(obs); meta.append(m)

    # ---- (a) pair -> stored -> pair, through real Effect objects ------------------------------------
    def do_pair(tv, g, et, c, a, var=-1):
        set_tv(tv)
        k = 16 if g else 8
        st, e = common.outcome(lambda: Eff(effect_type=int(et), armour_attack_class=c, armour_attack_quantity=a, variable=var))
        if st == "ok":
            st, q = common.outcome(lambda: e.quantity)
        if st != "ok":
            add(f"pair {g} {c} {a} {var}", "error", ("pair", tv, int(et), c, a)); return
        e2 = Eff(effect_type=int(et), quantity=q, _variable_ref=e._variable_ref)
        obs = f"q={q} reload: class={so(e2.armour_attack_class)} amount={so(e2.armour_attack_quantity)}"
        add(f"pair {g} {c} {a} {var}", obs, ("pair", tv, int(et), c, a))
        # direct oracle (property text): stored = class*2^k + amount ; pair comes back unchanged
        inrange = 0 <= a < 2 ** k
        good = (q == c * 2 ** k + a) and (not inrange or (e2.armour_attack_class == c and e2.armour_attack_quantity == a)) \
            and e2.quantity == q
        R.case(key=("pair", g, c, a), nontrivial=(c != 0 and a != 0), tags=(f"pair{k}",),
               sample={"op": "pair", "tv": tv, "effect_type": int(et), "class": c, "amount": a, "stored": q})
        if not good:
            R.violation({"form": "quantity", "layout": k, "op": "pair"},
                        f"pair ({c},{a}) at trigger version {tv}: stored {q}, reloaded ({e2.armour_attack_class},{e2.armour_attack_quantity})",
                        {"op": "pair", "tv": tv, "effect_type": int(et), "class": c, "amount": a})

    def do_pairvar(tv, g, et, oa, c, v):
        set_tv(tv)
        k = 16 if g else 8
        st, e = common.outcome(lambda: Eff(effect_type=int(et), object_attributes=int(oa), armour_attack_class=c, variable=v))
        if st == "ok":
            st, r = common.outcome(lambda: e._variable_ref)
        if st != "ok":
            add(f"pairvar {g} {c} {v}", "error", ("pairvar", tv, int(et), c, v)); return
        e2 = Eff(effect_type=int(et), object_attributes=int(oa), quantity=e.quantity, _variable_ref=r)
        add(f"pairvar {g} {c} {v}", f"v={r} reload: class={so(e2.armour_attack_class)} variable={so(e2.variable)}",
            ("pairvar", tv, int(et), c, v))
        inrange = 0 <= v < 2 ** k
        good = (r == c * 2 ** k + v) and (not inrange or (e2.armour_attack_class == c and e2.variable == v)) and e2._variable_ref == r
        R.case(key=("pairvar", g, c, v), nontrivial=(c != 0 and v != 0), tags=(f"pairvar{k}",))
        if not good:
            R.violation({"form": "variable", "layout": k, "op": "pairvar"},
                        f"variable pair ({c},{v}) at tv {tv}: stored {r}, reloaded ({e2.armour_attack_class},{e2.variable})",
                        {"op": "pairvar", "tv": tv, "effect_type": int(et), "object_attributes": int(oa), "class": c, "variable": v})

    # ---- (b) stored -> object -> stored ---------------------------------------------------------------
    def do_load(tv, g, et, oa, q, v):
        set_tv(tv)
        st, e = common.outcome(lambda: Eff(effect_type=et, object_attributes=oa, quantity=q, _variable_ref=v))
        cmd = f"load {g} {so(et)} {so(oa)} {so(q)} {v}"
        if st != "ok":
            add(cmd, "error", ("load", tv, et, oa, q, v)); return
        src = e._armour_attack_source or "none"
        s1, sq = common.outcome(lambda: e.quantity)
        s2, sv = common.outcome(lambda: e._variable_ref)
        obs = (f"src={src} class={so(e.armour_attack_class)} amount={so(e.armour_attack_quantity)} variable={so(e.variable)} "
               f"q={so(sq) if s1 == 'ok' else 'error'} v={so(sv) if s2 == 'ok' else 'error'}")
        add(cmd, obs, ("load", tv, et, oa, q, v))
        R.case(key=("load", g, et, oa, q, v), nontrivial=(src != "none" and (q or 0) != 0), tags=("load:" + src,))
        if q is not None:
            good = s1 == "ok" and s2 == "ok" and sq == q and sv == v
            if src == "none":
                good = good and e.quantity == q and e.armour_attack_class is None
            if not good:
                R.violation({"form": src, "op": "load", "layout": 16 if g else 8},
                            f"stored (quantity={q}, variable={v}) of effect type {et}/{oa} at tv {tv} comes back as ({sq},{sv})",
                            {"op": "load", "tv": tv, "effect_type": et, "object_attributes": oa, "quantity": q, "variable_ref": v})

    def do_setq(tv, g, et, oa, q, v, nq):
        set_tv(tv)
        st, e = common.outcome(lambda: Eff(effect_type=et, object_attributes=oa, quantity=q, _variable_ref=v))
        cmd = f"setq {g} {so(et)} {so(oa)} {so(q)} {v} {nq}"
        if st != "ok":
            add(cmd, "error", ("setq",)); return
        e.quantity = nq
        s1, sq = common.outcome(lambda: e.quantity)
        add(cmd, f"class={so(e.armour_attack_class)} amount={so(e.armour_attack_quantity)} q={so(sq) if s1 == 'ok' else 'error'}", ("setq", tv, et, oa, q, v, nq))
        R.case(key=("setq", g, et, oa, nq), nontrivial=nq != 0, tags=("setq",))
        if not (s1 == "ok" and sq == nq):
            R.violation({"op": "setq", "layout": 16 if g else 8}, f"quantity set to {nq} is stored as {sq}", {"op": "setq", "tv": tv, "effect_type": et, "object_attributes": oa, "new": nq})

    # ---- (b2) effect re-targeted after creation (effect_type / object_attributes assigned later) ------------
    def do_retarget(tv, g, et0, oa0, et, oa, c, a, v):
        set_tv(tv)
        k = 16 if g else 8
        cmd = f"retarget {g} {so(et0)} {so(oa0)} {so(et)} {so(oa)} {c} {a} {v}"
        st, e = common.outcome(lambda: Eff(effect_type=et0, object_attributes=oa0))
        if st != "ok":
            add(cmd, "error", ("retarget",)); return
        import warnings
        with warnings.catch_warnings():
            warnings.simplefilter("ignore")
            e.effect_type = et
            e.object_attributes = oa
            e.armour_attack_class = c
            e.armour_attack_quantity = a
            e.variable = v
        src = e._armour_attack_source or "none"
        s1, sq = common.outcome(lambda: e.quantity)
        s2, sv = common.outcome(lambda: e._variable_ref)
        add(cmd, f"src={src} q={so(sq) if s1 == 'ok' else 'error'} v={so(sv) if s2 == 'ok' else 'error'}", ("retarget", tv, et0, oa0, et, oa, c, a, v))
        fam_q = (et in [int(x) for x in AA]) or (et in [int(x) for x in PQ] and oa in [int(x) for x in ATTRS])
        fam_v = (et in [int(x) for x in PV] and oa in [int(x) for x in ATTRS])
        R.case(key=("retarget", g, et0, oa0, et, oa, c, a, v), nontrivial=(fam_q or fam_v), tags=("retarget:" + ("q" if fam_q else "v" if fam_v else "plain"),))
        good = True
        if fam_q:
            good = s1 == "ok" and sq == c * 2 ** k + a
        elif fam_v:
            good = s2 == "ok" and sv == c * 2 ** k + v
        else:
            good = s2 == "ok" and sv == v
        if not good:
            R.violation({"op": "retarget", "form": "quantity" if fam_q else "variable" if fam_v else "plain", "layout": k},
                        f"effect created as ({et0},{oa0}) and re-targeted to ({et},{oa}) with class {c}, amount {a}, variable {v} stores quantity={sq} variable={sv}",
                        {"op": "retarget", "tv": tv, "from": [et0, oa0], "to": [et, oa], "class": c, "amount": a, "variable": v})

    # ---- (b3) any sequence of setter calls on one effect (quantity, type/attribute, class, amount, variable) ----
    def do_seq(tv, g, et0, oa0, ops):
        """ops: list of ('q', n) | ('t', et, oa) | ('c', n) | ('a', n) | ('v', n); the pair that was set LAST is what is stored"""
        set_tv(tv)
        k = 16 if g else 8
        txt = ";".join(f"t{so(o[1])}:{so(o[2])}" if o[0] == "t" else f"{o[0]}{so(o[1])}" if o[0] in "TA" else f"{o[0]}{o[1]}" for o in ops)
        cmd = f"seq {g} {so(et0)} {so(oa0)} {txt}"
        st, e = common.outcome(lambda: Eff(effect_type=et0, object_attributes=oa0))
        if st != "ok":
            add(cmd, "error", ("seq",)); return
        import warnings
        famq = lambda et, oa: (et in [int(x) for x in AA]) or (et in [int(x) for x in PQ] and oa in [int(x) for x in ATTRS])
        famv = lambda et, oa: (et in [int(x) for x in PV] and oa in [int(x) for x in ATTRS])
        et, oa = et0, oa0
        cls = amt = plain = None          # independent bookkeeping of what the user said last
        var = -1
        with warnings.catch_warnings():
            warnings.simplefilter("ignore")
            for o in ops:
                if o[0] == "q":
                    e.quantity = o[1]
                    plain = o[1]
                    if famq(et, oa):
                        cls, amt = o[1] >> k, o[1] & (2 ** k - 1)
                elif o[0] == "t":
                    e.effect_type = o[1]
                    e.object_attributes = o[2]
                    et, oa = o[1], o[2]
                elif o[0] == "T":             # only the type is assigned
                    e.effect_type = o[1]; et = o[1]
                elif o[0] == "A":             # only the attribute is assigned
                    e.object_attributes = o[1]; oa = o[1]
                elif o[0] == "c":
                    e.armour_attack_class = o[1]; cls = o[1]
                elif o[0] == "a":
                    e.armour_attack_quantity = o[1]; amt = o[1]
                else:
                    e.variable = o[1]; var = o[1]
        src = e._armour_attack_source or "none"
        s1, sq = common.outcome(lambda: e.quantity)
        s2, sv = common.outcome(lambda: e._variable_ref)
        add(cmd, f"src={src} q={so(sq) if s1 == 'ok' else 'error'} v={so(sv) if s2 == 'ok' else 'error'}", ("seq", tv, et0, oa0, ops))
        fq, fv = famq(et, oa), famv(et, oa)
        R.case(key=("seq", g, et0, oa0, txt), nontrivial=(fq or fv) and len(ops) >= 3, tags=("seq:" + ("q" if fq else "v" if fv else "plain"), f"seq-len:{len(ops)}"))
        good = True
        if fq and cls is not None and amt is not None:
            good = s1 == "ok" and sq == cls * 2 ** k + amt
        elif fv and cls is not None:
            good = s2 == "ok" and sv == cls * 2 ** k + var
        elif not fq and not fv:
            good = s1 == "ok" and sq == plain and s2 == "ok" and sv == var
        if not good:
            R.violation({"op": "seq", "form": "quantity" if fq else "variable" if fv else "plain", "layout": k},
                        f"effect created as ({et0},{oa0}), then {txt}: the last pair said class={cls} amount={amt} variable={var} plain quantity={plain}, "
                        f"stored quantity={sq if s1 == 'ok' else 'raises'} variable={sv if s2 == 'ok' else 'raises'}",
                        {"op": "seq", "tv": tv, "from": [et0, oa0], "ops": [list(o) for o in ops]})

    # corpus first
    for c in ctx.corpus():
        rp = c.get("replay", c)
        if rp.get("op") == "pair":
            do_pair(rp["tv"], 1 if rp["tv"] >= 2.5 else 0, rp["effect_type"], rp["class"], rp["amount"])
        elif rp.get("op") == "seq":
            do_seq(rp["tv"], 1 if rp["tv"] >= 2.5 else 0, rp["from"][0], rp["from"][1], [tuple(o) for o in rp["ops"]])
        elif rp.get("op") == "load":
            do_load(rp["tv"], 1 if rp["tv"] >= 2.5 else 0, rp["effect_type"], rp["object_attributes"], rp["quantity"], rp["variable_ref"])

    # exhaustive 8-bit layout
    step8 = 1
    for c in range(0, 256, step8):
        for a in range(256):
            do_pair(2.4, 0, AA[(c + a) % 4], c, a)
    # variable-based 8 bit: exhaustive over class x variable in a 64x256 band (quick) / full (thorough)
    for c in range(0, 256, 4 if ctx.quick else 1):
        for v in range(256):
            do_pairvar(2.49, 0, PV[(c + v) % 2], ATTRS[c % 2], c, v)
    # 16-bit boundaries + random, out-of-range amounts (model and code must agree on those too)
    B16 = [0, 1, 2, 255, 256, 257, 32767, 32768, 65534, 65535]
    for c in B16:
        for a in B16 + [65536, 65537, -1, 100000]:
            do_pair(2.5, 1, AA[(c + a) % 4], c, a)
            do_pair(3.9, 1, PQ[0] if False else AA[(c * 3 + a) % 4], c, a)
    for a in [256, 257, -1, 1000]:
        do_pair(2.4, 0, AA[0], 7, a)
    n = ctx.budget(4000, 60000)
    for _ in range(n):
        c = rng.choice([rng.randrange(65536), rng.randrange(300)])
        a = rng.choice([rng.randrange(65536), rng.randrange(300)])
        do_pair(rng.choice([2.5, 3.9, 4.5]), 1, rng.choice(AA), c, a)
    for _ in range(n // 4):
        c = rng.randrange(65536); v = rng.randrange(65536)
        do_pairvar(rng.choice([2.5, 3.9]), 1, rng.choice(PV), rng.choice(ATTRS), c, v)
    # stored integers incl. negatives, all family types x attributes, plain types
    types = [int(x) for x in AA + PQ + PV] + [int(EffectId.SEND_CHAT), int(EffectId.CREATE_OBJECT), None, 9999]
    oas = [int(ATTRS[0]), int(ATTRS[1]), int(ObjectAttribute.HIT_POINTS), None, -1]
    BV = [0, 1, 255, 256, 773, 65535, 65536, 196613, 2 ** 31 - 1, -1, -2, -256, -300, -65536, -(2 ** 31)]
    for tv, g in [(2.4, 0), (2.49, 0), (2.5, 1), (3.9, 1)]:
        for et in types:
            for oa in oas:
                for q in BV[:: (3 if ctx.quick else 1)] + [None]:
                    do_load(tv, g, et, oa, q, rng.choice(BV))
    for _ in range(n):
        tv, g = rng.choice([(2.4, 0), (2.5, 1), (3.9, 1), (2.49, 0)])
        do_load(tv, g, rng.choice(types), rng.choice(oas), rng.randrange(-2 ** 31, 2 ** 31), rng.randrange(-2 ** 31, 2 ** 31))
    for _ in range(n // 4):
        tv, g = rng.choice([(2.4, 0), (2.5, 1)])
        do_setq(tv, g, rng.choice(types[:7]), rng.choice(oas[:3]), rng.randrange(0, 2 ** 20), rng.randrange(0, 1000), rng.randrange(-2 ** 20, 2 ** 31))

    fam_types = [int(x) for x in AA + PQ + PV]
    plain_types = [int(EffectId.SEND_CHAT), int(EffectId.CREATE_OBJECT)]
    attr_vals = [int(ATTRS[0]), int(ATTRS[1]), int(ObjectAttribute.HIT_POINTS), -1]
    for et0 in fam_types + plain_types:
        for oa0 in attr_vals:
            for et in fam_types + plain_types[:1]:
                for oa in attr_vals[:3]:
                    tv, g = rng.choice([(2.4, 0), (2.5, 1), (3.9, 1)])
                    do_retarget(tv, g, et0, oa0, et, oa, rng.randrange(256), rng.randrange(256), rng.randrange(256))

    # sequences of setter calls: the two documented shapes + seeded random ones
    HP = int(ObjectAttribute.HIT_POINTS)
    for tv, g in [(2.4, 0), (2.5, 1), (3.9, 1)]:
        for oa in [int(x) for x in ATTRS]:
            do_seq(tv, g, int(PQ[0]), HP, [("q", 300), ("t", int(PQ[0]), oa), ("c", 3), ("a", 5)])
            do_seq(tv, g, int(PQ[0]), oa, [("c", 3), ("a", 5), ("q", 2 * 2 ** (16 if g else 8) + 7), ("a", 9)])
        for et in [int(x) for x in AA]:
            do_seq(tv, g, et, None, [("c", 3), ("a", 5), ("q", 2 * 2 ** (16 if g else 8) + 7), ("a", 9), ("c", 1)])
    for tv, g in [(2.4, 0), (2.5, 1)]:
        for et in [int(x) for x in AA]:
            do_seq(tv, g, plain_types[0], None, [("T", et), ("c", 3), ("a", 5)])
            do_seq(tv, g, plain_types[1], -1, [("c", 3), ("T", et), ("a", 7)])
        do_seq(tv, g, int(PQ[0]), HP, [("A", int(ATTRS[0])), ("c", 3), ("a", 5)])
    for _ in range(ctx.budget(1500, 20000)):
        tv, g = rng.choice([(2.4, 0), (2.5, 1), (3.9, 1)])
        kk = 16 if g else 8
        et0, oa0 = rng.choice(fam_types + plain_types), rng.choice(attr_vals)
        ops = []
        for _ in range(rng.randrange(2, 7)):
            r = rng.random()
            if r < 0.25:
                ops.append(("q", rng.choice([rng.randrange(2 ** kk), rng.randrange(2 ** (2 * kk)), 300, 0])))
            elif r < 0.35:
                ops.append(("t", rng.choice(fam_types + plain_types[:1]), rng.choice(attr_vals[:3])))
            elif r < 0.41:
                ops.append(("T", rng.choice(fam_types + plain_types[:1])))
            elif r < 0.45:
                ops.append(("A", rng.choice(attr_vals[:3])))
            elif r < 0.65:
                ops.append(("c", rng.randrange(2 ** kk if rng.random() < 0.5 else 40)))
            elif r < 0.85:
                ops.append(("a", rng.randrange(2 ** kk if rng.random() < 0.5 else 300)))
            else:
                ops.append(("v", rng.randrange(256)))
        do_seq(tv, g, et0, oa0, ops)

    # ---- the helper route: new_effect.modify_attribute(object_attributes=ATTACK/ARMOR, quantity=<packed>) ----------
    htrig = scn.trigger_manager.add_trigger("c17-helpers")
    for tv, g in [(2.4, 0), (2.5, 1), (3.9, 1)]:
        k = 16 if g else 8
        for oa in [int(x) for x in ATTRS]:
            for c_, a_ in [(3, 5), (0, 7), (2 ** k - 1, 2 ** k - 1), (1, 0), (rng.randrange(2 ** k), rng.randrange(2 ** k))]:
                set_tv(tv)
                q = c_ * 2 ** k + a_
                import warnings
                with warnings.catch_warnings():
                    warnings.simplefilter("ignore")
                    st, e = common.outcome(lambda: htrig.new_effect.modify_attribute(object_attributes=oa, quantity=q))
                    st2, e2 = common.outcome(lambda: htrig.new_effect.modify_attribute(object_attributes=oa, armour_attack_class=c_, armour_attack_quantity=a_))
                got = (st == "ok" and (e.quantity, e.armour_attack_class, e.armour_attack_quantity))
                got2 = (st2 == "ok" and (e2.quantity, e2.armour_attack_class, e2.armour_attack_quantity))
                R.case(key=("helper", g, oa, c_, a_), nontrivial=c_ != 0 and a_ != 0, tags=("helper:modify_attribute",))
                if got != (q, c_, a_) or got2 != (q, c_, a_):
                    R.violation({"op": "helper", "layout": k, "form": "quantity" if got != (q, c_, a_) else "pair"},
                                f"new_effect.modify_attribute(object_attributes={oa}, quantity={q}) gives (quantity, class, amount) = {got}, with the pair "
                                f"({c_}, {a_}) supplied {got2}; both must be ({q}, {c_}, {a_})",
                                {"op": "helper", "tv": tv, "object_attributes": oa, "class": c_, "amount": a_})

    # ---- correspondence: diff against the Lean model ---------------------------------------------------
    drv = ctx.driver()
    if drv is not None:
        out = drv.batch(cmds)
        for cmd, o, x, m in zip(cmds, out, expect, meta):
            if o != x:
                R.mismatch(f"{cmd}", {"cmd": cmd, "meta": m}, impl=x, model=o)
            else:
                R.traces += 1
    else:
        R.extra["driver"] = "unavailable (Lean build failed) - oracles only"

    # ---- (c) real save / reload on samples, both layouts ----------------------------------------------
    tmp = tempfile.mkdtemp(prefix="c17_")
    try:
        # NOTE (defect F3, see DESIGN 10): on the pinned tree a default-constructed effect record carries its
        # `redacted` block whatever the trigger version, so below trigger version 4.0 only ONE new effect per file
        # is re-loadable. The 8-bit layout is therefore sampled with one effect per file, the 16-bit layout at
        # trigger version 4.0 (with the section's own `redacted` block supplied) with many effects in one file.
        def roundtrip_file(tv, k, specs, tag):
            with contextlib.redirect_stdout(io.StringIO()):
                s = AoE2DEScenario.from_default()
                s.sections['Triggers'].trigger_version = tv
                if tv >= 4.0:
                    s.sections['Triggers'].redacted = bytes(16)
                tr = s.trigger_manager.add_trigger("aa")
                for spec in specs:
                    if spec[0] == "aa":
                        _, et, c, a = spec
                        getattr(tr.new_effect, EffectId(et).name.lower())(armour_attack_class=c, armour_attack_quantity=a)
                    elif spec[0] == "mod":
                        tr.new_effect.modify_attribute(object_attributes=int(ATTRS[0]), armour_attack_class=spec[2], armour_attack_quantity=spec[3])
                    elif spec[0] == "var":
                        tr.new_effect.modify_attribute_by_variable(object_attributes=int(ATTRS[1]), armour_attack_class=spec[2], variable=spec[3])
                    else:
                        tr.new_effect.modify_attribute(object_attributes=int(ObjectAttribute.HIT_POINTS), quantity=spec[2])
                fn = os.path.join(tmp, f"{tag}.aoe2scenario")
                fn2 = os.path.join(tmp, f"{tag}_b.aoe2scenario")

                def save_reload_twice():
                    s.write_to_file(fn)
                    a_ = AoE2DEScenario.from_file(fn)
                    a_.write_to_file(fn2)
                    return a_, AoE2DEScenario.from_file(fn2)
                st_, r_ = common.outcome(save_reload_twice)
            if st_ != "ok":
                R.case(key=("file", k, tag, "raises"), nontrivial=True, tags=("file:raises",))
                R.violation({"op": "save-reload", "layout": k, "form": "raises"},
                            f"saving / re-loading in-range armour/attack pairs raised {r_} (trigger version {tv}; pairs "
                            f"{[list(x[2:]) for x in specs if x[0] != 'plain'][-12:]})", {"op": "file", "tv": tv, "specs": [list(x) for x in specs][-16:]})
                return
            s2, s3 = r_
            effs = s2.trigger_manager.triggers[0].effects
            for spec, e in zip(specs, effs):
                R.case(key=("file", k) + tuple(spec), nontrivial=True, tags=("file:" + spec[0],),
                       sample={"op": "file", "tv": tv, "spec": list(spec)})
                if spec[0] in ("aa", "mod"):
                    got, want = (e.armour_attack_class, e.armour_attack_quantity), (spec[2], spec[3])
                elif spec[0] == "var":
                    got, want = (e.armour_attack_class, e.variable), (spec[2], spec[3])
                else:
                    got, want = (e.armour_attack_class, e.quantity), (None, spec[2])
                if got != want:
                    R.violation({"op": "save-reload", "layout": k, "form": spec[0]}, f"{want} reloaded as {got} (tv {tv})",
                                {"op": "file", "tv": tv, "spec": list(spec)})
            q2 = [(e.quantity, e._variable_ref) for e in effs]
            q3 = [(e.quantity, e._variable_ref) for e in s3.trigger_manager.triggers[0].effects]
            if q2 != q3:
                R.violation({"op": "load-save", "layout": k}, "stored integers change on load/save", {"op": "refile", "tv": tv, "specs": [list(x) for x in specs]})

        for i in range(ctx.budget(6, 40)):
            kind = ("aa", "mod", "var", "plain")[i % 4]
            spec = (kind, int(rng.choice(AA)), rng.randrange(256), rng.randrange(256))
            roundtrip_file(2.4, 8, [spec], f"s8_{i}")
        specs = []
        for i in range(ctx.budget(40, 400)):
            kind = ("aa", "mod", "var", "plain")[i % 4]
            specs.append((kind, int(rng.choice(AA)), rng.randrange(32768), rng.randrange(65536)))  # class*65536+amount must fit the s32 field
        # the corners of the 16+16-bit layout (the largest pair merges to the largest value of the s32 field)
        for kind in ("aa", "mod", "var"):
            for c_, a_ in ((32767, 65535), (32767, 0), (0, 65535), (0, 0)):
                specs.append((kind, int(AA[0]), c_, a_))
        roundtrip_file(4.0, 16, specs, "s16")
    finally:
        shutil.rmtree(tmp, ignore_errors=True)
    return R.to_json(exhaustive=True)
