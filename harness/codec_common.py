"""Python side of the codec correspondence: canonical dumps of the library's sections, file splitting, driver session.

Canonical value text (same as Driver/CodecCommon.lean):
  int i<dec> | float f<hex of raw LE bytes> | bytes d<hex> | str s<hex of utf-8> | None N | list [a,b] | struct {a,b}
"""
import struct, zlib, io, contextlib, os
from harness import common


def canon(value, retriever=None):
    from AoE2ScenarioParser.sections.aoe2_file_section import AoE2FileSection
    if value is None:
        return "N"
    if isinstance(value, AoE2FileSection):
        return canon_section(value)
    if isinstance(value, list):
        return "[" + ",".join(canon(v, retriever) for v in value) + "]"
    if isinstance(value, bool):
        return f"i{int(value)}"
    if isinstance(value, int):
        return f"i{int(value)}"
    if isinstance(value, float):
        n = retriever.datatype.length if (retriever is not None and retriever.datatype.type == "f") else 8
        try:
            return "f" + struct.pack("<f" if n == 4 else "<d", value).hex()
        except OverflowError:
            return "f!overflow"
    if isinstance(value, (bytes, bytearray)):
        return "d" + bytes(value).hex()
    if isinstance(value, str):
        return "s" + value.encode("utf-8", "surrogatepass").hex()
    return "?" + type(value).__name__


def canon_section(sec, drop_eof=True):
    parts = []
    for name, r in sec.retriever_map.items():
        if name == "__END_OF_FILE_MARK__":
            continue
        parts.append(canon(r.data, r))
    return "{" + ",".join(parts) + "}"


def canon_scenario(scn):
    """`H{..} B[{..},..]` exactly like the driver's `dump`"""
    secs = list(scn.sections.values())
    return "H" + canon_section(secs[0]) + " B[" + ",".join(canon_section(s) for s in secs[1:]) + "]"


def eof_mark(scn):
    last = list(scn.sections.values())[-1]
    r = last.retriever_map.get("__END_OF_FILE_MARK__")
    return None if r is None else r.data


def inflate(b):
    return zlib.decompress(b, -zlib.MAX_WBITS)


def deflate(b):
    o = zlib.compressobj(9, zlib.DEFLATED, -zlib.MAX_WBITS)
    return o.compress(b) + o.flush()


def hexd(b):
    return b.hex() if b else "-"


def unhexd(s):
    return b"" if s == "-" else bytes.fromhex(s)


def quiet():
    return contextlib.redirect_stdout(io.StringIO())


_F32 = None


def canon_nan(text):
    """every f32 NaN bit pattern -> `fNaN`: the library holds floats as Python floats, which keep a NaN but not its
    payload (a signalling NaN read from a corrupted file comes back as a quiet one) - NaN payloads are not compared"""
    import re
    global _F32
    if _F32 is None:
        _F32 = re.compile(r"(?<![0-9a-z])f([0-9a-f]{8})(?![0-9a-f])")

    def rep(m):
        b = bytes.fromhex(m.group(1))
        v = int.from_bytes(b, "little")
        return "fNaN" if (v >> 23) & 0xFF == 0xFF and v & 0x7FFFFF else m.group(0)
    return _F32.sub(rep, text)


def first_diff(a, b, ctx=60):
    n = min(len(a), len(b))
    i = next((k for k in range(n) if a[k] != b[k]), n)
    return {"at": i, "impl": a[max(0, i - ctx):i + ctx], "model": b[max(0, i - ctx):i + ctx], "len_impl": len(a), "len_model": len(b)}


def path_at(text, pos):
    """positional path (field / element indices) of the character position `pos` in a canonical dump"""
    stack, idx = [], 0
    for ch in text[:pos]:
        if ch in "[{":
            stack.append((ch, idx)); idx = 0
        elif ch in "]}":
            _, idx = stack.pop()
        elif ch == ",":
            idx += 1
    return ".".join((f"[{i}]" if c == "[" else str(i)) for c, i in stack[1:] + [("{", idx)]) if stack else ""


class Session:
    """accumulates commands for one driver process and the expectations to compare afterwards"""
    def __init__(self, version):
        self.cmds = [f"table {version}"]
        self.checks = [("prefix", "ok", None)]

    def add(self, cmd, kind="any", expect=None, meta=None):
        self.cmds.append(cmd); self.checks.append((kind, expect, meta))
        return len(self.cmds) - 1


def load_sections_only(path, version):
    """The library's own parse (FileHeader + inflated sections) WITHOUT building the managers: randomly generated field
    values need not be meaningful to the managers. Returns the scenario object (sections filled)."""
    from AoE2ScenarioParser.scenarios.aoe2_de_scenario import AoE2DEScenario
    from AoE2ScenarioParser.scenarios.aoe2_scenario import _initialise_version_dependencies
    from AoE2ScenarioParser.helper.incremental_generator import IncrementalGenerator
    ig = IncrementalGenerator.from_file(path)
    scn = AoE2DEScenario("DE", version, source_location=path, name=os.path.basename(path), variant=None)
    scn._load_structure()
    _initialise_version_dependencies("DE", version)
    scn._load_header_section(ig)
    scn._load_content_sections(ig)
    return scn


def merge_results(R, per_version, what):
    """fold per-version worker results (dicts produced by Result.to_json()) into the parent Result"""
    for v, res in sorted(per_version.items()):
        if "worker_error" in res:
            raise RuntimeError(f"{what}: worker for version {v} failed: {res['worker_error']}")
        cov = res["coverage"]
        R.evaluations += cov["evaluations"]
        for k in cov.get("nontrivial_keys", []):
            R.nontrivial.add(f"{v}:{k}")
        R.traces += cov.get("traces_validated_against_impl", 0)
        for k, n in cov.get("distribution", {}).items():
            R.dist[k] += n
        for s in cov.get("samples", [])[:1]:
            if len(R.samples) < 8:
                R.samples.append({"version": v, **s} if isinstance(s, dict) else {"version": v, "case": s})
        for x in res.get("violations", []):
            x["signature"] = {"version": v, **x.get("signature", {})}
            R.violations.append(x)
        for x in res.get("mismatches", []):
            x["version"] = v
            R.mismatches.append(x)
        R.generated_obligations += res.get("generated_obligations", 0)


def parse_canon(text):
    """canonical value text -> nested Python lists (structs and lists both become lists; leaves stay strings)"""
    pos = 0

    def val():
        nonlocal pos
        ch = text[pos]
        if ch in "[{":
            close = "]" if ch == "[" else "}"
            pos += 1
            items = []
            while text[pos] != close:
                if text[pos] == ",":
                    pos += 1
                    continue
                items.append(val())
            pos += 1
            return (ch, items)
        start = pos
        while pos < len(text) and text[pos] not in ",]}":
            pos += 1
        return text[start:pos]
    return val()


def diff_canon(a, b, path=()):
    """paths (tuples of indices) at which two parsed canonical trees differ (a length change of a list is reported at the list)"""
    if isinstance(a, tuple) and isinstance(b, tuple):
        if a[0] != b[0] or len(a[1]) != len(b[1]):
            return [path]
        out = []
        for i, (x, y) in enumerate(zip(a[1], b[1])):
            out += diff_canon(x, y, path + (i,))
        return out
    return [] if a == b else [path]
