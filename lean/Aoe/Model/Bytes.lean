/-!
# M1 – bytes and leaf codecs

Transcribes `AoE2ScenarioParser/helper/bytes_conversions.py` (`int_to_bytes`, `bytes_to_int`, `str_to_bytes`,
`bytes_to_str`, `fixed_chars_to_bytes`, `bytes_to_fixed_chars`, `_combine_int_str`, `parse_val_to_bytes`,
`parse_bytes_to_val`), `helper/string_manipulations.py` (`add_str_trail`, `has_str_trail`, `del_str_trail`) and
`helper/incremental_generator.py` (`get_bytes`).

Model boundaries (CPython behaviour that is modelled, not verified – validated by the correspondence):
* `int.to_bytes(n, 'little', signed)` / `int.from_bytes` = little-endian base-256 digits, two's complement.
* A Python `str` is carried as its UTF-8 encoding (`Bytes`); `bytes.decode('utf-8')` succeeds iff
  `ByteArray.validateUTF8`, and `str.encode('utf-8')` of a decoded string returns the same bytes; the fallback
  `decode('latin-1')` maps byte `b` to code point `b` (never fails).
* `struct.pack/unpack('f'|'d')` are the identity on the 4/8 raw bytes (`Val.flt` carries the raw bytes).
-/
namespace Aoe

abbrev Bytes := List UInt8

inductive Err
  | eof        -- EndOfFileError
  | overflow   -- OverflowError (int.to_bytes / string length prefix)
  | value      -- ValueError
  | type       -- TypeError
  | attr       -- AttributeError
  | shape      -- model-level: value of the wrong shape for the table (Python: AttributeError/TypeError)
  deriving DecidableEq, Repr

namespace Bytes

/-- little-endian base-256 digits of `v`, exactly `n` of them (higher digits are dropped) -/
def encNat : Nat → Nat → Bytes
  | 0, _ => []
  | n + 1, v => UInt8.ofNat (v % 256) :: encNat n (v / 256)

/-- value of little-endian base-256 digits -/
def decNat : Bytes → Nat
  | [] => 0
  | b :: bs => b.toNat + 256 * decNat bs

@[simp] theorem encNat_length (n v : Nat) : (encNat n v).length = n := by
  induction n generalizing v with
  | zero => rfl
  | succ n ih => simp [encNat, ih]

theorem decNat_lt (bs : Bytes) : decNat bs < 256 ^ bs.length := by
  induction bs with
  | nil => simp [decNat]
  | cons b bs ih =>
    have hb : b.toNat < 256 := b.toNat_lt
    simp only [decNat, List.length_cons, Nat.pow_succ]
    omega

theorem decNat_encNat (n v : Nat) (h : v < 256 ^ n) : decNat (encNat n v) = v := by
  induction n generalizing v with
  | zero => simp [Nat.pow_zero] at h; simp [encNat, decNat, h]
  | succ n ih =>
    have h' : v / 256 < 256 ^ n := by
      rw [Nat.pow_succ] at h
      exact Nat.div_lt_of_lt_mul (by rw [Nat.mul_comm]; exact h)
    have hm : v % 256 < 256 := Nat.mod_lt _ (by decide)
    simp only [encNat, decNat, ih _ h']
    rw [UInt8.toNat_ofNat_of_lt' (by simpa using hm)]
    omega

theorem encNat_decNat (bs : Bytes) : encNat bs.length (decNat bs) = bs := by
  induction bs with
  | nil => rfl
  | cons b bs ih =>
    have hb : b.toNat < 256 := b.toNat_lt
    simp only [List.length_cons, encNat, decNat]
    have h1 : (b.toNat + 256 * decNat bs) % 256 = b.toNat := by omega
    have h2 : (b.toNat + 256 * decNat bs) / 256 = decNat bs := by omega
    rw [h1, h2, ih]
    simp

/-- `int.to_bytes(n, 'little', signed=False)` -/
def encUInt (n : Nat) (v : Int) : Except Err Bytes :=
  if 0 ≤ v ∧ v < (256 ^ n : Nat) then .ok (encNat n v.toNat) else .error .overflow

/-- `int.to_bytes(n, 'little', signed=True)`; range `[-256^n/2, 256^n/2)` -/
def encSInt (n : Nat) (v : Int) : Except Err Bytes :=
  if -((256 ^ n / 2 : Nat) : Int) ≤ v ∧ v < ((256 ^ n / 2 : Nat) : Int) then
    .ok (encNat n (v % ((256 ^ n : Nat) : Int)).toNat)
  else .error .overflow

/-- `int.from_bytes(bs, 'little', signed=False)` -/
def decUInt (bs : Bytes) : Int := (decNat bs : Int)

/-- `int.from_bytes(bs, 'little', signed=True)` -/
def decSInt (bs : Bytes) : Int :=
  let u := decNat bs
  if u < 256 ^ bs.length / 2 then (u : Int) else (u : Int) - ((256 ^ bs.length : Nat) : Int)


theorem decUInt_encUInt (n : Nat) (v : Int) (b : Bytes) (h : encUInt n v = .ok b) :
    decUInt b = v ∧ b.length = n := by
  unfold encUInt at h
  split at h
  · rename_i hr
    cases h
    have h1 : v.toNat < 256 ^ n := by have := hr.2; omega
    simp only [decUInt, encNat_length, decNat_encNat _ _ h1, and_true]
    omega
  · cases h

theorem pow_even (n : Nat) : 256 ^ (n+1) / 2 * 2 = 256 ^ (n+1) := by
  rw [Nat.pow_succ]; omega

theorem decSInt_encSInt (n : Nat) (v : Int) (b : Bytes) (h : encSInt n v = .ok b) :
    decSInt b = v ∧ b.length = n := by
  unfold encSInt at h
  split at h
  · rename_i hr
    cases h
    refine ⟨?_, by simp⟩
    cases n with
    | zero => simp at hr; omega
    | succ k =>
      have hev := pow_even k
      obtain ⟨P, hP⟩ : ∃ P, P = 256 ^ (k+1) := ⟨_, rfl⟩
      rw [← hP] at hev hr
      have hPpos : 0 < P := by rw [hP]; exact Nat.pow_pos (by decide)
      by_cases hv : 0 ≤ v
      · have e : v % (P : Int) = v := Int.emod_eq_of_lt hv (by omega)
        have h1 : v.toNat < 256 ^ (k+1) := by rw [← hP]; omega
        simp only [decSInt, encNat_length, ← hP, e, decNat_encNat _ _ h1]
        have : v.toNat < P / 2 := by omega
        rw [if_pos this]; omega
      · have e : v % (P : Int) = v + P := by
          have := Int.add_mul_emod_self_left v (P : Int) 1
          rw [Int.mul_one] at this
          rw [← this]
          exact Int.emod_eq_of_lt (by omega) (by omega)
        have h1 : (v + P).toNat < 256 ^ (k+1) := by rw [← hP]; omega
        simp only [decSInt, encNat_length, ← hP, e, decNat_encNat _ _ h1]
        have : ¬ (v + (P:Int)).toNat < P / 2 := by omega
        rw [if_neg this]; omega
  · cases h

theorem encUInt_decUInt (bs : Bytes) : encUInt bs.length (decUInt bs) = .ok bs := by
  have h := decNat_lt bs
  unfold encUInt decUInt
  rw [if_pos ⟨by omega, by omega⟩]
  simp [encNat_decNat]

theorem encSInt_decSInt (bs : Bytes) (hl : 0 < bs.length) : encSInt bs.length (decSInt bs) = .ok bs := by
  have h := decNat_lt bs
  obtain ⟨k, hk⟩ : ∃ k, bs.length = k + 1 := ⟨bs.length - 1, by omega⟩
  have hev := pow_even k
  rw [← hk] at hev
  obtain ⟨P, hP⟩ : ∃ P, P = 256 ^ bs.length := ⟨_, rfl⟩
  rw [← hP] at hev h
  unfold encSInt decSInt
  simp only [← hP]
  by_cases hc : decNat bs < P / 2
  · simp only [hc, if_true]
    rw [if_pos ⟨by omega, by omega⟩]
    have e : ((decNat bs : Int)) % (P : Int) = decNat bs := Int.emod_eq_of_lt (by omega) (by omega)
    rw [e]; simp [encNat_decNat]
  · simp only [hc, if_false]
    rw [if_pos ⟨by omega, by omega⟩]
    have e : ((decNat bs : Int) - P) % (P : Int) = decNat bs := by
      have := Int.add_mul_emod_self_left ((decNat bs : Int) - P) (P : Int) 1
      rw [Int.mul_one] at this
      rw [← this]
      have : (decNat bs : Int) - P + P = decNat bs := by omega
      rw [this]
      exact Int.emod_eq_of_lt (by omega) (by omega)
    rw [e]; simp [encNat_decNat]

/-- `IncrementalGenerator.get_bytes(n)` on the remaining input: `n ≤ 0` yields `b''` -/
def take (n : Nat) (bs : Bytes) : Except Err (Bytes × Bytes) :=
  if n ≤ bs.length then .ok (List.take n bs, List.drop n bs) else .error .eof

theorem take_append (b rest : Bytes) : take b.length (b ++ rest) = .ok (b, rest) := by
  simp [take]

/-- `has_str_trail` -/
def endsNul : Bytes → Bool
  | [] => false
  | [b] => b == 0
  | _ :: bs => endsNul bs

/-- `del_str_trail` (drop the last byte) -/
def dropLast : Bytes → Bytes
  | [] => []
  | [_] => []
  | b :: bs => b :: dropLast bs

/-- strip ONE trailing NUL if there is one -/
def stripNul (bs : Bytes) : Bytes := if endsNul bs then dropLast bs else bs

/-- `add_str_trail` -/
def addNul (bs : Bytes) : Bytes := if endsNul bs then bs else bs ++ [0]

theorem endsNul_append_nul (bs : Bytes) : endsNul (bs ++ [0]) = true := by
  induction bs with
  | nil => rfl
  | cons b bs ih =>
    cases bs with
    | nil => rfl
    | cons c cs => simpa [endsNul] using ih

theorem dropLast_append_single (bs : Bytes) (x : UInt8) : dropLast (bs ++ [x]) = bs := by
  induction bs with
  | nil => rfl
  | cons b bs ih =>
    cases bs with
    | nil => rfl
    | cons c cs => simp only [List.cons_append, dropLast] at *; rw [ih]

theorem stripNul_addNul (bs : Bytes) (h : endsNul bs = false) : stripNul (addNul bs) = bs := by
  simp [addNul, h, stripNul, endsNul_append_nul, dropLast_append_single]

theorem stripNul_of_not (bs : Bytes) (h : endsNul bs = false) : stripNul bs = bs := by
  simp [stripNul, h]

/-- Does `bytes.decode('utf-8')` succeed? -/
def validUtf8 (bs : Bytes) : Bool := (ByteArray.mk bs.toArray).validateUTF8

/-- UTF-8 encoding of the latin-1 decoding of `bs` (byte `b` ↦ code point `b`) -/
def latin1ToUtf8 : Bytes → Bytes
  | [] => []
  | b :: bs => (if b < 128 then [b] else [(0xC0 : UInt8) ||| (b >>> 6), (0x80 : UInt8) ||| (b &&& 0x3F)]) ++ latin1ToUtf8 bs

/-- `bytes_to_str` on a payload: strip one NUL, decode UTF-8, fall back to latin-1; result as UTF-8 of the str -/
def decodeStr (payload : Bytes) : Bytes :=
  let p := stripNul payload
  if validUtf8 p then p else latin1ToUtf8 p

/-- number of code points of a valid UTF-8 byte string = bytes that are not continuation bytes -/
def charCount (bs : Bytes) : Nat := (bs.filter (fun b => (b &&& 0xC0) != 0x80)).length

/-- bytes up to (excluding) the first NUL -/
def cutNul : Bytes → Bytes
  | [] => []
  | b :: bs => if b == 0 then [] else b :: cutNul bs

def noNul (bs : Bytes) : Bool := bs.all (fun b => b != 0)

theorem cutNul_append_zeros (s : Bytes) (k : Nat) (h : noNul s = true) :
    cutNul (s ++ List.replicate k 0) = s := by
  induction s with
  | nil => cases k <;> simp [cutNul, List.replicate]
  | cons b bs ih =>
    simp only [noNul, List.all_cons, Bool.and_eq_true] at h
    have hb : (b == 0) = false := by simpa using h.1
    simp only [List.cons_append, cutNul, hb]
    rw [ih (by simpa [noNul] using h.2)]
    simp

theorem endsNul_false_of_noNul (s : Bytes) (h : noNul s = true) : endsNul s = false := by
  induction s with
  | nil => rfl
  | cons b bs ih =>
    simp only [noNul, List.all_cons, Bool.and_eq_true] at h
    cases bs with
    | nil => simpa [endsNul] using h.1
    | cons c cs => simp only [endsNul]; exact ih (by simpa [noNul] using h.2)

end Bytes
end Aoe
