/-!
# M12: rendering (C19) – the lookup-with-fallback skeleton of the inspection functions

Transcribes, as they are on the pinned tree (every Python step that can raise is an `Except` step, every
`try/except` catches exactly the listed constructors):

* `objects/support/attr_presentation.py`: `get_presentation_value`, `transform_attr_value`,
  `transform_value_by_representation` (dispatch over `_datasets`, `_combined_info_datasets`,
  `_other_info_datasets`, `_store_references`, `_other`, the `else: raise ValueError`, and the
  `except (KeyError, ValueError)`), `_format_trigger_id_representation`, `_format_variable_id_representation`,
  `_format_unit_reference_representation`;
* `scenarios/scenario_store/getters.py`: `get_trigger` (Python negative indexing included), `get_variable_name`
  (with `TriggerManagerDE.get_variable`), `get_units`;
* `objects/support/trigger_object.py` `_should_be_displayed` with the `Effect` / `Condition` overrides;
* `Effect.get_content_as_string`, `Condition.get_content_as_string` (`__str__` = with definition), including the
  `getattr` of the `Effect.quantity` property (for an armour/attack effect it evaluates `_merge_aa_values`, which
  reads the trigger version through the store and multiplies/adds the stored class and amount),
  `Trigger.get_content_as_string`, `TriggerManager.get_content_as_string` / `get_trigger_as_string` /
  `_validate_and_retrieve_trigger_info` (int argument) / `get_summary_as_string` (the DE subclass only appends
  the variable listing, which is plain f-string formatting).

What is **not** modelled (covered by the correspondence run only): the text itself (f-strings, `add_tabs`,
`pretty_format_name`, `trunc_string`, padding), the members of the dataset enums and their
`attribute_presentation()` (membership is the abstract parameter `Env.member`), `format_unit`.
The output of a render is therefore a small structured value (which attributes are shown and through which
fallback, the `(name, index, display)` triples), not a string.

`Fix` switches the four places where the pinned code raises to the behaviour of the proposed patches
(`fixes/F11a…`, `F11b…`, `F11c…`, `F11d…`); `Fix.asIs` is the pinned tree.
-/
namespace Aoe.Render

/-- exception classes that occur on the modelled paths -/
inductive Err | keyError | attributeError | indexError | typeError | valueError
  deriving DecidableEq, Repr

/-- attribute values: Python `int`, `list` (of ints), `str`, `None` -/
inductive Val
  | int (v : Int)
  | list (l : List Int)
  | str (s : String)
  | none
  deriving DecidableEq, Repr

def assoc {κ β : Type} [BEq κ] : List (κ × β) → κ → Option β
  | [], _ => none
  | (k, v) :: rest, x => if k == x then some v else assoc rest x

/-- the branches of `transform_value_by_representation` (plus `raw` for the representation `""`) -/
inductive Rep
  | raw            -- `""`: the value is printed as it is
  | dataset        -- `_datasets[r](value).attribute_presentation()`
  | combined       -- `_combined_info_datasets`: `get_enum_from_unit_const(value)`
  | otherInfo      -- `_other_info_datasets[r].from_id(value).name` (TechInfo)
  | triggerId | unitRef | variableId        -- `_store_references`
  | bool | playerId | playerColorId | str   -- `_other`
  | unhandled      -- in none of the dicts: `raise ValueError`
  deriving DecidableEq, Repr

/-- how a shown value was rendered -/
inductive Piece
  | raw | found | unknown
  | trigName (s : String) | invalidTrigger
  | varName (s : String) | varDefault (i : Int) | invalidVariable
  | units (found invalid : Nat) | invalidUnits
  | boolean | player | color | quoted
  deriving DecidableEq, Repr

/-- one dataset module (`datasets/effects.py` or `datasets/conditions.py`) after `_initialise_version_dependencies`,
together with the dispatch dictionaries of `attr_presentation.py`; attribute and representation names are interned -/
structure Table where
  isEffect : Bool
  attrs : List (Int × List Nat)          -- `attributes`
  names : List Int                        -- keys of `effect_names` / `condition_names`
  pres : List (Int × List (Nat × Nat))   -- `attribute_presentation` (key −1 = defaults), values = representation ids
  empty : List Nat                        -- keys of `empty_attributes`
  classAttrs : List Nat                   -- attribute names an `Effect` / `Condition` instance has (`getattr` works)
  hidden : Nat                            -- `hidden_attribute`
  qtyAttr : Nat                           -- `quantity`
  aaQ : Nat                               -- `armour_attack_quantity` (effects)
  aaC : Nat                               -- `armour_attack_class` (effects)
  difficulty : Option Int                 -- `ConditionId.DIFFICULTY_LEVEL` (conditions)
  dispatch : List (Nat × Rep)             -- representation id ↦ branch, in dispatch priority order
  deriving Repr

/-- `Effect._armour_attack_source` (`None`, `'quantity'`, `'variable'`) -/
inductive AASrc | none | quantity | variable
  deriving DecidableEq, Repr

/-- an `Effect` or a `Condition` -/
structure Obj where
  type : Int
  aaSrc : AASrc                           -- effects only; conditions carry `.none`
  attrs : List (Nat × Val)
  deriving DecidableEq, Repr

/-- an instance as the library builds it: every attribute of the class is present; the ones not given hold −1 -/
def mkObj (classAttrs : List Nat) (ty : Int) (src : AASrc) (given : List (Nat × Val)) : Obj :=
  let base := (classAttrs.filter fun a => (assoc given a).isNone).map fun a => (a, Val.int (-1))
  { type := ty, aaSrc := src, attrs := given.reverse ++ base }

/-- `Effect._armour_attack_flag` -/
def Obj.aaFlag (o : Obj) : Bool := o.aaSrc != .none

/-- what the store getters see -/
structure Env where
  live : Bool                             -- `store.get_scenario(uuid)` yields a scenario (detached objects: no)
  trigNames : List String                 -- names of `scenario.trigger_manager.triggers`
  vars : List (Int × String)              -- `(variable_id, name)` of `trigger_manager.variables`
  units : List Int                        -- reference ids of all placed units
  member : Nat → Int → Bool               -- dataset membership per representation id (abstract)

/-- the behaviour switches of the proposed repairs -/
structure Fix where
  trig : Bool          -- F11a: dangling trigger reference falls back to `<<INVALID TRIGGER>>`
  condName : Bool      -- F11b: unknown condition type falls back to `Unknown`
  presDefault : Bool   -- F11c: the row `-1` of the presentation table (defaults) is not taken for a type
  aaSkip : Bool        -- F11d: the merged `quantity` of an armour/attack effect is skipped before it is read
  deriving DecidableEq, Repr

def Fix.asIs : Fix := ⟨false, false, false, false⟩
def Fix.fixed : Fix := ⟨true, true, true, true⟩

/-- `lst[i]` with Python's negative indexing -/
def pyIndex {α : Type} (l : List α) (i : Int) : Except Err α :=
  let n : Int := l.length
  let j : Int := if i < 0 then n + i else i
  if j < 0 then .error .indexError
  else match l[j.toNat]? with
    | some x => .ok x
    | Option.none => .error .indexError

/-- `getters.get_trigger(uuid, id).name`; `none` = the getter returned `None` -/
def getTrigger (fx : Fix) (env : Env) (v : Val) : Except Err (Option String) :=
  if !env.live then .ok Option.none                       -- `if scenario and …` short-circuits
  else match v with
    | .int i =>
      let n : Int := env.trigNames.length
      if fx.trig then
        if 0 ≤ i ∧ i < n then (pyIndex env.trigNames i).map some else .ok Option.none
      else
        if i < n then (pyIndex env.trigNames i).map some else .ok Option.none
    | _ => .error .typeError                              -- `trigger_index < len(...)`

/-- `_format_trigger_id_representation` -/
def formatTrigger (fx : Fix) (env : Env) (v : Val) : Except Err Piece :=
  match getTrigger fx env v with
  | .error e => .error e
  | .ok (some name) => .ok (.trigName name)
  | .ok Option.none => if fx.trig then .ok .invalidTrigger else .error .attributeError   -- `None.name`

/-- `_format_variable_id_representation` over `getters.get_variable_name` and `get_variable` -/
def formatVariable (env : Env) (v : Val) : Except Err Piece :=
  if !env.live then .ok .invalidVariable
  else match v with
    | .none => .error .valueError                        -- `mutually_exclusive(False, False)` in `get_variable`
    | .int i =>
      match assoc env.vars i with
      | some name => .ok (.varName name)
      | Option.none => if 0 ≤ i ∧ i ≤ 255 then .ok (.varDefault i) else .ok .invalidVariable
    | _ => .error .typeError                              -- no variable id equals a list/str; then `0 <= v`

/-- `_format_unit_reference_representation` (total) -/
def formatUnits (env : Env) (v : Val) : Piece :=
  if !env.live then .invalidUnits
  else match v with
    | .int i => .units (env.units.count i) (if env.units.contains i then 0 else 1)
    | .list l => .units ((l.map fun i => env.units.count i).sum) ((l.filter fun i => !env.units.contains i).length)
    | _ => .units 0 1

/-- the body of the `try:` of `transform_value_by_representation` -/
def transformCore (fx : Fix) (env : Env) (rid : Nat) (r : Rep) (v : Val) : Except Err Piece :=
  match r with
  | .raw => .error .valueError          -- `""` is intercepted by the caller; inside the dispatch it is unknown
  | .dataset =>
    match v with
    | .int i => if env.member rid i then .ok .found else .error .valueError
    | _ => .error .valueError
  | .combined =>
    match v with
    | .int i => if env.member rid i then .ok .found else .ok .unknown    -- inner except → `None` → `unknown`
    | _ => .error .typeError                                             -- `_from_id`: "expected int"
  | .otherInfo =>
    match v with
    | .int i => if i < 0 then .error .valueError else if env.member rid i then .ok .found else .error .keyError
    | _ => .error .typeError                                             -- `tech_id < 0`
  | .triggerId => formatTrigger fx env v
  | .unitRef => .ok (formatUnits env v)
  | .variableId => formatVariable env v
  | .bool => .ok .boolean
  | .playerId =>
    match v with
    | .int i => if env.member rid i then .ok .player else .error .valueError
    | _ => .error .valueError
  | .playerColorId =>
    match v with
    | .int i => if env.member rid (i + 1) then .ok .color else .error .valueError
    | _ => .error .typeError                                             -- `p + 1`
  | .str => .ok .quoted
  | .unhandled => .error .valueError

/-- `except (KeyError, ValueError): … = unknown` -/
def catchKV (x : Except Err Piece) : Except Err Piece :=
  match x with
  | .error .keyError => .ok .unknown
  | .error .valueError => .ok .unknown
  | x => x

def classify (T : Table) (rid : Nat) : Rep :=
  match assoc T.dispatch rid with
  | some r => r
  | Option.none => .unhandled

/-- `get_presentation_value`: `none` = the Python `None` (type not in the presentation table) -/
def getPresentation (fx : Fix) (T : Table) (ty : Int) (a : Nat) : Except Err (Option Nat) :=
  if fx.presDefault && ty == -1 then .ok Option.none else
  match assoc T.pres ty with
  | Option.none => .ok Option.none
  | some m =>
    match assoc m a with
    | some r => .ok (some r)
    | Option.none =>
      match assoc T.pres (-1) with
      | Option.none => .error .keyError                   -- `source[-1]`
      | some d =>
        match assoc d a with
        | some r => .ok (some r)
        | Option.none => .error .keyError                 -- `source[-1][key]`

/-- `transform_attr_value` -/
def transformAttr (fx : Fix) (T : Table) (env : Env) (ty : Int) (a : Nat) (v : Val) : Except Err Piece :=
  match getPresentation fx T ty a with
  | .error e => .error e
  | .ok Option.none => catchKV (.error .valueError)       -- representation `None`: `raise ValueError` → Unknown
  | .ok (some rid) =>
    match classify T rid with
    | .raw => .ok .raw
    | r => catchKV (transformCore fx env rid r v)

/-- `val in [[], [-1], [''], "", " ", -1]` -/
def hiddenVal : Val → Bool
  | .int v => v == -1
  | .list l => l == [] || l == [-1]
  | .str s => s == "" || s == " "
  | .none => false

/-- `_should_be_displayed` of `Effect` / `Condition` -/
def shouldDisplay (T : Table) (o : Obj) (a : Nat) (v : Val) : Bool :=
  let base := !(hiddenVal v) && a != T.hidden
  if T.isEffect then
    if o.aaFlag && a == T.qtyAttr then false
    else if !o.aaFlag && (a == T.aaQ || a == T.aaC) then false
    else base
  else
    if T.difficulty == some o.type && a == T.qtyAttr && v == .int (-1) then true else base

/-- `aa_class * 65536 + aa_quantity` on Python values: which operand kinds do not raise `TypeError` -/
def mergeOk : Val → Val → Bool
  | .int _, .int _ => true
  | .list _, .list _ => true
  | .str _, .str _ => true
  | _, _ => false

/-- `getattr(self, attribute)`. `Effect.quantity` is a property: for an effect whose armour/attack source is
`'quantity'` it evaluates `_merge_aa_values(armour_attack_class, armour_attack_quantity)`, which reads the trigger
version through the store (`None >= 2.5` for a detached effect) and multiplies/adds the two stored values. -/
def getattr (T : Table) (env : Env) (o : Obj) (a : Nat) : Except Err Val :=
  match assoc o.attrs a with
  | Option.none => .error .attributeError
  | some v =>
    if T.isEffect && a == T.qtyAttr && o.aaSrc == .quantity then
      if !env.live then .error .typeError
      else match assoc o.attrs T.aaC, assoc o.attrs T.aaQ with
        | some c, some q => if mergeOk c q then .ok v else .error .typeError
        | _, _ => .error .attributeError
    else .ok v

/-- the attribute loop of `get_content_as_string` -/
def renderAttrs (fx : Fix) (T : Table) (env : Env) (o : Obj) : List Nat → Except Err (List (Nat × Piece))
  | [] => .ok []
  | a :: rest =>
    if fx.aaSkip && T.isEffect && o.aaFlag && a == T.qtyAttr then renderAttrs fx T env o rest else
    match getattr T env o a with
    | .error e => .error e
    | .ok v =>
      if !shouldDisplay T o a v then renderAttrs fx T env o rest
      else
        match transformAttr fx T env o.type a v with
        | .error e => .error e
        | .ok p =>
          match renderAttrs fx T env o rest with
          | .error e => .error e
          | .ok ps => .ok ((a, p) :: ps)

inductive Header | absent | known | unknown
  deriving DecidableEq, Repr

structure ObjOut where
  header : Header
  lines : List (Nat × Piece)        -- empty = `<< No Attributes >>`
  deriving DecidableEq, Repr

def attrList (T : Table) (ty : Int) : List Nat :=
  match assoc T.attrs ty with
  | some l => l
  | Option.none => T.empty

/-- `Effect.get_content_as_string` / `Condition.get_content_as_string` (`withDef` = include definition, as `__str__`) -/
def renderObj (fx : Fix) (T : Table) (env : Env) (o : Obj) (withDef : Bool) : Except Err ObjOut :=
  match renderAttrs fx T env o (attrList T o.type) with
  | .error e => .error e
  | .ok lines =>
    if lines.isEmpty then .ok ⟨.absent, []⟩
    else if withDef then
      if T.names.contains o.type then .ok ⟨.known, lines⟩
      else if T.isEffect then .ok ⟨.unknown, lines⟩          -- `except KeyError: effect_name = "Unknown"`
      else if fx.condName then .ok ⟨.unknown, lines⟩
      else .error .keyError                                    -- `conditions.condition_names[self.condition_type]`
    else .ok ⟨.absent, lines⟩

structure Trig where
  name : String
  conds : List Obj
  effs : List Obj
  condOrder : List Int
  effOrder : List Int
  deriving DecidableEq, Repr

structure CELine where
  known : Bool
  index : Int
  display : Nat
  body : ObjOut
  deriving DecidableEq, Repr

/-- `for display, id in enumerate(order): obj = objs[id]; … obj.get_content_as_string()` -/
def renderCE (fx : Fix) (T : Table) (env : Env) (objs : List Obj) : List Int → Nat → Except Err (List CELine)
  | [], _ => .ok []
  | i :: rest, d =>
    match pyIndex objs i with
    | .error e => .error e
    | .ok o =>
      match renderObj fx T env o false with
      | .error e => .error e
      | .ok body =>
        match renderCE fx T env objs rest (d + 1) with
        | .error e => .error e
        | .ok ls => .ok (⟨T.names.contains o.type, i, d, body⟩ :: ls)

structure TrigOut where
  conds : List CELine
  effs : List CELine
  deriving DecidableEq, Repr

/-- `Trigger.get_content_as_string` (the meta-data lines are plain formatting) -/
def renderTrigger (fx : Fix) (Te Tc : Table) (env : Env) (t : Trig) : Except Err TrigOut :=
  match renderCE fx Tc env t.conds t.condOrder 0 with
  | .error e => .error e
  | .ok cs =>
    match renderCE fx Te env t.effs t.effOrder 0 with
    | .error e => .error e
    | .ok es => .ok ⟨cs, es⟩

structure Mgr where
  trigs : List Trig
  order : List Int                  -- `trigger_display_order`
  vars : List (Int × String)
  deriving DecidableEq, Repr

/-- the scenario around a manager: is it registered in the store, which units exist, dataset membership -/
structure World where
  live : Bool
  units : List Int
  member : Nat → Int → Bool

def envOf (w : World) (m : Mgr) : Env :=
  { live := w.live, trigNames := m.trigs.map (·.name), vars := m.vars, units := w.units, member := w.member }

/-- `list.index(x)` -/
def indexOf? : List Int → Int → Option Nat
  | [], _ => Option.none
  | y :: rest, x => if y == x then some 0 else (indexOf? rest x).map (· + 1)

/-- `_validate_and_retrieve_trigger_info(int)` -/
def validateIdx (m : Mgr) (i : Int) : Except Err (Nat × Trig) :=
  match pyIndex m.trigs i with
  | .ok t =>
    match indexOf? m.order i with
    | some d => .ok (d, t)
    | Option.none => .error .valueError                   -- `.index(trigger_index)`
  | .error _ =>
    -- `except IndexError: if trigger_index: raise ValueError`; for index 0 the function returns `trigger = None`
    if i ≠ 0 then .error .valueError else .error .attributeError

abbrev Triple := String × Int × Nat

/-- `TriggerManager.get_content_as_string`: per entry of the display order the header triple and the content -/
def managerContentGo (fx : Fix) (Te Tc : Table) (env : Env) (m : Mgr) : List Int → Except Err (List (Triple × TrigOut))
  | [] => .ok []
  | i :: rest =>
    match validateIdx m i with
    | .error e => .error e
    | .ok (d, t) =>
      match renderTrigger fx Te Tc env t with
      | .error e => .error e
      | .ok body =>
        match managerContentGo fx Te Tc env m rest with
        | .error e => .error e
        | .ok ls => .ok (((t.name, i, d), body) :: ls)

def managerContent (fx : Fix) (Te Tc : Table) (w : World) (m : Mgr) : Except Err (List (Triple × TrigOut)) :=
  managerContentGo fx Te Tc (envOf w m) m m.order

/-- `TriggerManager.get_summary_as_string`: `(name, index, display)` and the two counts per line -/
def managerSummaryGo (m : Mgr) : List Int → Nat → Except Err (List (Triple × Nat × Nat))
  | [], _ => .ok []
  | i :: rest, d =>
    match pyIndex m.trigs i with
    | .error e => .error e
    | .ok t =>
      match managerSummaryGo m rest (d + 1) with
      | .error e => .error e
      | .ok ls => .ok (((t.name, i, d), t.conds.length, t.effs.length) :: ls)

def managerSummary (m : Mgr) : Except Err (List (Triple × Nat × Nat)) := managerSummaryGo m m.order 0

def summaryTriples (m : Mgr) : Except Err (List Triple) := (managerSummary m).map (·.map (·.1))

def contentTriples (fx : Fix) (Te Tc : Table) (w : World) (m : Mgr) : Except Err (List Triple) :=
  (managerContent fx Te Tc w m).map (·.map (·.1))

/-! ### decidable well-formedness of a generated table -/

def allB {α : Type} (l : List α) (p : α → Bool) : Bool := l.all p

/-- every attribute the rendering loop can `getattr` exists on the class -/
def attrsExist (T : Table) : Bool :=
  allB T.attrs (fun e => allB e.2 T.classAttrs.contains) && allB T.empty T.classAttrs.contains

/-- for every known type every listed attribute has a presentation (own or default): `source[-1][key]` cannot fail -/
def presCovered (T : Table) : Bool :=
  allB T.attrs fun e => allB e.2 fun a =>
    match getPresentation Fix.asIs T e.1 a with
    | .ok _ => true
    | .error _ => false

/-- the default row exists -/
def hasDefaults (T : Table) : Bool := (assoc T.pres (-1)).isSome

/-- every representation named anywhere in the table is handled by a dispatch branch -/
def repsHandled (T : Table) : Bool :=
  allB T.pres fun e => allB e.2 fun ar => classify T ar.2 != .unhandled

/-- the name table and the attribute table have the same keys (a listed type always has a name), and the
presentation table has exactly these keys plus the row `-1` -/
def namesMatch (T : Table) : Bool :=
  allB T.attrs (fun e => T.names.contains e.1) && allB T.names (fun k => (assoc T.attrs k).isSome) &&
  allB T.pres (fun e => e.1 == -1 || (assoc T.attrs e.1).isSome)

/-- every `empty_attributes` key has a default presentation (needed on the pinned tree for type −1) -/
def emptyCovered (T : Table) : Bool :=
  match assoc T.pres (-1) with
  | Option.none => false
  | some d => allB T.empty fun a => (assoc d a).isSome

def tableOK (T : Table) : Bool :=
  attrsExist T && presCovered T && hasDefaults T && repsHandled T && namesMatch T

end Aoe.Render
