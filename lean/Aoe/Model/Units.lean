/-!
# M7 – unit bookkeeping (model of the pinned Python, core Lean only)

Transcribes, from `AoE2ScenarioParser/objects/managers/unit_manager.py`:
`UnitManager.__init__` (per-owner lists, `create_id_generator(next_unit_id)`), `add_unit`, `clone_unit`,
`remove_unit`, `change_ownership`, `get_new_reference_id`, the `next_unit_id` property (read by
`AoE2Object.commit` through the link `next_unit_id -> DataHeader.next_unit_id_to_place`: the read *is* a
`next()` on the generator, so a save consumes one id), `create_id_generator`;
from `objects/data_objects/unit.py`: `Unit.__init__` (attribute list), the `player` setter;
from `scenarios/scenario_store/actions.py`: `unit_change_ownership` / `transfer_unit`.

Python lists hold *references*; a `Unit` object a caller still holds after it was removed ("stale handle") can be
passed to every operation again.  The model therefore is a small heap: `heap[i]` is the i-th `Unit` object ever
created (objects are never destroyed, `i` is the object identity) and the nine owner lists hold identities.

Players are `Fin 9` (GAIA = 0 … EIGHT = 8): the property quantifies over the nine owners; other integers are not
modelled (`PlayerId(p)` raises for them in `Unit.__init__`).

`Cfg` selects between the semantics of the pinned code (`Cfg.asIs`) and the repaired one (`Cfg.fixed`):
* `notNone = false`: `clone_unit` forwards `arg or unit.attr` (Python truthiness: `0`, `0.0`, `-0.0`,
  `PlayerId.GAIA` count as "not supplied") – defect F7;  `true`: `arg if arg is not None else unit.attr`.
* `caption = false`: `clone_unit` does not forward `caption_string_id`, the clone gets `add_unit`'s default `-1`
  – defect F7b;  `true`: the clone inherits it.
-/
namespace Aoe.Units

inductive Err
  | notInList      -- `list.remove(x): x not in list` (ValueError) – remove / ownership change of a stale handle
  | xyAndTile      -- `clone_unit`: x or y together with tile (ValueError)
  | badArgs        -- `remove_unit`: both or neither of `reference_id` / `unit` (ValueError)
  | noObject       -- the handle names no object (impossible in Python; the driver rejects such a command)
deriving DecidableEq, Repr

abbrev Player := Fin 9

/-- numeric attribute values (`x y z rotation`) as Python sees them: `int`, or `float`.  Floats whose double is
an integer are kept exactly (`half t` is the float `t/2`: `0.0 = half 0`, `1.5 = half 3`, a tile centre
`n + .5 = half (2n+1)`); every other float is its IEEE-754 bit pattern (this is where `-0.0` and `nan` live). -/
inductive Num
  | int (v : Int)
  | half (twice : Int)
  | flt (bits : Nat)
deriving DecidableEq, Repr

/-- Python truthiness of a number: `0`, `0.0`, `-0.0` are falsy, everything else (also `nan`) is truthy -/
def Num.truthy : Num → Bool
  | .int v => v != 0
  | .half t => t != 0
  | .flt b => b != 0 && b != 0x8000000000000000

def intTruthy (v : Int) : Bool := v != 0
/-- `PlayerId` is an `IntEnum`: `PlayerId.GAIA` (= 0) is falsy -/
def playerTruthy (p : Player) : Bool := p != 0

structure Unit where
  refId : Int
  player : Player
  x : Num
  y : Num
  z : Num
  rotation : Num
  const : Int
  status : Int
  frame : Int        -- initial_animation_frame
  garrison : Int     -- garrisoned_in_id
  caption : Int      -- caption_string_id
deriving DecidableEq, Repr

structure Cfg where
  notNone : Bool
  caption : Bool
deriving DecidableEq, Repr

def Cfg.asIs : Cfg := ⟨false, false⟩
def Cfg.fixed : Cfg := ⟨true, true⟩

structure State where
  heap : List Unit               -- every Unit object created so far (index = identity)
  lists : Player → List Nat      -- `unit_manager.units[p]`
  nextId : Int                   -- the value the generator yields next
  handed : List Int              -- ghost: ids the generator handed to add/clone/get_new_reference_id, oldest first
  fileIds : List Int             -- ghost: reference ids present in the loaded file

def upd (f : Player → List Nat) (p : Player) (l : List Nat) : Player → List Nat :=
  fun q => if q = p then l else f q

/-- `UnitManager.__init__` on a loaded file: `file` = the units in file order (owner 0's first … does not
matter: each carries its owner), `counter` = `DataHeader.next_unit_id_to_place` -/
def load (counter : Int) (file : List Unit) : State :=
  { heap := file
    lists := fun p => (List.range file.length).filter (fun i => match file[i]? with
                                                               | some u => u.player == p
                                                               | none => false)
    nextId := counter
    handed := []
    fileIds := file.map (·.refId) }

/-- `get_new_reference_id` = `next(self.reference_id_generator)` -/
def newId (s : State) : Int × State :=
  (s.nextId, { s with nextId := s.nextId + 1, handed := s.handed ++ [s.nextId] })

/-- reading the property `next_unit_id` (done once by `commit` when the scenario is written): the value that
lands in `DataHeader.next_unit_id_to_place`; it consumes an id of the generator -/
def saveCounter (s : State) : Int × State :=
  (s.nextId, { s with nextId := s.nextId + 1 })

structure AddArgs where
  player : Player
  const : Int
  x : Num
  y : Num
  z : Num
  rotation : Num
  garrison : Int
  frame : Int
  status : Int
  refId : Option Int
  caption : Int
  tile : Option (Int × Int)
deriving DecidableEq, Repr

/-- `tile[0] + .5` -/
def tileMid (n : Int) : Num := .half (2 * n + 1)

/-- the `Unit(...)` that `add_unit` builds for reference id `rid` -/
def mkUnit (a : AddArgs) (rid : Int) : Unit :=
  { refId := rid, player := a.player
    x := match a.tile with | none => a.x | some t => tileMid t.1
    y := match a.tile with | none => a.y | some t => tileMid t.2
    z := a.z, rotation := a.rotation, const := a.const, status := a.status, frame := a.frame
    garrison := a.garrison, caption := a.caption }

/-- `add_unit`: returns the new state and the identity of the created object (the returned `Unit`) -/
def addUnit (s : State) (a : AddArgs) : State × Nat :=
  let (rid, s1) := match a.refId with
    | some r => (r, s)
    | none => newId s
  let i := s1.heap.length
  ({ s1 with heap := s1.heap ++ [mkUnit a rid], lists := upd s1.lists a.player (s1.lists a.player ++ [i]) }, i)

structure CloneArgs where
  player : Option Player
  const : Option Int
  x : Option Num
  y : Option Num
  z : Option Num
  rotation : Option Num
  garrison : Option Int
  frame : Option Int
  status : Option Int
  refId : Option Int
  tile : Option (Int × Int)
deriving DecidableEq, Repr

def CloneArgs.none : CloneArgs := ⟨.none, .none, .none, .none, .none, .none, .none, .none, .none, .none, .none⟩

/-- `arg or inherited` (pinned code) / `arg if arg is not None else inherited` (repaired) -/
def pick {α : Type} (cfg : Cfg) (truthy : α → Bool) (arg : Option α) (inherited : α) : α :=
  match arg with
  | none => inherited
  | some v => if cfg.notNone || truthy v then v else inherited

/-- the keyword arguments `clone_unit` hands to `add_unit` -/
def cloneAddArgs (cfg : Cfg) (u : Unit) (c : CloneArgs) : AddArgs :=
  { player := pick cfg playerTruthy c.player u.player
    const := pick cfg intTruthy c.const u.const
    x := pick cfg Num.truthy c.x u.x
    y := pick cfg Num.truthy c.y u.y
    z := pick cfg Num.truthy c.z u.z
    rotation := pick cfg Num.truthy c.rotation u.rotation
    garrison := pick cfg intTruthy c.garrison u.garrison
    frame := pick cfg intTruthy c.frame u.frame
    status := pick cfg intTruthy c.status u.status
    refId := c.refId
    caption := if cfg.caption then u.caption else -1
    tile := c.tile }

/-- `clone_unit(unit = heap[src], …)` -/
def cloneUnit (cfg : Cfg) (s : State) (src : Nat) (c : CloneArgs) : Except Err (State × Nat) :=
  match s.heap[src]? with
  | none => .error .noObject
  | some u =>
    if (c.x.isSome || c.y.isSome) && c.tile.isSome then .error .xyAndTile
    else .ok (addUnit s (cloneAddArgs cfg u c))

/-- does the object `i` carry reference id `r` -/
def hasRef (s : State) (r : Int) (i : Nat) : Bool :=
  match s.heap[i]? with
  | some u => u.refId == r
  | none => false

/-- `remove_unit(reference_id = r)`: owners 0 … 8 in turn, first unit with that id is deleted; silently nothing
when there is none -/
def removeById (s : State) (r : Int) : State :=
  match (List.finRange 9).find? (fun p => (s.lists p).any (hasRef s r)) with
  | none => s
  | some p => { s with lists := upd s.lists p ((s.lists p).eraseP (hasRef s r)) }

/-- `remove_unit(unit = heap[i])`: `self.units[unit.player].remove(unit)` (identity comparison: `Unit` has no
`__eq__`) -/
def removeObj (s : State) (i : Nat) : Except Err State :=
  match s.heap[i]? with
  | none => .error .noObject
  | some u =>
    if i ∈ s.lists u.player then .ok { s with lists := upd s.lists u.player ((s.lists u.player).erase i) }
    else .error .notInList

def removeUnit (s : State) (rid : Option Int) (obj : Option Nat) : Except Err State :=
  match rid, obj with
  | some _, some _ => .error .badArgs
  | none, none => .error .badArgs
  | some r, none => .ok (removeById s r)
  | none, some i => removeObj s i

/-- `unit.player = p`: `transfer_unit` (remove from the list of the owner the unit reports, append to `p`'s
list), then `_player = p` -/
def setPlayer (s : State) (i : Nat) (p : Player) : Except Err State :=
  match s.heap[i]? with
  | none => .error .noObject
  | some u =>
    if i ∈ s.lists u.player then
      let l1 := upd s.lists u.player ((s.lists u.player).erase i)
      .ok { s with lists := upd l1 p (l1 p ++ [i]), heap := s.heap.set i { u with player := p } }
    else .error .notInList

/-- `change_ownership([u₁, u₂, …], p)`: one setter call after the other; an exception leaves the earlier moves
in place -/
def chownList (s : State) (is : List Nat) (p : Player) : State × Option Err :=
  match is with
  | [] => (s, none)
  | i :: rest =>
    match setPlayer s i p with
    | .error e => (s, some e)
    | .ok s' => chownList s' rest p

/-- one public operation -/
inductive Op
  | add (a : AddArgs)
  | clone (src : Nat) (c : CloneArgs)
  | remove (rid : Option Int) (obj : Option Nat)
  | setPlayer (i : Nat) (p : Player)
  | chown (is : List Nat) (p : Player)
  | newId
  | save
deriving Repr

/-- state after an operation; an operation that raises leaves the state as it was (the caller catches the
exception and goes on) – except `chown`, whose earlier moves stay -/
def step (cfg : Cfg) (s : State) : Op → State
  | .add a => (addUnit s a).1
  | .clone src c => match cloneUnit cfg s src c with | .ok r => r.1 | .error _ => s
  | .remove rid obj => match removeUnit s rid obj with | .ok s' => s' | .error _ => s
  | .setPlayer i p => match setPlayer s i p with | .ok s' => s' | .error _ => s
  | .chown is p => (chownList s is p).1
  | .newId => (newId s).2
  | .save => (saveCounter s).2

def run (cfg : Cfg) (s : State) (ops : List Op) : State := ops.foldl (step cfg) s

/-- `unit_manager.units[p]` as the attribute records of the referenced objects (what an observer sees) -/
def view (s : State) (p : Player) : List (Option Unit) := (s.lists p).map (fun i => s.heap[i]?)

end Aoe.Units
