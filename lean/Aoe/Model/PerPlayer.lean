/-!
# M-PerPlayer: per-player copies and player replacement of triggers (C08)

Transcribes, from `AoE2ScenarioParser/objects/managers/trigger_manager.py` (pinned tree):

* `TriggerManager._find_alterable_ce`                      → `alterIdx`, `alterOf`
* the two rewriting loops of `copy_trigger_per_player`      → `rwCopy`, `applyAt`, `rewriteTrig`
* the two rewriting loops of `replace_player`               → `rwReplace`
* `copy_trigger(…, append_after_source=False, add_suffix=False)` → `copyTrigger`
* `copy_trigger_per_player`                                 → `effPlayers`, `copyLoop`, `copyPerPlayer`
* `replace_player`                                          → `replacePlayer`
* `_find_trigger_tree_nodes(_recursively)`                  → `links`, `dfs`
* `copy_trigger_tree_per_player` (incl. the `GroupBy` logic)→ `copyTreePerPlayer`
* `move_triggers`, `reorder_triggers`                       → `moveTriggers`, `reorder`
* `_validate_and_retrieve_trigger_info`                     → `resolve`
* `get_activation_effects`                                  → `isAct`
together with `TriggerCELock` (`Lock`), `GroupBy`, `helper.value_is_valid` (`valid`), Python list indexing
with negative wrap-around (`pyGet`), `list.index` (`pyIndexOf`), `dict` assignment (`dictSet`) and the
`copy.deepcopy` of a trigger (`AoE2Object.__deepcopy__`: a fresh object with fresh conditions/effects).

## Representation

Aliasing matters ("the source is not modified"; with duplicate tree nodes the pinned code even puts the *same*
trigger object twice into the trigger list), so trigger objects live in a heap: `State.heap` is the list of all
trigger objects ever created (address = index, objects are never freed), `State.list` is
`TriggerManager.triggers` as a list of addresses, `State.order` is `trigger_display_order`.
Conditions and effects are values inside their trigger (a deep copy copies all of them, and the library never
shares a component between two triggers).  A component is `{kind, src, tgt, link, rest}`:
`kind` = `condition_type`/`effect_type`, `src`/`tgt` = `source_player`/`target_player` (`none` = Python `None`),
`link` = `trigger_id` of an effect (conditions carry 0, it is never read for them), `rest` = an opaque token for
*all other* attributes – no function below ever reads or writes it.

## Boundary facts (validated by the correspondence run)

* `EffectId.ACTIVATE_TRIGGER = 8`, `EffectId.DEACTIVATE_TRIGGER = 9` (checked by the harness against the enum).
* the display order is a permutation of the trigger indices; then the lazy `update_order_array` after an
  `append` amounts to appending the new index (`copyTrigger`).
* `PlayerId(player)` raises `ValueError` outside 0..8, but it is only evaluated when an assignment is reached;
  whether an assignment is reached does not depend on the player, so the check is hoisted (`castNeeded`).
* exceptions: every Python operation that can raise on the path is an `Except Err` step; the class is not compared.
-/
namespace Aoe.PerPlayer

inductive Err | index | value | key | fuel | dangling
  deriving DecidableEq, Repr

/-- a condition or an effect -/
structure Comp where
  kind : Int
  src  : Option Int
  tgt  : Option Int
  link : Int
  rest : Nat
  deriving DecidableEq, Repr

/-- a trigger object -/
structure Trig where
  name  : String
  tid   : Int
  conds : List Comp
  effs  : List Comp
  deriving DecidableEq, Repr

structure State where
  heap  : List Trig
  list  : List Nat
  order : List Int
  deriving DecidableEq, Repr

/-- `TriggerCELock`; a missing lock (`None`) is the all-default lock, exactly as `_find_alterable_ce` reads it -/
structure Lock where
  lockConds : Bool := false
  lockEffs  : Bool := false
  condTypes : List Int := []
  effTypes  : List Int := []
  condIds   : List Int := []
  effIds    : List Int := []
  deriving DecidableEq, Repr

/-- the three rewriting switches of `copy_trigger_per_player` -/
structure Flags where
  fromOnly : Bool    -- change_from_player_only
  incSrc   : Bool    -- include_player_source
  incTgt   : Bool    -- include_player_target
  deriving DecidableEq, Repr

structure Args where
  frm     : Int                  -- from_player
  flags   : Flags
  lock    : Lock
  gaia    : Bool                 -- include_gaia
  players : Option (List Int)    -- create_copy_for_players (`none` = left out)
  deriving Repr

inductive GroupBy | none | trigger | player
  deriving DecidableEq, Repr

/-- `int | TriggerSelect` -/
inductive Sel
  | index (i : Int)
  | display (d : Int)
  | object (a : Nat)
  deriving DecidableEq, Repr

/-! ### Python primitives -/

/-- position addressed by `l[i]` for a list of length `n` (negative indices wrap once) -/
def pyIdx (n : Nat) (i : Int) : Option Nat :=
  if 0 ≤ i then (if i.toNat < n then some i.toNat else none)
  else if -(n : Int) ≤ i then some (i + (n : Int)).toNat else none

/-- `l[i]` (IndexError) -/
def pyGet {α : Type} (l : List α) (i : Int) : Except Err α :=
  match pyIdx l.length i with
  | some k => match l[k]? with
    | some x => .ok x
    | none => .error .index
  | none => .error .index

/-- `l.index(x)` (ValueError) -/
def pyIndexOf (l : List Int) (x : Int) : Except Err Nat :=
  match l.findIdx? (· == x) with
  | some k => .ok k
  | none => .error .value

/-- `d[k] = v` on an insertion-ordered dict -/
def dictSet {κ β : Type} [BEq κ] : List (κ × β) → κ → β → List (κ × β)
  | [], k, v => [(k, v)]
  | (k', v') :: r, k, v => if k' == k then (k', v) :: r else (k', v') :: dictSet r k v

/-- `d[k]` (KeyError) -/
def dictGet {κ β : Type} [BEq κ] : List (κ × β) → κ → Except Err β
  | [], _ => .error .key
  | (k', v') :: r, k => if k' == k then .ok v' else dictGet r k

def heapGet (h : List Trig) (a : Nat) : Except Err Trig :=
  match h[a]? with
  | some t => .ok t
  | none => .error .dangling

/-- `helper.value_is_valid`: neither `None` nor `-1` -/
def valid (v : Option Int) : Bool := v != none && v != some (-1)

/-- `PlayerId(p)` succeeds -/
def validPid (p : Int) : Bool := decide (0 ≤ p) && decide (p ≤ 8)

/-- `effect_type in [ACTIVATE_TRIGGER, DEACTIVATE_TRIGGER]` -/
def isAct (k : Int) : Bool := k == 8 || k == 9

/-! ### `_find_alterable_ce` -/

/-- indices `i` of `cs` with `i not in ids and cs[i].kind not in types`, nothing when everything is locked -/
def alterIdx (lockAll : Bool) (ids types : List Int) (cs : List Comp) : List Nat :=
  if lockAll then []
  else (cs.zipIdx.filter (fun ci => !ids.contains (ci.2 : Int) && !types.contains ci.1.kind)).map (·.2)

def alterOf (lk : Lock) (t : Trig) : List Nat × List Nat :=
  (alterIdx lk.lockConds lk.condIds lk.condTypes t.conds, alterIdx lk.lockEffs lk.effIds lk.effTypes t.effs)

/-! ### the rewriting loops -/

/-- body of the loops of `copy_trigger_per_player` for one component of the copy made for player `p` -/
def rwCopy (f : Flags) (frm p : Int) (c : Comp) : Comp :=
  if c.src == some (-1) then c          -- `if cond.source_player == -1: continue`
  else
    let c1 := if f.incSrc && (!f.fromOnly || c.src == some frm) then { c with src := some p } else c
    if f.incTgt && (!f.fromOnly || c1.tgt == some frm) then { c1 with tgt := some p } else c1

/-- is a `PlayerId(player)` evaluated by `rwCopy` on this component? -/
def castsCopy (f : Flags) (frm : Int) (c : Comp) : Bool :=
  c.src != some (-1) &&
    ((f.incSrc && (!f.fromOnly || c.src == some frm)) || (f.incTgt && (!f.fromOnly || c.tgt == some frm)))

/-- the target half of the loop body of `replace_player` -/
def rwReplaceTgt (incTgt : Bool) (to : Int) (only : Option Int) (c : Comp) : Comp :=
  if valid c.tgt && incTgt then
    if only.isSome && only != c.tgt then c      -- `continue`
    else { c with tgt := some to }
  else c

/-- loop body of `replace_player` for one component (note the `continue` in the source half: a source player
that is not `only_change_from` also skips the target half) -/
def rwReplace (incSrc incTgt : Bool) (to : Int) (only : Option Int) (c : Comp) : Comp :=
  if valid c.src && incSrc then
    if only.isSome && only != c.src then c      -- `continue`
    else rwReplaceTgt incTgt to only { c with src := some to }
  else rwReplaceTgt incTgt to only c

/-- is a `PlayerId(to_player)` evaluated by `rwReplace` on this component? -/
def castsReplace (incSrc incTgt : Bool) (only : Option Int) (c : Comp) : Bool :=
  if valid c.src && incSrc then !(only.isSome && only != c.src)
  else valid c.tgt && incTgt && !(only.isSome && only != c.tgt)

/-- `for x in idxs: c = comps[x]; <mutate c>` -/
def applyAt (g : Comp → Comp) (idxs : List Nat) (cs : List Comp) : List Comp :=
  idxs.foldl (fun acc i => acc.modify i g) cs

/-- both loops over the alterable indices `(ac, ae)` -/
def rewriteTrig (g : Comp → Comp) (ac ae : List Nat) (t : Trig) : Trig :=
  { t with conds := applyAt g ac t.conds, effs := applyAt g ae t.effs }

def anyAt (q : Comp → Bool) (idxs : List Nat) (cs : List Comp) : Bool :=
  idxs.any (fun i => match cs[i]? with | some c => q c | none => false)

/-! ### trigger selection -/

/-- `_validate_and_retrieve_trigger_info`: `(trigger_index, display_index, trigger)` -/
def resolve (s : State) : Sel → Except Err (Int × Int × Nat)
  | .index i => do
    let a ← pyGet s.list i
    let d ← pyIndexOf s.order i
    pure (i, (d : Int), a)
  | .display d => do
    let i ← pyGet s.order d
    let a ← pyGet s.list i
    pure (i, d, a)
  | .object a => do
    let t ← heapGet s.heap a
    let d ← pyIndexOf s.order t.tid
    pure (t.tid, (d : Int), a)

/-! ### `copy_trigger` (no suffix, not moved) -/

/-- deep copy of the object at address `a`, appended to the trigger list; returns the new address -/
def copyTrigger (s : State) (a : Nat) : Except Err (State × Nat) :=
  match resolve s (.object a) with
  | .error e => .error e
  | .ok _ =>
    match heapGet s.heap a with
    | .error e => .error e
    | .ok t =>
      .ok ({ heap := s.heap ++ [{ t with tid := (s.list.length : Int) }], list := s.list ++ [s.heap.length],
             order := s.order ++ [(s.list.length : Int)] }, s.heap.length)

/-- `heap[a] := g heap[a]` (an attribute write on an existing object) -/
def heapModify (s : State) (a : Nat) (g : Trig → Trig) : State := { s with heap := s.heap.modify a g }

/-! ### `copy_trigger_per_player` -/

/-- the list the loop runs over: default players 1..8, GAIA appended when asked and missing -/
def effPlayers (a : Args) : List Int :=
  let ps := match a.players with
    | some l => l
    | none => [1, 2, 3, 4, 5, 6, 7, 8]
  if a.gaia && !ps.contains 0 then ps ++ [0] else ps

def suffix (p : Int) : String := if p == 0 then " (GAIA)" else s!" (p{p})"

/-- one iteration of the loop for a player `p ≠ from_player`: `copy_trigger`, the name suffix, the two rewriting
loops on the copy; returns the address of the copy -/
def copyOne (a : Args) (src : Nat) (ac ae : List Nat) (p : Int) (s : State) : Except Err (State × Nat) :=
  match copyTrigger s src with
  | .error e => .error e
  | .ok (s1, na) =>
    let s2 := heapModify s1 na (fun t => { t with name := t.name ++ suffix p })
    .ok (heapModify s2 na (rewriteTrig (rwCopy a.flags a.frm p) ac ae), na)

/-- the `for player in create_copy_for_players` loop; `src` is the source object, `(ac, ae)` its alterable indices;
the dict maps a player to the address of its copy -/
def copyLoop (a : Args) (src : Nat) (ac ae : List Nat) :
    List Int → State → List (Int × Nat) → Except Err (State × List (Int × Nat))
  | [], s, d => .ok (s, d)
  | p :: ps, s, d =>
    if p == a.frm then copyLoop a src ac ae ps s d
    else
      match copyOne a src ac ae p s with
      | .error e => .error e
      | .ok (s1, na) => copyLoop a src ac ae ps s1 (dictSet d p na)

/-- does some copy evaluate `PlayerId(player)` with a value outside 0..8? -/
def castFails (a : Args) (t : Trig) (ac ae : List Nat) : Bool :=
  (effPlayers a).any (fun p => p != a.frm && !validPid p) &&
    (anyAt (castsCopy a.flags a.frm) ac t.conds || anyAt (castsCopy a.flags a.frm) ae t.effs)

/-- `copy_trigger_per_player`; the source object only gets its name suffix -/
def copyPerPlayer (s : State) (a : Args) (sel : Sel) : Except Err (State × List (Int × Nat)) :=
  match resolve s sel with
  | .error e => .error e
  | .ok (_, _, src) =>
    match heapGet s.heap src with
    | .error e => .error e
    | .ok t =>
      if castFails a t (alterOf a.lock t).1 (alterOf a.lock t).2 then .error .value
      else
        match copyLoop a src (alterOf a.lock t).1 (alterOf a.lock t).2 (effPlayers a) s [] with
        | .error e => .error e
        | .ok (s1, d) => .ok (heapModify s1 src (fun t => { t with name := t.name ++ s!" (p{a.frm})" }), d)

/-! ### `replace_player` -/

/-- `replace_player`: rewrites the selected object in place and returns it (its address) -/
def replacePlayer (s : State) (sel : Sel) (to : Int) (only : Option Int) (incSrc incTgt : Bool) (lk : Lock) :
    Except Err (State × Nat) :=
  match resolve s sel with
  | .error e => .error e
  | .ok (_, _, a) =>
    match heapGet s.heap a with
    | .error e => .error e
    | .ok t =>
      if !validPid to && (anyAt (castsReplace incSrc incTgt only) (alterOf lk t).1 t.conds ||
          anyAt (castsReplace incSrc incTgt only) (alterOf lk t).2 t.effs) then .error .value
      else .ok (heapModify s a (rewriteTrig (rwReplace incSrc incTgt to only) (alterOf lk t).1 (alterOf lk t).2), a)

/-! ### trigger trees -/

/-- `_find_trigger_tree_nodes` -/
def links (t : Trig) : List Int := (t.effs.filter (fun e => isAct e.kind)).map (·.link)

/-- `unknown_node_indexes = [i for i in found_node_indexes if i not in known_node_indexes]`.
`fixed = false` is the pinned code: a target linked twice from one trigger is listed twice.
`fixed = true` is the proposed repair (`fixes/F16-…`): `dict.fromkeys(found_node_indexes)` removes repetitions. -/
def unknownOf (fixed : Bool) (known : List Int) (t : Trig) : List Int :=
  if fixed then ((links t).filter (fun i => !known.contains i)).eraseDups
  else (links t).filter (fun i => !known.contains i)

/-- `_find_trigger_tree_nodes_recursively(trigger, known)`; `known` is returned instead of mutated -/
def dfs (fixed : Bool) (s : State) : Nat → Nat → List Int → Except Err (List Int)
  | 0, _, _ => .error .fuel
  | fuel + 1, a, known =>
    match heapGet s.heap a with
    | .error e => .error e
    | .ok t =>
      if (unknownOf fixed known t).isEmpty then .ok known
      else (unknownOf fixed known t).foldlM (fun k i =>
          match pyGet s.list i with
          | .error e => .error e
          | .ok a' => dfs fixed s fuel a' k) (known ++ unknownOf fixed known t)

/-- `reorder_triggers` main loop: walk the new order, renumber the objects, collect `index_changes` -/
def reorderLoop (list : List Nat) :
    List Int → Nat → List Trig → List Nat → List (Int × Int) → Except Err (List Trig × List Nat × List (Int × Int))
  | [], _, heap, nl, ch => .ok (heap, nl, ch)
  | idx :: rest, k, heap, nl, ch =>
    match pyGet list idx with
    | .error e => .error e
    | .ok a =>
      match heapGet heap a with
      | .error e => .error e
      | .ok t => reorderLoop list rest (k + 1) (heap.modify a (fun t => { t with tid := (k : Int) })) (nl ++ [a])
                   (dictSet ch t.tid (k : Int))

/-- `effect.trigger_id = index_changes[effect.trigger_id]` when present, on every activation effect -/
def remapLinks (ch : List (Int × Int)) (t : Trig) : Trig :=
  { t with effs := t.effs.map (fun e =>
      if isAct e.kind then
        match dictGet ch e.link with
        | .ok v => { e with link := v }
        | .error _ => e
      else e) }

/-- `reorder_triggers(new_id_order)` -/
def reorder (s : State) (newOrder : List Int) : Except Err State :=
  if newOrder.isEmpty || newOrder.any (· < 0) then .error .value      -- `min(new_id_order) < 0`
  else
    match reorderLoop s.list newOrder 0 s.heap [] [] with
    | .error e => .error e
    | .ok (heap, nl, ch) =>
      -- `self.triggers = new_triggers_list` (the setter resets the display order), then the relinking loop
      .ok { heap := nl.foldl (fun h a => h.modify a (remapLinks ch)) heap, list := nl,
            order := (List.range nl.length).map (fun (i : Nat) => (i : Int)) }

/-- `move_triggers(trigger_ids, insert_index)` -/
def moveTriggers (s : State) (ids : List Int) (insertIndex : Int) : Except Err State :=
  if ids.isEmpty || ids.any (· < 0) then .error .value                -- `min(trigger_ids) < 0`
  else if insertIndex ≥ (s.order.length : Int) then
    reorder s (s.order.filter (fun n => !ids.contains n) ++ ids)
  else
    match pyGet s.order insertIndex with
    | .error e => .error e
    | .ok insertNum =>
      match pyIndexOf (s.order.filter (fun n => !ids.contains n || n == insertNum)) insertNum with
      | .error e => .error e
      | .ok split =>
        let l0 := s.order.filter (fun n => !ids.contains n || n == insertNum)
        let l := if ids.contains insertNum then l0.erase insertNum else l0
        reorder s (l.take split ++ ids ++ l.drop split)

/-- `new_triggers.setdefault(player, []).append(trigger)` -/
def dictPush : List (Int × List Nat) → Int → Nat → List (Int × List Nat)
  | [], k, v => [(k, [v])]
  | (k', l) :: r, k, v => if k' == k then (k', l ++ [v]) :: r else (k', l) :: dictPush r k v

/-- `trigger_index_swap.setdefault(index, {})[player] = tid` -/
def swapSet : List (Int × List (Int × Int)) → Int → Int → Int → List (Int × List (Int × Int))
  | [], i, p, v => [(i, [(p, v)])]
  | (i', d) :: r, i, p, v => if i' == i then (i', dictSet d p v) :: r else (i', d) :: swapSet r i p v

/-- `trigger_index_swap[link][player]` (KeyError) -/
def swapGet (sw : List (Int × List (Int × Int))) (i p : Int) : Except Err Int := do
  let d ← dictGet sw i
  dictGet d p

/-- relink the activation effects of one trigger for `player`:
`effect.trigger_id = trigger_index_swap[effect.trigger_id][player]` -/
def relinkEffs (sw : List (Int × List (Int × Int))) (p : Int) : List Comp → Except Err (List Comp)
  | [] => .ok []
  | e :: r =>
    if isAct e.kind then
      match swapGet sw e.link p with
      | .error x => .error x
      | .ok v =>
        match relinkEffs sw p r with
        | .error x => .error x
        | .ok r' => .ok ({ e with link := v } :: r')
    else
      match relinkEffs sw p r with
      | .error x => .error x
      | .ok r' => .ok (e :: r')

def relinkObj (sw : List (Int × List (Int × Int))) (p : Int) (h : List Trig) (a : Nat) : Except Err (List Trig) :=
  match heapGet h a with
  | .error x => .error x
  | .ok t =>
    match relinkEffs sw p t.effs with
    | .error x => .error x
    | .ok effs => .ok (h.set a { t with effs := effs })

/-- `for trigger in triggers: …` for one player -/
def relinkList (sw : List (Int × List (Int × Int))) (p : Int) : List Nat → List Trig → Except Err (List Trig)
  | [], h => .ok h
  | x :: r, h =>
    match relinkObj sw p h x with
    | .error e => .error e
    | .ok h' => relinkList sw p r h'

/-- `for player, triggers in new_triggers.items(): …` -/
def relinkAll (sw : List (Int × List (Int × Int))) : List (Int × List Nat) → List Trig → Except Err (List Trig)
  | [], h => .ok h
  | pl :: r, h =>
    match relinkList sw pl.1 pl.2 h with
    | .error e => .error e
    | .ok h' => relinkAll sw r h'

/-- `for player, trigger in triggers.items(): swap.setdefault(index, {})[player] = trigger.trigger_id;
new_triggers.setdefault(player, []).append(trigger)` -/
def pushCopies (heap : List Trig) (index : Int) :
    List (Int × Nat) → List (Int × List Nat) → List (Int × List (Int × Int)) →
      Except Err (List (Int × List Nat) × List (Int × List (Int × Int)))
  | [], nt, sw => .ok (nt, sw)
  | pa :: r, nt, sw =>
    match heapGet heap pa.2 with
    | .error e => .error e
    | .ok t => pushCopies heap index r (dictPush nt pa.1 pa.2) (swapSet sw index pa.1 t.tid)

/-- the per-node loop "Copy for all other players" -/
def treeCopyLoop (a : Args) :
    List Int → State → List (Int × List Nat) → List (Int × List (Int × Int)) →
      Except Err (State × List (Int × List Nat) × List (Int × List (Int × Int)))
  | [], s, nt, sw => .ok (s, nt, sw)
  | index :: rest, s, nt, sw =>
    match copyPerPlayer s a (.index index) with
    | .error e => .error e
    | .ok (s1, d) =>
      match pushCopies s1.heap index d nt sw with
      | .error e => .error e
      | .ok (nt1, sw1) => treeCopyLoop a rest s1 nt1 sw1

/-- the ids handed to `move_triggers` -/
def groupIds (g : GroupBy) (frm : Int) (known : List Int) (nt : List (Int × List Nat)) (heap : List Trig) :
    Except Err (List Int) :=
  let all : List Int := [0, 1, 2, 3, 4, 5, 6, 7, 8]       -- PlayerId.all()
  let tidOf (a : Nat) : Except Err Int := do let t ← heapGet heap a; pure t.tid
  match g with
  | .none => pure []
  | .trigger =>
    (List.range known.length).foldlM (fun acc (i : Nat) => do
      let row ← all.foldlM (fun acc2 p =>
        if p == frm then do
          let k ← pyGet known (i : Int)
          pure (acc2 ++ [k])
        else match dictGet nt p with
          | .error _ => pure acc2
          | .ok l => do
            let x ← pyGet l (i : Int)
            let v ← tidOf x
            pure (acc2 ++ [v])) []
      pure (acc ++ row)) []
  | .player =>
    all.foldlM (fun acc p =>
      if p == frm then pure (acc ++ known)
      else match dictGet nt p with
        | .error _ => pure acc
        | .ok l => do
          let vs ← l.mapM tidOf
          pure (acc ++ vs)) []

/-- "Set values for from_player": the swap entries of the source triggers -/
def swapInit (s : State) (frm : Int) : List Int → List (Int × List (Int × Int)) → Except Err (List (Int × List (Int × Int)))
  | [], sw => .ok sw
  | i :: r, sw =>
    match pyGet s.list i with
    | .error e => .error e
    | .ok x =>
      match heapGet s.heap x with
      | .error e => .error e
      | .ok t => swapInit s frm r (swapSet sw i frm t.tid)

/-- `[self.triggers[i] for i in known_node_indexes]` -/
def nodeAddrs (s : State) : List Int → Except Err (List Nat)
  | [] => .ok []
  | i :: r =>
    match pyGet s.list i with
    | .error e => .error e
    | .ok x =>
      match nodeAddrs s r with
      | .error e => .error e
      | .ok xs => .ok (x :: xs)

/-- the grouping step at the end of `copy_trigger_tree_per_player` -/
def groupStep (g : GroupBy) (frm : Int) (known : List Int) (nt : List (Int × List Nat)) (di : Int) (s : State) :
    Except Err State :=
  match g with
  | .none => .ok s
  | g =>
    match groupIds g frm known nt s.heap with
    | .error e => .error e
    | .ok ids => moveTriggers s ids di

/-- `copy_trigger_tree_per_player`; returns the dict player → addresses (the source objects under `from_player`) -/
def copyTreePerPlayer (fixed : Bool) (fuel : Nat) (s : State) (a : Args) (sel : Sel) (g : GroupBy) :
    Except Err (State × List (Int × List Nat)) :=
  match resolve s sel with
  | .error e => .error e
  | .ok (ti, di, src) =>
    match dfs fixed s fuel src [ti] with
    | .error e => .error e
    | .ok known =>
      match nodeAddrs s known with
      | .error e => .error e
      | .ok srcs =>
        match swapInit s a.frm known [] with
        | .error e => .error e
        | .ok sw0 =>
          match treeCopyLoop a known s [(a.frm, srcs)] sw0 with
          | .error e => .error e
          | .ok (s1, nt, sw) =>
            -- "Set trigger_id's in activation effects to the new player copied trigger ID"
            match relinkAll sw nt s1.heap with
            | .error e => .error e
            | .ok heap2 =>
              match groupStep g a.frm known nt di { s1 with heap := heap2 } with
              | .error e => .error e
              | .ok s3 => .ok (s3, nt)

end Aoe.PerPlayer
