import Aoe.Model.Codec
/-!
# M4 (part 1) – addressing fields of the value tree: paths, get, set

Models how a `RetrieverObjectLink` reaches its retriever (`RetrieverObjectLinkParent.get_from_link`): a link is a sequence of
attribute steps (`section.field`) and list steps (`[__index__]` resolved with the object's index history). `getAt` is the
pull, `setAt` the push of a plain value (`retriever.set_data(value, affect_dirty=False)` on a retriever that is not dirty).

Also the three per-player array conventions of `PlayerManager` (`_player_list`, `_spread_player_attributes`):
GAIA last, GAIA first, no GAIA.
-/
namespace Aoe.Lens
open Aoe Aoe.Codec

inductive Step
  | fld (i : Nat)      -- i-th retriever of a record
  | idx (i : Nat)      -- i-th element of a list
  deriving DecidableEq, Repr

def getAt : List Step → Val → Option Val
  | [], v => some v
  | .fld i :: r, .strct vs => match vs[i]? with | some v => getAt r v | none => none
  | .idx i :: r, .list vs => match vs[i]? with | some v => getAt r v | none => none
  | _, _ => none

def setAt : List Step → Val → Val → Option Val
  | [], _, x => some x
  | .fld i :: r, .strct vs, x =>
    match vs[i]? with
    | some v => match setAt r v x with | some v' => some (.strct (vs.set i v')) | none => none
    | none => none
  | .idx i :: r, .list vs, x =>
    match vs[i]? with
    | some v => match setAt r v x with | some v' => some (.list (vs.set i v')) | none => none
    | none => none
  | _, _, _ => none

/-- position of player `p` (0 = GAIA, 1..8) in a per-player array -/
inductive Conv | gaiaLast | gaiaFirst | noGaia
  deriving DecidableEq, Repr

def pos : Conv → Nat → Option Nat
  | .gaiaFirst, p => if p ≤ 8 then some p else none
  | .gaiaLast, p => if p = 0 then some 8 else if p ≤ 8 then some (p - 1) else none
  | .noGaia, p => if 1 ≤ p ∧ p ≤ 8 then some (p - 1) else none

/-- `xy_to_i` -/
def tileIndex (size x y : Nat) : Nat := y * size + x

end Aoe.Lens
