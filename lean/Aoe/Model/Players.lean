/-!
# M-PL: the per-player lists of `PlayerManager` (C01 / C03, manager level)

Models, from `AoE2ScenarioParser/objects/managers/player_manager.py`:
* `_player_list(gaia_first)` – players 1..8, with GAIA (0) first, last or not at all,
* `PlayerManager._player_attributes_to_list(attribute, gaia_first, default, fill_empty)` – the list handed to `push`,
* `_spread_player_attributes(player_attributes, key, lst, gaia_first)` – what `PlayerManager.__init__` makes of a pulled list.

A player attribute is an `Option Int` (`None` = unset / not supported by the version); strings (`tribe_name`) are interned by
the harness. The three-valued `gaia_first` is `Option Bool` (`none` = GAIA not in the list).
-/
namespace Aoe.Players

/-- `_player_list` -/
def playerList : Option Bool → List Nat
  | none => [1, 2, 3, 4, 5, 6, 7, 8]
  | some true => [0, 1, 2, 3, 4, 5, 6, 7, 8]
  | some false => [1, 2, 3, 4, 5, 6, 7, 8, 0]

/-- the value one player contributes: `None` becomes the default only for the lists without GAIA -/
def norm (g : Option Bool) (d : Int) (v : Option Int) : Option Int :=
  match v, g with
  | none, none => some d
  | v, _ => v

/-- `_player_attributes_to_list` (the attribute is the function `attr : player → value`) -/
def attrsToList (g : Option Bool) (d : Int) (fill : Nat) (attr : Nat → Option Int) : List (Option Int) :=
  (playerList g).map (fun p => norm g d (attr p)) ++ List.replicate fill (some d)

/-- `_spread_player_attributes`: the value player `p` receives from the pulled list (`none` = the player is not in the list
and keeps the constructor default) ; `lst[index]` beyond the list is Python's IndexError, modelled as `none` as well and
excluded by `spread_total` for every list that is long enough -/
def spread (g : Option Bool) (lst : List (Option Int)) (p : Nat) : Option (Option Int) :=
  match (playerList g).idxOf? p with
  | some i => lst[i]?
  | none => none

end Aoe.Players
