/-!
# M6: heap / scenario store (C09 – scenarios do not leak into each other)

Python transcribed (pinned tree):

* `objects/support/uuid_list.py` – `UuidList.__init__` (deep-copy the whole sequence when `seq[0]` carries a
  foreign UUID, otherwise keep the objects; then `_update`: stamp every entry and run the entry callback),
  `append / insert / extend / __setitem__` (stamp **in place**, never copy), `__deepcopy__` (entries are copied
  one by one, *without* memo, the list's own `_uuid` is carried over unchanged).
* `objects/aoe2_object.py` – `__deepcopy__` (fresh object, every attribute deep-copied; `_uuid` keeps its value).
* `objects/managers/trigger_manager.py` – the `triggers` setter (`UuidList(self._uuid, triggers,
  on_update_execute_entry=self._update_triggers_uuid)`), `_update_triggers_uuid` (stamps the effects and
  conditions of an entry – *not* the nested lists themselves), `add_trigger`, `import_triggers`
  (`deepcopy=True`, `index=-1`), `remove_triggers` (one index).
* `objects/data_objects/trigger.py` – `_add_effect / _add_condition` (new component stamped with the trigger's
  UUID, then `self.effects.append` re-stamps it with the **nested list's** UUID).
* `sections/retrievers/retriever_object_link(_group).py`, `scenario_store/{store,getters}.py` – commit: every
  object writes into the sections of the scenario found through **its own** `_uuid`
  (`store.get_scenario(uuid)` → `ValueError` when unknown), at the path given by its position
  (`trigger_data[i]`, `.effect_data[j]` / `.condition_data[j]`, `IndexError` when the record is missing);
  struct lists are resized by `update_retriever_length` in the section of the *pushing* object.

Representation.  Two typed address spaces (`trigs`, `comps`), an address is an index; allocation appends.
A trigger holds the addresses of its components in one list (effects and conditions in insertion order; the
two Python lists are the two `filter`s of it – both nested `UuidList`s always carry the same UUID, `compsU`).
Scenarios are keyed by their UUID (`Uid`, `0` = `NO_UUID`): `trigsOf u` is the manager's list, `sectOf u` the
`Triggers` section, `live u` whether the store knows `u`.

`Cfg` selects the repaired behaviours: `fixImport` (F5: `import_triggers` extends the list in place instead of
`+=` through the setter), `fixNested` (F17: the manager's entry callback also re-stamps the nested lists).
`pinned` is the code as it is.  The list entry points take a flag `copyFirst` = "copy entries that carry a
foreign stamp before adopting them" (the repair of F6 that is *not* proposed, see design.d/C09.md); the pinned
code is `copyFirst = false`.

`import_triggers`' three passes (deep copy, renumber, remap links) are fused into one pass over the sources –
no intermediate state is observable.  Bulk stamping is written as one `mapAt` instead of the Python loops (every
write stores the same value, so order and repetition do not matter).
-/
namespace Aoe.Heap

/-- addresses and scenario UUIDs are natural numbers (notations, so that arithmetic tactics see `Nat`) -/
notation "Addr" => Nat
notation "Uid" => Nat

/-- `NO_UUID` -/
def noUuid : Uid := 0

/-- kind of a trigger component: activate-trigger effect, deactivate-trigger effect, any other effect, condition -/
inductive Kind | act | deact | eff | cond
  deriving DecidableEq, Repr

def Kind.isLink : Kind → Bool
  | .act | .deact => true
  | _ => false

def Kind.isCond : Kind → Bool
  | .cond => true
  | _ => false

/-- an effect or a condition -/
structure Comp where
  uuid : Uid          -- `_uuid`
  kind : Kind
  target : Int        -- `trigger_id` of an effect
  val : Int           -- some editable attribute (`quantity`)
  deriving DecidableEq, Repr

structure Trig where
  uuid : Uid          -- `_uuid`
  tid : Int           -- `trigger_id`
  name : Int          -- some editable attribute
  comps : List Addr   -- `_effects` / `_conditions` (addresses into `Heap.comps`)
  compsU : Uid        -- `_effects._uuid` = `_conditions._uuid`
  deriving DecidableEq, Repr

structure Heap where
  trigs : List Trig
  comps : List Comp
  deriving DecidableEq, Repr

/-- records of the `Triggers` section -/
structure SComp where
  kind : Kind
  target : Int
  val : Int
  deriving DecidableEq, Repr

structure STrig where
  name : Int
  effs : List SComp
  conds : List SComp
  deriving DecidableEq, Repr

structure World where
  heap : Heap
  trigsOf : Uid → List Addr
  sectOf : Uid → List STrig
  live : Uid → Bool

structure Cfg where
  fixImport : Bool
  fixNested : Bool
  deriving DecidableEq, Repr

def pinned : Cfg := ⟨false, false⟩
def repaired : Cfg := ⟨true, true⟩

inductive Err | index | badRef | noScenario | unsupported
  deriving DecidableEq, Repr

/-! ## list helpers -/

/-- apply `f` at the positions `i + k` (k-th element) selected by `p` -/
def mapAt {α : Type} (p : Nat → Bool) (f : α → α) : Nat → List α → List α
  | _, [] => []
  | i, x :: xs => (if p i then f x else x) :: mapAt p f (i + 1) xs

/-- `[cs[a] for a in as]`, `none` when an address dangles -/
def lookupAll {α : Type} (cs : List α) : List Addr → Option (List α)
  | [] => some []
  | a :: as =>
    match cs[a]?, lookupAll cs as with
    | some c, some r => some (c :: r)
    | _, _ => none

def setFn {β : Type} (f : Uid → β) (u : Uid) (v : β) : Uid → β := fun x => if x = u then v else f x

/-- Python dict built by successive `d[k] = v`: the last binding wins -/
def dictGet (d : List (Int × Int)) (k : Int) : Option Int :=
  match d with
  | [] => none
  | (k', v) :: r =>
    match dictGet r k with
    | some x => some x
    | none => if k' = k then some v else none

/-! ## stamping (`UuidList._update` + `TriggerManager._update_triggers_uuid`) -/

def compsOf (h : Heap) (a : Addr) : List Addr :=
  match h.trigs[a]? with
  | some t => t.comps
  | none => []

def stampT (cfg : Cfg) (u : Uid) (t : Trig) : Trig :=
  { t with uuid := u, compsU := if cfg.fixNested then u else t.compsU }

def stampC (u : Uid) (c : Comp) : Comp := { c with uuid := u }

/-- stamp the triggers `refs` and all their components with `u` -/
def stampTrigs (cfg : Cfg) (u : Uid) (refs : List Addr) (h : Heap) : Heap :=
  let cs := refs.flatMap (compsOf h)
  { trigs := mapAt (fun a => refs.contains a) (stampT cfg u) 0 h.trigs
    comps := mapAt (fun c => cs.contains c) (stampC u) 0 h.comps }

/-! ## deep copy -/

/-- `copy.deepcopy(trigger)` followed by `fT` on the copy and `fC` on each copied component.
Fresh addresses for the trigger and for every component.  The trigger's `_uuid` and the nested lists' UUID are
carried over; the copied components are stamped with the **nested list's** UUID (`UuidList.__deepcopy__` fills the
copy with `result[:] = …`, i.e. through the overridden `__setitem__`, which re-stamps). -/
def copyTrig (fT : Trig → Trig) (fC : Comp → Comp) (h : Heap) (a : Addr) : Option (Heap × Addr) :=
  match h.trigs[a]? with
  | none => none
  | some t =>
    match lookupAll h.comps t.comps with
    | none => none
    | some cs =>
      some ({ trigs := h.trigs ++ [{ fT t with comps := List.range' h.comps.length cs.length }]
              comps := h.comps ++ cs.map (fun c => fC { c with uuid := t.compsU }) }, h.trigs.length)

/-- copy a list of triggers one by one (`fT k` is applied to the copy of the k-th) -/
def copyTrigs (fT : Nat → Trig → Trig) (fC : Comp → Comp) : Nat → Heap → List Addr → Option (Heap × List Addr)
  | _, h, [] => some (h, [])
  | k, h, a :: as =>
    match copyTrig (fT k) fC h a with
    | none => none
    | some (h1, a') =>
      match copyTrigs fT fC (k + 1) h1 as with
      | none => none
      | some (h2, r) => some (h2, a' :: r)

/-- the test of `UuidList.__init__`: `o._uuid != uuid and o._uuid != NO_UUID` -/
def isForeign (u : Uid) (t : Trig) : Bool := t.uuid != u && t.uuid != noUuid

/-- `copyFirst`: entries with a foreign stamp are replaced by deep copies, the others are kept -/
def ownEach (u : Uid) : Heap → List Addr → Option (Heap × List Addr)
  | h, [] => some (h, [])
  | h, a :: as =>
    match h.trigs[a]? with
    | none => none
    | some t =>
      if isForeign u t then
        match copyTrig id id h a with
        | none => none
        | some (h1, a') =>
          match ownEach u h1 as with
          | none => none
          | some (h2, r) => some (h2, a' :: r)
      else
        match ownEach u h as with
        | none => none
        | some (h2, r) => some (h2, a :: r)

/-- `UuidList(uuid, seq, on_update_execute_entry=…)` as the `triggers` setter calls it: returns the new heap and
the entries of the new list -/
def ctor (cfg : Cfg) (u : Uid) (h : Heap) (seq : List Addr) : Option (Heap × List Addr) :=
  match seq with
  | [] => some (h, [])
  | a0 :: _ =>
    let copied : Option (Heap × List Addr) :=
      match h.trigs[a0]? with
      | none => none
      | some t0 => if isForeign u t0 then copyTrigs (fun _ t => t) id 0 h seq else some (h, seq)
    match copied with
    | none => none
    | some (h1, seq1) => some (stampTrigs cfg u seq1 h1, seq1)

/-! ## operations -/

inductive How
  | append | insert (pos : Nat) | extend | setitem (pos : Nat) | iadd | assign
  deriving DecidableEq, Repr

inductive CField | val | target
  deriving DecidableEq, Repr

inductive Op
  | editTrig (a : Addr) (v : Int)
  | editComp (c : Addr) (f : CField) (v : Int)
  | addTrigger (u : Uid) (name : Int)
  | addComp (u : Uid) (i : Nat) (k : Kind) (target val : Int)
  | importT (u : Uid) (refs : List Addr)
  | adopt (u : Uid) (how : How) (refs : List Addr) (copyFirst : Bool)
  | remove (u : Uid) (i : Nat)
  | save (u : Uid)
  deriving DecidableEq, Repr

inductive Ret
  | unit
  | addrs (l : List Addr)
  | out (s : List STrig)
  deriving DecidableEq, Repr

def editTrig (h : Heap) (a : Addr) (v : Int) : Except Err Heap :=
  match h.trigs[a]? with
  | none => .error .badRef
  | some t => .ok { h with trigs := h.trigs.set a { t with name := v } }

def editComp (h : Heap) (c : Addr) (f : CField) (v : Int) : Except Err Heap :=
  match h.comps[c]? with
  | none => .error .badRef
  | some co =>
    .ok { h with comps := h.comps.set c (match f with
                                          | .val => { co with val := v }
                                          | .target => { co with target := v }) }

/-- `TriggerManager.add_trigger` -/
def addTrigger (w : World) (u : Uid) (name : Int) : World × Addr :=
  let l := w.trigsOf u
  let t : Trig := { uuid := u, tid := l.length, name := name, comps := [], compsU := u }
  ({ w with heap := { w.heap with trigs := w.heap.trigs ++ [t] }
            trigsOf := setFn w.trigsOf u (l ++ [w.heap.trigs.length]) }, w.heap.trigs.length)

/-- `Trigger._add_effect / _add_condition` on the i-th trigger of `u` -/
def addComp (w : World) (u : Uid) (i : Nat) (k : Kind) (target val : Int) : Except Err World :=
  match (w.trigsOf u)[i]? with
  | none => .error .index
  | some a =>
    match w.heap.trigs[a]? with
    | none => .error .badRef
    | some t =>
      -- `Effect(..., uuid=self._uuid)` and then `self.effects.append(e)`: the nested list stamps it with ITS uuid
      let c : Comp := { uuid := t.compsU, kind := k, target := target, val := val }
      .ok { w with heap := { trigs := w.heap.trigs.set a { t with comps := t.comps ++ [w.heap.comps.length] }
                             comps := w.heap.comps ++ [c] } }

def lookupTrigs (h : Heap) (refs : List Addr) : Option (List Trig) := lookupAll h.trigs refs

/-- `index_changes` of `import_triggers`: old `trigger_id` of the k-th imported trigger ↦ `base + k` -/
def importDict (base : Nat) : Nat → List Trig → List (Int × Int)
  | _, [] => []
  | k, t :: ts => (t.tid, ((base + k : Nat) : Int)) :: importDict base (k + 1) ts

/-- the remap loop of `import_triggers` on one component -/
def remapC (d : List (Int × Int)) (c : Comp) : Comp :=
  if c.kind.isLink then
    { c with target := match dictGet d c.target with
                       | some v => v
                       | none => -1 }
  else c

/-- `TriggerManager.import_triggers(triggers, index=-1, deepcopy=True)`; returns the world and the returned list -/
def importTriggers (cfg : Cfg) (w : World) (u : Uid) (refs : List Addr) : Except Err (World × List Addr) :=
  if ¬ refs.Nodup then .error .unsupported     -- `copy.deepcopy` of a list with a repeated object: out of model
  else
    match lookupTrigs w.heap refs with
    | none => .error .badRef
    | some ts =>
      let l := w.trigsOf u
      let d := importDict l.length 0 ts
      match copyTrigs (fun k t => { t with tid := ((l.length + k : Nat) : Int) }) (remapC d) 0 w.heap refs with
      | none => .error .badRef
      | some (h1, copies) =>
        if cfg.fixImport then
          -- `self.triggers.extend(triggers)`
          .ok ({ w with heap := stampTrigs cfg u copies h1, trigsOf := setFn w.trigsOf u (l ++ copies) }, copies)
        else
          -- `self.triggers += triggers`: `list.__iadd__` (no stamping) and then the setter on the whole list
          match ctor cfg u h1 (l ++ copies) with
          | none => .error .badRef
          | some (h2, held) => .ok ({ w with heap := h2, trigsOf := setFn w.trigsOf u held }, copies)

/-- the renumbering loop of `remove_triggers` (sequential: an object met twice is seen with its new id) -/
def renumber : Nat → List Addr → Heap → List (Int × Int) → Option (Heap × List (Int × Int))
  | _, [], h, d => some (h, d)
  | n, a :: as, h, d =>
    match h.trigs[a]? with
    | none => none
    | some t =>
      if ((n : Nat) : Int) ≠ t.tid then
        renumber (n + 1) as { h with trigs := h.trigs.set a { t with tid := (n : Int) } } (d ++ [(t.tid, (n : Int))])
      else renumber (n + 1) as h d

def relinkC (d : List (Int × Int)) (c : Comp) : Comp :=
  if c.kind.isLink then
    match dictGet d c.target with
    | some v => { c with target := v }
    | none => c
  else c

/-- the relink loop over the components of one trigger (sequential) -/
def relinkComps (d : List (Int × Int)) : List Addr → List Comp → Option (List Comp)
  | [], cs => some cs
  | c :: r, cs =>
    match cs[c]? with
    | none => none
    | some co => relinkComps d r (cs.set c (relinkC d co))

def relink (d : List (Int × Int)) : List Addr → Heap → Option Heap
  | [], h => some h
  | a :: as, h =>
    match h.trigs[a]? with
    | none => none
    | some t =>
      match relinkComps d t.comps h.comps with
      | none => none
      | some cs => relink d as { h with comps := cs }

/-- `TriggerManager.remove_trigger(i)`; also returns the removed object -/
def removeTrigger (w : World) (u : Uid) (i : Nat) : Except Err (World × Addr) :=
  match (w.trigsOf u)[i]? with
  | none => .error .index
  | some a =>
    let l := (w.trigsOf u).eraseIdx i
    match renumber 0 l w.heap [] with
    | none => .error .badRef
    | some (h1, d) =>
      -- since the repair of F4 an effect that pointed at the removed trigger (id `i`) is reset to -1
      -- (`if effect.trigger_id in removing_trigger_ids: effect.trigger_id = -1`), which takes precedence over the renumbering dict (`dictGet` = last entry wins)
      match relink (d ++ [(((i : Nat) : Int), (-1 : Int))]) l h1 with
      | none => .error .badRef
      | some h2 => .ok ({ w with heap := h2, trigsOf := setFn w.trigsOf u l }, a)

/-- the `UuidList` entry points of the manager's list and the `triggers` setter.
`copyFirst` = the caller first replaces every entry that carries a foreign stamp by a `copy.deepcopy` of it
(what a copy-on-foreign `UuidList` would do itself); the entry point proper is the pinned code. -/
def adopt (cfg : Cfg) (w : World) (u : Uid) (how : How) (refs0 : List Addr) (copyFirst : Bool) : Except Err World :=
  if ¬ refs0.all (fun a => a < w.heap.trigs.length) then .error .badRef
  else
    match (if copyFirst then ownEach u w.heap refs0 else some (w.heap, refs0)) with
    | none => .error .badRef
    | some (h0, refs) =>
      let l := w.trigsOf u
      -- in-place entry points: list surgery, stamping of the new entries only
      let inPlace (l' : List Addr) : Except Err World :=
        .ok { w with heap := stampTrigs cfg u refs h0, trigsOf := setFn w.trigsOf u l' }
      let viaSetter (seq : List Addr) : Except Err World :=
        match ctor cfg u h0 seq with
        | none => .error .badRef
        | some (h1, held) => .ok { w with heap := h1, trigsOf := setFn w.trigsOf u held }
      match how with
      | .append => if refs.length = 1 then inPlace (l ++ refs) else .error .unsupported
      | .insert pos => if refs.length = 1 then inPlace (l.take pos ++ refs ++ l.drop pos) else .error .unsupported
      | .extend => inPlace (l ++ refs)
      | .setitem pos =>
        match refs with
        | [a] => if pos < l.length then inPlace (l.set pos a) else .error .index
        | _ => .error .unsupported
      | .iadd => viaSetter (l ++ refs)
      | .assign => if refs0.Nodup then viaSetter refs else .error .unsupported

/-! ## save = commit + serialise the own sections -/

def renderComp (c : Comp) : SComp := ⟨c.kind, c.target, c.val⟩

/-- what `from_model(set_defaults=True)` puts into a grown struct list (values never observed once committed) -/
def dfltComp : SComp := ⟨.eff, -1, 0⟩
def dfltTrig : STrig := ⟨0, [], []⟩

/-- `update_retriever_length` -/
def resize {α : Type} (d : α) (n : Nat) (l : List α) : List α := l.take n ++ List.replicate (n - l.length) d

def updAt {α : Type} (l : List α) (i : Nat) (f : α → Except Err α) : Except Err (List α) :=
  match l[i]? with
  | none => .error .index
  | some x =>
    match f x with
    | .error e => .error e
    | .ok y => .ok (l.set i y)

/-- modify the `Triggers` section of the scenario registered under `v` (`store.get_scenario`) -/
def updSect (w : World) (v : Uid) (f : List STrig → Except Err (List STrig)) : Except Err World :=
  if w.live v then
    match f (w.sectOf v) with
    | .error e => .error e
    | .ok s => .ok { w with sectOf := setFn w.sectOf v s }
  else .error .noScenario

def putComp (isC : Bool) (j : Nat) (r : SComp) (tr : STrig) : Except Err STrig :=
  if isC then
    match updAt tr.conds j (fun _ => .ok r) with
    | .error e => .error e
    | .ok l => .ok { tr with conds := l }
  else
    match updAt tr.effs j (fun _ => .ok r) with
    | .error e => .error e
    | .ok l => .ok { tr with effs := l }

/-- `commit_object_list` of the effects (`isC = false`) or conditions of the i-th trigger -/
def commitComps (isC : Bool) (i : Nat) : Nat → List Comp → World → Except Err World
  | _, [], w => .ok w
  | j, c :: cs, w =>
    match updSect w c.uuid (fun ts => updAt ts i (putComp isC j (renderComp c))) with
    | .error e => .error e
    | .ok w1 => commitComps isC i (j + 1) cs w1

def effsOf (cs : List Comp) : List Comp := cs.filter (fun c => !c.kind.isCond)
def condsOf (cs : List Comp) : List Comp := cs.filter (fun c => c.kind.isCond)

/-- `Trigger.commit()` of the object at `a` held at position `i` -/
def commitTrig (h : Heap) (i : Nat) (a : Addr) (w : World) : Except Err World :=
  match h.trigs[a]? with
  | none => .error .badRef
  | some t =>
    match lookupAll h.comps t.comps with
    | none => .error .badRef
    | some cs =>
      match updSect w t.uuid (fun ts => updAt ts i (fun tr =>
              .ok { name := t.name
                    effs := resize dfltComp (effsOf cs).length tr.effs
                    conds := resize dfltComp (condsOf cs).length tr.conds })) with
      | .error e => .error e
      | .ok w1 =>
        match commitComps false i 0 (effsOf cs) w1 with
        | .error e => .error e
        | .ok w2 => commitComps true i 0 (condsOf cs) w2

def commitTrigs (h : Heap) : Nat → List Addr → World → Except Err World
  | _, [], w => .ok w
  | i, a :: as, w =>
    match commitTrig h i a w with
    | .error e => .error e
    | .ok w1 => commitTrigs h (i + 1) as w1

/-- `scenario.write_to_file`: commit the manager of `u`, the written output is the section of `u` -/
def save (w : World) (u : Uid) : Except Err (World × List STrig) :=
  if w.live u then
    let l := w.trigsOf u
    let w0 := { w with sectOf := setFn w.sectOf u (resize dfltTrig l.length (w.sectOf u)) }
    match commitTrigs w.heap 0 l w0 with
    | .error e => .error e
    | .ok w1 => .ok (w1, w1.sectOf u)
  else .error .noScenario

/-- closed form of what a scenario writes when all its objects are its own -/
def renderTrig (h : Heap) (a : Addr) : Option STrig :=
  match h.trigs[a]? with
  | none => none
  | some t =>
    match lookupAll h.comps t.comps with
    | none => none
    | some cs => some { name := t.name, effs := (effsOf cs).map renderComp, conds := (condsOf cs).map renderComp }

def render (h : Heap) : List Addr → Option (List STrig)
  | [] => some []
  | a :: as =>
    match renderTrig h a, render h as with
    | some r, some rs => some (r :: rs)
    | _, _ => none

/-! ## one step, runs -/

def step (cfg : Cfg) (w : World) : Op → Except Err (World × Ret)
  | .editTrig a v =>
    match editTrig w.heap a v with
    | .error e => .error e
    | .ok h => .ok ({ w with heap := h }, .unit)
  | .editComp c f v =>
    match editComp w.heap c f v with
    | .error e => .error e
    | .ok h => .ok ({ w with heap := h }, .unit)
  | .addTrigger u name =>
    if w.live u then let r := addTrigger w u name; .ok (r.1, .addrs [r.2]) else .error .noScenario
  | .addComp u i k target val =>
    if w.live u then
      match addComp w u i k target val with
      | .error e => .error e
      | .ok w1 => .ok (w1, .unit)
    else .error .noScenario
  | .importT u refs =>
    if w.live u then
      match importTriggers cfg w u refs with
      | .error e => .error e
      | .ok (w1, r) => .ok (w1, .addrs r)
    else .error .noScenario
  | .adopt u how refs cf =>
    if w.live u then
      match adopt cfg w u how refs cf with
      | .error e => .error e
      | .ok w1 => .ok (w1, .unit)
    else .error .noScenario
  | .remove u i =>
    if w.live u then
      match removeTrigger w u i with
      | .error e => .error e
      | .ok (w1, a) => .ok (w1, .addrs [a])
    else .error .noScenario
  | .save u =>
    match save w u with
    | .error e => .error e
    | .ok (w1, o) => .ok (w1, .out o)

def run (cfg : Cfg) : World → List Op → Except Err World
  | w, [] => .ok w
  | w, op :: ops =>
    match step cfg w op with
    | .error e => .error e
    | .ok (w1, _) => run cfg w1 ops

/-- `n` freshly loaded scenarios with UUIDs `1 … n`, no triggers -/
def initWorld (n : Nat) : World :=
  { heap := ⟨[], []⟩, trigsOf := fun _ => [], sectOf := fun _ => [], live := fun u => decide (1 ≤ u ∧ u ≤ n) }

/-! ## reachability -/

/-- a reference into one of the two address spaces -/
inductive Ref | t (a : Addr) | c (a : Addr)
  deriving DecidableEq, Repr

/-- everything scenario `u` can reach: its triggers and their components -/
def reach (w : World) (u : Uid) : List Ref :=
  (w.trigsOf u).flatMap (fun a => Ref.t a :: (compsOf w.heap a).map Ref.c)

end Aoe.Heap
