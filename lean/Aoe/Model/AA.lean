/-!
# M-AA: armour/attack class+amount packing (C17)

Models `Effect._split_aa_value`, `Effect._merge_aa_values`, `_get_armour_attack_source`, the
armour/attack part of `Effect.__init__` (the "created through reading a scenario file" branches and the
`new_effect` branches), the `quantity` / `_variable_ref` reconstruction properties and the `quantity` setter
of `AoE2ScenarioParser/objects/data_objects/effect.py`.

Python facts used as model boundary (validated by the correspondence, exhaustively for the 8-bit layout):
* `v >> k` on Python ints is the floor shift – Lean's `Int.shiftRight` (`>>>`) has the same semantics.
* `v & (2^k - 1)` equals the floor modulus `v mod 2^k` – modelled as `v % 2^k` (`Int.emod`, non-negative for a
  positive modulus exactly like Python's `%` and `&` with a non-negative mask).
* the layout is chosen by the float comparison `trigger_version >= 2.5`; the model takes the Boolean.
-/
namespace Aoe.AA

/-- number of amount bits: 16 from trigger version 2.5 on, 8 before -/
def width (ge25 : Bool) : Nat := if ge25 then 16 else 8

/-- `_split_aa_value`: `(quantity >> k, quantity & (2^k - 1))` -/
def split (k : Nat) (v : Int) : Int × Int := (v >>> k, v % (2 ^ k : Int))

/-- `_merge_aa_values`: `aa_class * 2^k + aa_quantity` -/
def merge (k : Nat) (c q : Int) : Int := c * (2 ^ k : Int) + q

/-- which stored integer carries the packed pair -/
inductive Src | quantity | variable | none
  deriving DecidableEq, Repr

/-- the id sets `_get_armour_attack_source` tests against (read from the datasets by the harness) -/
structure Family where
  aaEffects   : List Int   -- CHANGE_OBJECT_ATTACK, CHANGE_OBJECT_ARMOR, CREATE_OBJECT_ATTACK, CREATE_OBJECT_ARMOR
  partialQ    : List Int   -- MODIFY_ATTRIBUTE
  partialV    : List Int   -- MODIFY_ATTRIBUTE_BY_VARIABLE, MODIFY_VARIABLE_BY_ATTRIBUTE
  aaAttrs     : List Int   -- ObjectAttribute.ATTACK, ObjectAttribute.ARMOR

def mem? (l : List Int) : Option Int → Bool
  | some v => l.contains v
  | Option.none => false

/-- `_get_armour_attack_source(effect_type, object_attributes)` -/
def source (f : Family) (et oa : Option Int) : Src :=
  if mem? f.aaEffects et || (mem? f.partialQ et && mem? f.aaAttrs oa) then .quantity
  else if mem? f.partialV et && mem? f.aaAttrs oa then .variable
  else .none

/-- the armour/attack relevant state of an `Effect` -/
structure Eff where
  src      : Src
  quantity : Option Int      -- `_quantity`
  aaClass  : Option Int      -- `armour_attack_class`
  aaQty    : Option Int      -- `armour_attack_quantity`
  var : Int             -- `variable`
  deriving DecidableEq, Repr

/-- `Effect.__init__` as called by `construct` (file → object): only `quantity` and `_variable_ref` carry data,
`armour_attack_class`, `armour_attack_quantity`, `variable` are `None`. -/
def ofStored (k : Nat) (s : Src) (quantity : Option Int) (varRef : Int) : Eff :=
  match s with
  | .variable =>
      let (c, v) := split k varRef
      { src := s, quantity := quantity, aaClass := some c, aaQty := Option.none, var := v }
  | .quantity =>
      match quantity with
      | some q =>
          let (c, a) := split k q
          { src := s, quantity := Option.none, aaClass := some c, aaQty := some a, var := varRef }
      | Option.none =>
          { src := s, quantity := Option.none, aaClass := Option.none, aaQty := Option.none, var := varRef }
  | .none => { src := s, quantity := quantity, aaClass := Option.none, aaQty := Option.none, var := varRef }

/-- errors the reconstruction properties can raise (`None * 65536` is a `TypeError`) -/
inductive Err | typeError
  deriving DecidableEq, Repr

/-- the `quantity` property (what `commit` writes to the `quantity` field) -/
def storedQuantity (k : Nat) (e : Eff) : Except Err (Option Int) :=
  match e.src with
  | .quantity =>
      match e.aaClass, e.aaQty with
      | some c, some a => .ok (some (merge k c a))
      | _, _ => .error .typeError
  | _ => .ok e.quantity

/-- the `_variable_ref` property (what `commit` writes to the `variable` field) -/
def storedVariable (k : Nat) (e : Eff) : Except Err Int :=
  match e.src with
  | .variable =>
      match e.aaClass with
      | some c => .ok (merge k c e.var)
      | Option.none => .error .typeError
  | _ => .ok e.var

/-- `Effect.__init__` with nothing but type and attribute supplied: a variable-based armour/attack effect starts with
class 0 (`armour_attack_class or 0`), everything else is unset -/
def fresh (s : Src) : Eff :=
  { src := s, quantity := Option.none, aaClass := (match s with | .variable => some 0 | _ => Option.none),
    aaQty := Option.none, var := -1 }

/-- `Effect.__init__` as called through `new_effect` with explicit class and amount (quantity source) -/
def ofPair (c a : Int) (varRef : Int) : Eff :=
  { src := .quantity, quantity := Option.none, aaClass := some c, aaQty := some a, var := varRef }

/-- `Effect.__init__` through `new_effect` with explicit class and variable (variable source) -/
def ofPairVar (c v : Int) (quantity : Option Int) : Eff :=
  { src := .variable, quantity := quantity, aaClass := some c, aaQty := Option.none, var := v }

/-- the `quantity` setter with a non-`None` value -/
def setQuantity (k : Nat) (e : Eff) (v : Int) : Eff :=
  match e.src with
  | .quantity => let (c, a) := split k v; { e with aaClass := some c, aaQty := some a, quantity := some v }
  | _ => { e with quantity := some v }

/-- the `effect_type` / `object_attributes` setters: both call `_update_armour_attack_flag`, which re-derives the
source family from the (new) type and attribute; nothing else changes -/
def retarget (f : Family) (e : Eff) (et oa : Option Int) : Eff := { e with src := source f et oa }

/-- the `armour_attack_class` / `armour_attack_quantity` / `variable` setters (plain assignments) -/
def setClass (e : Eff) (c : Int) : Eff := { e with aaClass := some c }
def setAmount (e : Eff) (a : Int) : Eff := { e with aaQty := some a }
def setVar (e : Eff) (v : Int) : Eff := { e with var := v }

end Aoe.AA
