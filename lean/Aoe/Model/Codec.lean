import Aoe.Model.Bytes
/-!
# M2/M3 – the structure codec: values, environments, dependency expressions, codec combinators with laws

Transcribes the table interpreter of the library:
`AoE2FileSection.set_data_from_generator / get_data_as_bytes / _create_struct`, `Retriever.get_data_as_bytes /
set_data_from_bytes / update_datatype_repeat`, `bytes_parser.vorl / retrieve_bytes`, `dependency.py`
(`handle_retriever_dependency` in state "construct", `execute_dependency_eval`, `select_retriever`),
`AoE2Scenario._load_header_section / _load_content_sections / _write_from_structure` (DESIGN Appendix B.1, B.2).

A *codec* bundles an encoder, a decoder, a consistency predicate and the law
  `dec_enc` (P∘S):  `ok γ v → enc v = ok b → dec γ (b ++ rest) = ok (v, rest)`
(decoding is a left inverse of encoding on consistent values, whatever follows in the input).
Every combinator proves the law from those of its parts, so the codec obtained by interpreting ANY generated
`structure.json` table has them by construction (no per-version proof, nothing can be forgotten for a version).

The encoder never looks at the environment: `get_data_as_bytes` dumps the data it holds (the repeat count follows
the list length, `update_datatype_repeat`); only the decoder evaluates dependency expressions.
-/
namespace Aoe.Codec
open Aoe Aoe.Bytes

/-- untyped value tree. A Python `str` is carried as its UTF-8 bytes, a float as its raw 4/8 bytes. -/
inductive Val where
  | int   (i : Int)
  | flt   (b : Bytes)
  | data  (b : Bytes)
  | str   (b : Bytes)
  | none
  | list  (vs : List Val)
  | strct (vs : List Val)
  deriving Inhabited

abbrev Rec := List (Nat × Val)

/-- what a dependency expression can see: the finished top-level sections, the fields read so far of the top-level
section in progress (`root`) and of the record in progress (`self`; equal to `root` at top level) -/
structure Env where
  secs : List (Nat × Rec) := []
  root : Rec := []
  self : Rec := []

def Rec.get? (r : Rec) (n : Nat) : Option Val := (r.find? (fun p => p.1 == n)).map (·.2)

/-- a resolved dependency target: `self:x`, `<section in progress>:x`, `<finished section>:x` -/
inductive Ref
  | self (n : Nat)
  | root (n : Nat)
  | sec (s n : Nat)
  deriving Repr

def Env.lookup (γ : Env) : Ref → Except Err Val
  | .self n => match γ.self.get? n with | some v => .ok v | Option.none => .error .attr
  | .root n => match γ.root.get? n with | some v => .ok v | Option.none => .error .attr
  | .sec s n =>
    match (γ.secs.find? (fun p => p.1 == s)).map (·.2) with
    | some r => match Rec.get? r n with | some v => .ok v | Option.none => .error .attr
    | Option.none => .error .attr

/-- comparison operators of the `eval` strings -/
inductive Cmp | le | ge | eq | ne | gt | lt
  deriving Repr

def Cmp.evalInt : Cmp → Int → Int → Bool
  | .le, a, b => a ≤ b | .ge, a, b => a ≥ b | .eq, a, b => a == b
  | .ne, a, b => a != b | .gt, a, b => a > b | .lt, a, b => a < b

def Cmp.evalFloat : Cmp → Float → Float → Bool
  | .le, a, b => a ≤ b | .ge, a, b => a ≥ b | .eq, a, b => a == b
  | .ne, a, b => a != b | .gt, a, b => a > b | .lt, a, b => a < b

/-- the float a `Val.flt` stands for (f32 widened to double like `struct.unpack('f')`) -/
def fltOf (b : Bytes) : Float :=
  if b.length == 4 then (Float32.ofBits (UInt32.ofNat (decNat b))).toFloat
  else Float.ofBits (UInt64.ofNat (decNat b))

mutual
/-- the whitelisted shapes of the `eval` strings of `structure.json` -/
inductive Expr
  | ref (r : Ref)
  | lit (i : Int)
  | litF (f : Float)
  | litS (b : Bytes)
  | len (e : Expr)
  | mul (a b : Expr)
  | idx (e : Expr) (i : Nat)                     -- `x[i]`
  | ite (c : Cond) (a b : Expr)                  -- `a if c else b`
  | isqrtLen (e : Expr)                          -- `int(math.sqrt(len(x)))`
  | lens (rs : List Ref) (zeros : Nat)           -- `[len(x) for x in [..]] + [0]*zeros`
  | cat (a b : Expr)                             -- string `+`
inductive Cond
  | fcmp (op : Cmp) (e : Expr) (lit : Float) (round2 : Bool)   -- float compare against a literal (opt. `round(x, 2)`)
  | icmp (op : Cmp) (a b : Expr)
  | truthy (e : Expr)
  | isList (e : Expr)                            -- `type(x) is list`
  | neEmptyList (e : Expr)                       -- `x != []`
end

/-- Python truthiness of a value -/
def truthy : Val → Bool
  | .int i => i != 0
  | .flt b => fltOf b != 0.0
  | .data b => !b.isEmpty
  | .str b => !b.isEmpty
  | .none => false
  | .list vs => !vs.isEmpty
  | .strct _ => true

def lenOf : Val → Except Err Int
  | .list vs => .ok vs.length
  | .data b => .ok b.length
  | .str b => .ok (charCount b)
  | _ => .error .type

mutual
def Expr.eval (γ : Env) : Expr → Except Err Val
  | .ref r => γ.lookup r
  | .lit i => .ok (.int i)
  | .litF f => .ok (.flt (encNat 8 f.toBits.toNat))
  | .litS b => .ok (.str b)
  | .len e => do let v ← e.eval γ; let n ← lenOf v; pure (.int n)
  | .mul a b => do
      let x ← a.eval γ; let y ← b.eval γ
      match x, y with
      | .int i, .int j => pure (.int (i * j))
      | _, _ => throw .type
  | .idx e i => do
      let v ← e.eval γ
      match v with
      | .list vs => match vs[i]? with | some x => pure x | Option.none => throw .value
      | _ => throw .type
  | .ite c a b => do let t ← c.eval γ; if t then a.eval γ else b.eval γ
  | .isqrtLen e => do let v ← e.eval γ; let n ← lenOf v; pure (.int (Nat.sqrt n.toNat))
  | .lens rs zeros => do
      let ls ← rs.mapM (fun r => do let v ← γ.lookup r; let n ← lenOf v; pure (Val.int n))
      pure (.list (ls ++ List.replicate zeros (.int 0)))
  | .cat a b => do
      let x ← a.eval γ; let y ← b.eval γ
      match x, y with
      | .str s, .str t => pure (.str (s ++ t))
      | _, _ => throw .type
def Cond.eval (γ : Env) : Cond → Except Err Bool
  | .fcmp op e lit round2 => do
      let v ← e.eval γ
      match v with
      | .flt b =>
        -- `round(x, 2) >= 2` for an f32 value x holds iff x >= 1.995 (no f32 lies in the rounding gap); see DESIGN §3
        let x := fltOf b
        pure (if round2 then op.evalFloat x (lit - 0.005) else op.evalFloat x lit)
      | .int i => pure (op.evalFloat (Float.ofInt i) lit)
      | _ => throw .type
  | .icmp op a b => do
      let x ← a.eval γ; let y ← b.eval γ
      match x, y with
      | .int i, .int j => pure (op.evalInt i j)
      | _, _ => throw .type
  | .truthy e => do let v ← e.eval γ; pure (truthy v)
  | .isList e => do let v ← e.eval γ; pure (match v with | .list _ => true | _ => false)
  | .neEmptyList e => do let v ← e.eval γ; pure (match v with | .list [] => false | _ => true)
end

/-- how the repeat count of a retriever is obtained while parsing (B.1 steps 1–2) -/
inductive Count
  | static (n : Int)          -- no `on_construct` (or a `SET_VALUE` refresh): the table's `repeat`
  | expr (e : Expr)           -- `SET_REPEAT` with this eval (directly or through `REFRESH_SELF`)
  | bad                       -- a list of `on_refresh` entries executed at construct time: AttributeError

def Count.eval (γ : Env) : Count → Except Err Int
  | .static n => .ok n
  | .expr e => do
      let v ← e.eval γ
      match v with
      | .int i => pure i
      | _ => throw .type            -- `DataType.repeat` setter: "Repeat value must be an integer"
  | .bad => .error .attr

/-! ## item codecs -/

/-- a codec for one item, with its laws -/
structure ICodec where
  enc : Val → Except Err Bytes
  dec : Env → Bytes → Except Err (Val × Bytes)
  ok  : Env → Val → Prop
  okB : Env → Val → Bool
  dec_enc : ∀ (γ : Env) (v : Val) (b rest : Bytes), ok γ v → enc v = .ok b → dec γ (b ++ rest) = .ok (v, rest)
  okB_sound : ∀ (γ : Env) (v : Val), okB γ v = true → ok γ v

/-! ### integers -/

/-- `sN`/`uN` leaf -/
def intC (signed : Bool) (n : Nat) : ICodec where
  enc v := match v with
    | .int i => if signed then encSInt n i else encUInt n i
    | _ => .error .type
  dec _ bs := do
    let (b, rest) ← take n bs
    pure (.int (if signed then decSInt b else decUInt b), rest)
  ok _ v := ∃ i, v = .int i
  okB _ v := match v with | .int _ => true | _ => false
  okB_sound := by intro γ v h; cases v <;> simp at h; exact ⟨_, rfl⟩
  dec_enc := by
    intro γ v b rest hok henc
    obtain ⟨i, rfl⟩ := hok
    simp only at henc
    have hlen : b.length = n ∧ (if signed then decSInt b else decUInt b) = i := by
      cases signed
      · simp only [Bool.false_eq_true, if_false] at henc ⊢
        have := decUInt_encUInt n i b henc; exact ⟨this.2, this.1⟩
      · simp only [if_true] at henc ⊢
        have := decSInt_encSInt n i b henc; exact ⟨this.2, this.1⟩
    have ht : take n (b ++ rest) = .ok (b, rest) := by rw [← hlen.1]; exact take_append b rest
    simp only [ht, bind, Except.bind, pure, Except.pure, hlen.2]

/-! ### raw blocks: floats (`f32`/`f64` as raw bytes) and `data` -/

def rawC (isFlt : Bool) (n : Nat) : ICodec where
  enc v := match v with
    | .flt b => if isFlt then .ok b else .error .type
    | .data b => if isFlt then .error .type else .ok b
    | _ => .error .type
  dec _ bs := do
    let (b, rest) ← take n bs
    pure (if isFlt then .flt b else .data b, rest)
  ok _ v := ∃ b, b.length = n ∧ v = (if isFlt then .flt b else .data b)
  okB _ v := match v with
    | .flt b => isFlt && b.length == n
    | .data b => !isFlt && b.length == n
    | _ => false
  okB_sound := by
    intro γ v h
    cases v <;> simp at h
    · rename_i b; exact ⟨b, h.2, by simp [h.1]⟩
    · rename_i b; exact ⟨b, h.2, by simp [h.1]⟩
  dec_enc := by
    intro γ v b rest hok henc
    obtain ⟨b', hl, rfl⟩ := hok
    have : b = b' := by cases isFlt <;> simp at henc <;> exact henc.symm
    subst this
    have ht : take n (b ++ rest) = .ok (b, rest) := by rw [← hl]; exact take_append b rest
    simp [ht, bind, Except.bind, pure, Except.pure]

/-! ### length-prefixed strings `strN` -/

/-- string consistency: what survives a save/load unchanged (valid UTF-8, no trailing NUL of its own) -/
def strOk (s : Bytes) : Prop := validUtf8 s = true ∧ endsNul s = false

/-- payload written for string `s`: `add_str_trail` unless the retriever is in the no-trail list -/
def strPayload (trail : Bool) (s : Bytes) : Bytes := if trail then addNul s else s

theorem decodeStr_payload (trail : Bool) (s : Bytes) (h : strOk s) : decodeStr (strPayload trail s) = s := by
  obtain ⟨hv, hn⟩ := h
  unfold decodeStr strPayload
  cases trail
  · simp [stripNul_of_not s hn, hv]
  · simp [stripNul_addNul s hn, hv]

def encPStr (w : Nat) (trail : Bool) (s : Bytes) : Except Err Bytes := do
  let p := strPayload trail s
  let pre ← encSInt w p.length
  pure (pre ++ p)

def pstrC (w : Nat) (trail : Bool) : ICodec where
  enc v := match v with
    | .str s => encPStr w trail s
    | .data s => encPStr w trail s          -- a `bytes` object is written as it is
    | _ => .error .attr
  dec _ bs := do
    let (pre, r1) ← take w bs
    let (p, r2) ← take (decSInt pre).toNat r1
    pure (.str (decodeStr p), r2)
  ok _ v := ∃ s, v = .str s ∧ strOk s
  okB _ v := match v with | .str s => validUtf8 s && !endsNul s | _ => false
  okB_sound := by
    intro γ v h
    cases v <;> simp at h
    rename_i s; exact ⟨s, rfl, h.1, h.2⟩
  dec_enc := by
    intro γ v b rest hok henc
    obtain ⟨s, rfl, hs⟩ := hok
    simp only [encPStr, bind, Except.bind] at henc
    cases hp : encSInt w (strPayload trail s).length with
    | error e => rw [hp] at henc; cases henc
    | ok pre =>
      rw [hp] at henc
      simp only [pure, Except.pure, Except.ok.injEq] at henc
      subst henc
      have hd := decSInt_encSInt w _ pre hp
      have t1 : take w (pre ++ strPayload trail s ++ rest) = .ok (pre, strPayload trail s ++ rest) := by
        rw [List.append_assoc, ← hd.2]; exact take_append _ _
      have t2 : take (decSInt pre).toNat (strPayload trail s ++ rest) = .ok (strPayload trail s, rest) := by
        rw [hd.1]; simpa using take_append (strPayload trail s) rest
      simp only [t1, t2, bind, Except.bind, pure, Except.pure, decodeStr_payload trail s hs]

/-! ### fixed-width strings `cN` -/

/-- `fixed_chars_to_bytes` behind the guard of `parse_val_to_bytes`. `byteGuard = true` is the code after the repair of
defect F9 (`len(str_to_bytes(val)) > var_len`); `byteGuard = false` is the originally pinned guard, which counted
CHARACTERS (`len(val)`) – the padding `b"\\0" * (n - len(bytes))` is empty when negative, so multi-byte text could exceed
its field. -/
def encChars (byteGuard : Bool) (n : Nat) (s : Bytes) : Except Err Bytes :=
  if (if byteGuard then s.length else charCount s) > n then .error .value
  else .ok (s ++ List.replicate (n - s.length) 0)

def charsC (n : Nat) : ICodec where
  enc v := match v with
    | .str s => encChars true n s
    | _ => .error .type
  dec _ bs := do
    let (b, rest) ← take n bs
    let c := cutNul b
    pure (.str (if validUtf8 c then c else latin1ToUtf8 c), rest)
  ok _ v := ∃ s, v = .str s ∧ s.length ≤ n ∧ noNul s = true ∧ validUtf8 s = true
  okB _ v := match v with | .str s => decide (s.length ≤ n) && noNul s && validUtf8 s | _ => false
  okB_sound := by
    intro γ v h
    cases v <;> simp at h
    rename_i s; exact ⟨s, rfl, h.1.1, h.1.2, h.2⟩
  dec_enc := by
    intro γ v b rest hok henc
    obtain ⟨s, rfl, hl, hn, hv⟩ := hok
    simp only [encChars, if_true] at henc
    split at henc
    · cases henc
    · simp only [Except.ok.injEq] at henc
      subst henc
      have hlen : (s ++ List.replicate (n - s.length) 0).length = n := by simp; omega
      have ht : take n (s ++ List.replicate (n - s.length) 0 ++ rest)
          = .ok (s ++ List.replicate (n - s.length) 0, rest) := by
        conv => lhs; arg 1; rw [← hlen]
        exact take_append _ _
      simp only [ht, bind, Except.bind, pure, Except.pure, cutNul_append_zeros s _ hn, hv, if_true]

/-! ## fields: repeat counts, lists, value-or-list -/

def decMany (c : ICodec) (γ : Env) : Nat → Bytes → Except Err (List Val × Bytes)
  | 0, bs => .ok ([], bs)
  | k + 1, bs => do
    let (v, r) ← c.dec γ bs
    let (vs, r') ← decMany c γ k r
    pure (v :: vs, r')

def encMany (c : ICodec) : List Val → Except Err Bytes
  | [] => .ok []
  | v :: vs => do
    let b ← c.enc v
    let bs ← encMany c vs
    pure (b ++ bs)

theorem decMany_encMany (c : ICodec) (γ : Env) (vs : List Val) (b rest : Bytes)
    (hok : ∀ v ∈ vs, c.ok γ v) (henc : encMany c vs = .ok b) :
    decMany c γ vs.length (b ++ rest) = .ok (vs, rest) := by
  induction vs generalizing b with
  | nil => simp only [encMany, Except.ok.injEq] at henc; subst henc; rfl
  | cons v vs ih =>
    simp only [encMany, bind, Except.bind] at henc
    cases h1 : c.enc v with
    | error e => rw [h1] at henc; cases henc
    | ok b1 =>
      rw [h1] at henc
      simp only at henc
      cases h2 : encMany c vs with
      | error e => rw [h2] at henc; cases henc
      | ok b2 =>
        rw [h2] at henc
        simp only [pure, Except.pure, Except.ok.injEq] at henc
        subst henc
        have d1 := c.dec_enc γ v b1 (b2 ++ rest) (hok v (by simp)) h1
        have d2 := ih b2 (fun x hx => hok x (by simp [hx])) h2
        simp only [List.length_cons, decMany, List.append_assoc, d1, d2, bind, Except.bind, pure, Except.pure]

/-- `bytes_parser.vorl` -/
def vorl (n : Int) (isList : Option Bool) (items : List Val) : Val :=
  if n ≠ 1 then .list items
  else match isList, items with
    | some true, _ => .list items
    | some false, x :: _ => x
    | Option.none, [x] => x
    | _, _ => .list items

/-- a value of the scalar constructors (what a leaf item can be) -/
def Val.isScalar : Val → Bool
  | .list _ => false
  | .none => false
  | _ => true

/-- a field = item codec + how its repeat count is found + `is_list` + whether the item is a struct -/
structure FCodec where
  enc : Val → Except Err Bytes
  dec : Env → Bytes → Except Err (Val × Bytes)
  ok  : Env → Val → Prop
  okB : Env → Val → Bool
  dec_enc : ∀ (γ : Env) (v : Val) (b rest : Bytes), ok γ v → enc v = .ok b → dec γ (b ++ rest) = .ok (v, rest)
  okB_sound : ∀ (γ : Env) (v : Val), okB γ v = true → ok γ v

/-- `Retriever.get_data_as_bytes`: a list is dumped element by element (the count follows its length), `None`
writes nothing, anything else is one item -/
def fieldEnc (c : ICodec) : Val → Except Err Bytes
  | .list vs => encMany c vs
  | .none => .ok []
  | v => c.enc v

def fieldDec (c : ICodec) (cnt : Count) (isList : Option Bool) (isStruct : Bool) (γ : Env) (bs : Bytes) :
    Except Err (Val × Bytes) := do
  let n ← cnt.eval γ
  let (items, rest) ← decMany c γ n.toNat bs
  pure (if isStruct then .list items else vorl n isList items, rest)

def fieldOk (c : ICodec) (cnt : Count) (isList : Option Bool) (isStruct : Bool) (γ : Env) (v : Val) : Prop :=
  ∃ n, cnt.eval γ = .ok n ∧
    match v with
    | .list vs => vs.length = n.toNat ∧ (∀ x ∈ vs, c.ok γ x) ∧ (isStruct = true ∨ n ≠ 1 ∨ isList = some true)
    | .none => False
    | x => isStruct = false ∧ n = 1 ∧ isList ≠ some true ∧ c.ok γ x

theorem fieldDec_scalar (c : ICodec) (cnt : Count) (isList : Option Bool) (γ : Env) (x : Val) (b rest : Bytes)
    (hn : cnt.eval γ = .ok 1) (hl : isList ≠ some true) (hx : c.ok γ x) (he : c.enc x = .ok b) :
    fieldDec c cnt isList false γ (b ++ rest) = .ok (x, rest) := by
  have d := c.dec_enc γ x b rest hx he
  have dm : decMany c γ (1 : Int).toNat (b ++ rest) = .ok ([x], rest) := by
    show decMany c γ 1 (b ++ rest) = _
    simp only [decMany, d, bind, Except.bind, pure, Except.pure]
  unfold fieldDec
  simp only [hn, dm, bind, Except.bind, pure, Except.pure, Bool.false_eq_true, if_false]
  congr 2
  unfold vorl
  simp only [ne_eq, not_true_eq_false, if_false]
  cases isList with
  | none => rfl
  | some bb => cases bb with
    | true => exact absurd rfl hl
    | false => rfl

theorem fieldDec_list (c : ICodec) (cnt : Count) (isList : Option Bool) (isStruct : Bool) (γ : Env)
    (vs : List Val) (n : Int) (b rest : Bytes)
    (hn : cnt.eval γ = .ok n) (hlen : vs.length = n.toNat) (hall : ∀ x ∈ vs, c.ok γ x)
    (hshape : isStruct = true ∨ n ≠ 1 ∨ isList = some true) (he : encMany c vs = .ok b) :
    fieldDec c cnt isList isStruct γ (b ++ rest) = .ok (.list vs, rest) := by
  have d := decMany_encMany c γ vs b rest hall he
  unfold fieldDec
  rw [hlen] at d
  simp only [hn, d, bind, Except.bind, pure, Except.pure]
  congr 2
  rcases hshape with hs | hne | hl
  · simp [hs]
  · cases isStruct <;> simp [vorl, hne]
  · cases isStruct <;> simp [vorl, hl]

def fieldOkB (c : ICodec) (cnt : Count) (isList : Option Bool) (isStruct : Bool) (γ : Env) (v : Val) : Bool :=
  match cnt.eval γ with
  | .error _ => false
  | .ok n =>
    match v with
    | .list vs => decide (vs.length = n.toNat) && vs.all (c.okB γ) && (isStruct || decide (n ≠ 1) || isList == some true)
    | .none => false
    | x => !isStruct && decide (n = 1) && !(isList == some true) && c.okB γ x

theorem fieldOkB_sound (c : ICodec) (cnt : Count) (isList : Option Bool) (isStruct : Bool) (γ : Env) (v : Val)
    (h : fieldOkB c cnt isList isStruct γ v = true) : fieldOk c cnt isList isStruct γ v := by
  unfold fieldOkB at h
  cases hn : cnt.eval γ with
  | error e => rw [hn] at h; cases h
  | ok n =>
    rw [hn] at h
    refine ⟨n, hn, ?_⟩
    have sc : ∀ x : Val, (!isStruct && decide (n = 1) && !(isList == some true) && c.okB γ x) = true →
        isStruct = false ∧ n = 1 ∧ isList ≠ some true ∧ c.ok γ x := by
      intro x hx
      simp only [Bool.and_eq_true, Bool.not_eq_true', decide_eq_true_eq, beq_eq_false_iff_ne, ne_eq] at hx
      exact ⟨hx.1.1.1, hx.1.1.2, hx.1.2, c.okB_sound γ x hx.2⟩
    cases v with
    | list vs =>
      simp only [Bool.and_eq_true, decide_eq_true_eq, List.all_eq_true, Bool.or_eq_true, beq_iff_eq] at h
      exact ⟨h.1.1, fun x hx => c.okB_sound γ x (h.1.2 x hx), by
        rcases h.2 with (h' | h') | h'
        · exact Or.inl h'
        · exact Or.inr (Or.inl h')
        · exact Or.inr (Or.inr h')⟩
    | none => cases h
    | int i => exact sc _ h
    | flt i => exact sc _ h
    | data i => exact sc _ h
    | str i => exact sc _ h
    | strct i => exact sc _ h

def field (c : ICodec) (cnt : Count) (isList : Option Bool) (isStruct : Bool) : FCodec where
  enc := fieldEnc c
  dec := fieldDec c cnt isList isStruct
  ok := fieldOk c cnt isList isStruct
  okB := fieldOkB c cnt isList isStruct
  okB_sound := fieldOkB_sound c cnt isList isStruct
  dec_enc := by
    intro γ v b rest hok henc
    obtain ⟨n, hn, hv⟩ := hok
    cases v with
    | list vs =>
      obtain ⟨hlen, hall, hshape⟩ := hv
      exact fieldDec_list c cnt isList isStruct γ vs n b rest hn hlen hall hshape henc
    | none => exact absurd hv id
    | int i => obtain ⟨hs, h1, hl, hx⟩ := hv; subst hs h1; exact fieldDec_scalar c cnt isList γ _ b rest hn hl hx henc
    | flt i => obtain ⟨hs, h1, hl, hx⟩ := hv; subst hs h1; exact fieldDec_scalar c cnt isList γ _ b rest hn hl hx henc
    | data i => obtain ⟨hs, h1, hl, hx⟩ := hv; subst hs h1; exact fieldDec_scalar c cnt isList γ _ b rest hn hl hx henc
    | str i => obtain ⟨hs, h1, hl, hx⟩ := hv; subst hs h1; exact fieldDec_scalar c cnt isList γ _ b rest hn hl hx henc
    | strct i => obtain ⟨hs, h1, hl, hx⟩ := hv; subst hs h1; exact fieldDec_scalar c cnt isList γ _ b rest hn hl hx henc

/-! ## records (sections and structs) -/

/-- extend the environment with a field just read: a top-level section record is both `self` and `root` -/
def Env.push (γ : Env) (top : Bool) (name : Nat) (v : Val) : Env :=
  { secs := γ.secs,
    root := if top then γ.root ++ [(name, v)] else γ.root,
    self := γ.self ++ [(name, v)] }

/-- environment at the start of a record: a nested struct sees the section in progress as `root` and nothing of its
parent struct; a top-level section starts empty -/
def Env.enter (γ : Env) (top : Bool) : Env :=
  if top then { secs := γ.secs, root := [], self := [] } else { secs := γ.secs, root := γ.root, self := [] }

def recDec (top : Bool) : List (Nat × FCodec) → Env → Bytes → Except Err (List Val × Bytes)
  | [], _, bs => .ok ([], bs)
  | (nm, f) :: fs, γ, bs => do
    let (v, r) ← f.dec γ bs
    let (vs, r') ← recDec top fs (γ.push top nm v) r
    pure (v :: vs, r')

def recEnc : List (Nat × FCodec) → List Val → Except Err Bytes
  | [], [] => .ok []
  | (_, f) :: fs, v :: vs => do
    let b ← f.enc v
    let bs ← recEnc fs vs
    pure (b ++ bs)
  | _, _ => .error .shape

def recOk (top : Bool) : List (Nat × FCodec) → Env → List Val → Prop
  | [], _, [] => True
  | (nm, f) :: fs, γ, v :: vs => f.ok γ v ∧ recOk top fs (γ.push top nm v) vs
  | _, _, _ => False

def recOkB (top : Bool) : List (Nat × FCodec) → Env → List Val → Bool
  | [], _, [] => true
  | (nm, f) :: fs, γ, v :: vs => f.okB γ v && recOkB top fs (γ.push top nm v) vs
  | _, _, _ => false

theorem recOkB_sound (top : Bool) (fs : List (Nat × FCodec)) (γ : Env) (vs : List Val)
    (h : recOkB top fs γ vs = true) : recOk top fs γ vs := by
  induction fs generalizing γ vs with
  | nil => cases vs with
    | nil => trivial
    | cons v vs => cases h
  | cons nf fs ih =>
    obtain ⟨nm, f⟩ := nf
    cases vs with
    | nil => cases h
    | cons v vs =>
      simp only [recOkB, Bool.and_eq_true] at h
      exact ⟨f.okB_sound γ v h.1, ih _ _ h.2⟩

theorem recDec_recEnc (top : Bool) (fs : List (Nat × FCodec)) (γ : Env) (vs : List Val) (b rest : Bytes)
    (hok : recOk top fs γ vs) (henc : recEnc fs vs = .ok b) :
    recDec top fs γ (b ++ rest) = .ok (vs, rest) := by
  induction fs generalizing γ vs b with
  | nil =>
    cases vs with
    | nil => simp only [recEnc, Except.ok.injEq] at henc; subst henc; rfl
    | cons v vs => cases henc
  | cons nf fs ih =>
    obtain ⟨nm, f⟩ := nf
    cases vs with
    | nil => cases henc
    | cons v vs =>
      obtain ⟨h1, h2⟩ := hok
      simp only [recEnc, bind, Except.bind] at henc
      cases e1 : f.enc v with
      | error e => rw [e1] at henc; cases henc
      | ok b1 =>
        rw [e1] at henc
        simp only at henc
        cases e2 : recEnc fs vs with
        | error e => rw [e2] at henc; cases henc
        | ok b2 =>
          rw [e2] at henc
          simp only [pure, Except.pure, Except.ok.injEq] at henc
          subst henc
          have d1 := f.dec_enc γ v b1 (b2 ++ rest) h1 e1
          have d2 := ih (γ.push top nm v) vs b2 h2 e2
          simp only [recDec, List.append_assoc, d1, d2, bind, Except.bind, pure, Except.pure]

/-- a record (a section when `top`, a struct otherwise) as an item codec -/
def record (top : Bool) (fs : List (Nat × FCodec)) : ICodec where
  enc v := match v with
    | .strct vs => recEnc fs vs
    | _ => .error .shape
  dec γ bs := do
    let (vs, r) ← recDec top fs (γ.enter top) bs
    pure (.strct vs, r)
  ok γ v := ∃ vs, v = .strct vs ∧ recOk top fs (γ.enter top) vs
  okB γ v := match v with | .strct vs => recOkB top fs (γ.enter top) vs | _ => false
  okB_sound := by
    intro γ v h
    cases v <;> simp at h
    rename_i vs; exact ⟨vs, rfl, recOkB_sound top fs _ vs h⟩
  dec_enc := by
    intro γ v b rest hok henc
    obtain ⟨vs, rfl, h⟩ := hok
    have d := recDec_recEnc top fs (γ.enter top) vs b rest h henc
    simp only [d, bind, Except.bind, pure, Except.pure]

/-! ## files: a sequence of top-level sections, each seeing the finished ones -/

/-- the record of a section as `Rec` (names zipped with values) for the environment of later sections -/
def mkRec (fs : List (Nat × FCodec)) (vs : List Val) : Rec := (fs.map (·.1)).zip vs

structure Section where
  name : Nat
  fields : List (Nat × FCodec)

def secsDec : List Section → List (Nat × Rec) → Bytes → Except Err (List Val × Bytes)
  | [], _, bs => .ok ([], bs)
  | s :: ss, done, bs => do
    let (vs, r) ← recDec true s.fields { secs := done, root := [], self := [] } bs
    let (ts, r') ← secsDec ss (done ++ [(s.name, mkRec s.fields vs)]) r
    pure (.strct vs :: ts, r')

def secsEnc : List Section → List Val → Except Err Bytes
  | [], [] => .ok []
  | s :: ss, .strct vs :: ts => do
    let b ← recEnc s.fields vs
    let bs ← secsEnc ss ts
    pure (b ++ bs)
  | _, _ => .error .shape

def secsOk : List Section → List (Nat × Rec) → List Val → Prop
  | [], _, [] => True
  | s :: ss, done, .strct vs :: ts =>
      recOk true s.fields { secs := done, root := [], self := [] } vs ∧
      secsOk ss (done ++ [(s.name, mkRec s.fields vs)]) ts
  | _, _, _ => False

def secsOkB : List Section → List (Nat × Rec) → List Val → Bool
  | [], _, [] => true
  | s :: ss, done, .strct vs :: ts =>
      recOkB true s.fields { secs := done, root := [], self := [] } vs &&
      secsOkB ss (done ++ [(s.name, mkRec s.fields vs)]) ts
  | _, _, _ => false

theorem secsOkB_sound (ss : List Section) (done : List (Nat × Rec)) (ts : List Val)
    (h : secsOkB ss done ts = true) : secsOk ss done ts := by
  induction ss generalizing done ts with
  | nil => cases ts with
    | nil => trivial
    | cons t ts => cases h
  | cons s ss ih =>
    cases ts with
    | nil => cases h
    | cons t ts =>
      cases t <;> try (cases h; done)
      rename_i vs
      simp only [secsOkB, Bool.and_eq_true] at h
      exact ⟨recOkB_sound true _ _ vs h.1, ih _ _ h.2⟩

theorem secsDec_secsEnc (ss : List Section) (done : List (Nat × Rec)) (ts : List Val) (b rest : Bytes)
    (hok : secsOk ss done ts) (henc : secsEnc ss ts = .ok b) :
    secsDec ss done (b ++ rest) = .ok (ts, rest) := by
  induction ss generalizing done ts b with
  | nil =>
    cases ts with
    | nil => simp only [secsEnc, Except.ok.injEq] at henc; subst henc; rfl
    | cons t ts => cases henc
  | cons s ss ih =>
    cases ts with
    | nil => cases henc
    | cons t ts =>
      cases t with
      | strct vs =>
        obtain ⟨h1, h2⟩ := hok
        simp only [secsEnc, bind, Except.bind] at henc
        cases e1 : recEnc s.fields vs with
        | error e => rw [e1] at henc; cases henc
        | ok b1 =>
          rw [e1] at henc
          simp only at henc
          cases e2 : secsEnc ss ts with
          | error e => rw [e2] at henc; cases henc
          | ok b2 =>
            rw [e2] at henc
            simp only [pure, Except.pure, Except.ok.injEq] at henc
            subst henc
            have d1 := recDec_recEnc true s.fields _ vs b1 (b2 ++ rest) h1 e1
            have d2 := ih _ ts b2 h2 e2
            simp only [secsDec, List.append_assoc, d1, d2, bind, Except.bind, pure, Except.pure]
      | int _ => cases henc
      | flt _ => cases henc
      | data _ => cases henc
      | str _ => cases henc
      | none => cases henc
      | list _ => cases henc

/-- a whole version table: the header section (stored plain) and the body sections (stored deflated); the
`__END_OF_FILE_MARK__` retriever that ends the last section is handled by `parseFile` itself -/
structure Table where
  header : Section
  body : List Section
  hasEof : Bool := true      -- versions 1.36/1.37/1.40 have no end-of-file mark: left-over bytes go unnoticed

/-- the decoded file: header record, body records, and what the end-of-file mark holds (`[]` when the body was
consumed exactly, otherwise the first left-over byte, like the library) -/
structure Tree where
  header : List Val
  body : List Val
  eofMark : Val := .list []

def serializeHeader (t : Table) (tr : Tree) : Except Err Bytes := recEnc t.header.fields tr.header

/-- `_write_from_structure`: the bytes of the header section and the (still uncompressed) body -/
def serializeBody (t : Table) (tr : Tree) : Except Err Bytes := do
  let b ← secsEnc t.body tr.body
  let m ← fieldEnc (rawC false 1) tr.eofMark
  pure (b ++ m)

/-- `_load_header_section` on the raw file: returns the header record and the rest (the deflated body) -/
def parseHeader (t : Table) (raw : Bytes) : Except Err (List Val × Bytes) :=
  recDec true t.header.fields {} raw

/-- `_load_content_sections` on the inflated body -/
def parseBody (t : Table) (hdr : List Val) (body : Bytes) : Except Err (List Val × Val × Bytes) := do
  let (ts, r) ← secsDec t.body [(t.header.name, mkRec t.header.fields hdr)] body
  match r with
  | [] => pure (ts, .list [], [])
  | b :: rest =>
    if t.hasEof then pure (ts, .data [b], rest)   -- extra bytes: the library keeps one and reports the others
    else pure (ts, .list [], b :: rest)           -- no mark in this version: the rest is silently ignored

/-- consistency of a whole tree: every count equals the number of stored elements, every item fits its type,
every string is in normal form, and nothing follows the last section -/
def Consistent (t : Table) (tr : Tree) : Prop :=
  recOk true t.header.fields {} tr.header ∧
  secsOk t.body [(t.header.name, mkRec t.header.fields tr.header)] tr.body ∧
  tr.eofMark = .list []

def consistentB (t : Table) (tr : Tree) : Bool :=
  recOkB true t.header.fields {} tr.header &&
  secsOkB t.body [(t.header.name, mkRec t.header.fields tr.header)] tr.body &&
  (match tr.eofMark with | .list [] => true | _ => false)

theorem consistentB_sound (t : Table) (tr : Tree) (h : consistentB t tr = true) : Consistent t tr := by
  simp only [consistentB, Bool.and_eq_true] at h
  refine ⟨recOkB_sound _ _ _ _ h.1.1, secsOkB_sound _ _ _ h.1.2, ?_⟩
  have := h.2
  cases he : tr.eofMark with
  | list vs => cases vs with
    | nil => rfl
    | cons a b => rw [he] at this; cases this
  | int _ => rw [he] at this; cases this
  | flt _ => rw [he] at this; cases this
  | data _ => rw [he] at this; cases this
  | str _ => rw [he] at this; cases this
  | none => rw [he] at this; cases this
  | strct _ => rw [he] at this; cases this

end Aoe.Codec
